"""C16 -- connection lifecycle: one active thread, clean refusal, always
reusable.  Decided on path summaries (vp.pathsum) of the lifecycle methods:
under which decisions a thread is started or a call refused, what happens
before the activity check, which effects every exit of disconnect() and of
the thread wrapper has; plus who-may-construct (call graph) and definite
assignment of what disconnect() reads."""
import ast

from ..common import AnalysisError, rel
from ..callgraph import CallGraph
from ..connmodel import ConnModel, CONN
from ..cfg import cfg_of
from .. import boolfn, pathsum, shared
from ..pathsum import struct, show, is_const


def run(report, db, tier):
    report.explanation = (
        'Lifecycle guarantees are decided as facts about every path of the '
        'lifecycle methods (vp.pathsum: effects in order, decisions in '
        'normal form, locks held, outcome; helpers extracted by later edits '
        'inlined): a thread is started only on paths whose decisions say the '
        'connection is idle and refused exactly when it is active; nothing '
        'is changed before the activity check; a successor joins a live '
        'predecessor and promotes itself under the lock; every attribute '
        'disconnect() reads exists from __init__ on; socket and file object '
        'are published together; every exit of disconnect() has interrupted '
        'the newest thread and closed the transport.')
    cg = CallGraph(db)
    M = ConnModel(db, cg)
    S = pathsum.PathSum(db, cg, inline_pred=pathsum.known_unit_pred())
    # the activity check may live in _start_network_thread or in the
    # _check_connection it shares with connect()/status(): R16.1 reads the
    # paths with that helper's decisions included
    chk = db.own_method(M.conn, '_check_connection')
    S1 = pathsum.PathSum(db, cg, inline=[chk] if chk is not None else [],
                         inline_pred=pathsum.known_unit_pred())
    r1(report, db, cg, M, S1)
    r2(report, db, cg, M, S)
    r3(report, db, cg, M)
    r4(report, db, cg, M, S)
    r5(report, db, cg, M, S)
    r6(report, db, cg, M, S)
    r8(report, db, cg, M, S)
    # "reconnect-from-listener": an outgoing listener that disconnects or
    # connects runs while _pop_packet is writing; the entry it is writing must
    # be out of the queue already (C12's queue rule)
    from ..common import borrow
    from . import c12
    borrow(report, 'R16.9', "a listener that disconnects or reconnects finds "
           "a consistent queue: an entry leaves the queue before it is "
           "written (C12's queue discipline)",
           lambda rid, c: c.startswith('queue:'),
           lambda sub: c12.r3(sub, db, cg, M))
    # reuse from inside a status handler: the handler must find the
    # connection closed (clause shared with C09's status arms)
    from .c09 import plain_status
    from ..protocol import Proto
    from .. import shared
    plain_status(report, db, shared.summariser(db, cg), M, Proto(db),
                 rule_id='R16.7', only=('status:handler-before-close',))


def sy(n):
    return ('sym', n)


def at(base, *names):
    for n in names:
        base = ('attr', base, n)
    return base


# three-valued logic over what a path has decided
def t_not(a):
    return None if a is None else not a


def t_and(a, b):
    if a is False or b is False:
        return False
    if a is None or b is None:
        return None
    return True


def t_or(a, b):
    if a is True or b is True:
        return True
    if a is None or b is None:
        return None
    return False


def none_fact(conds, place):
    """True/False/None: is `place` None according to the decisions?"""
    for a, pol, _ in conds:
        if a[1] == 'is' and struct(a[2][0]) == place and \
                a[2][1] == ('const', None):
            return pol
        if a[1] == 'truth' and struct(a[2][0]) == place:
            return not pol
    return None


def truth_fact(conds, place):
    for a, pol, _ in conds:
        if a[1] == 'truth' and struct(a[2][0]) == place:
            return pol
    return None


def active(conds, conn):
    """The connection is active: the current thread exists and is not
    interrupted, or a successor exists (three-valued)."""
    nt, nnt = at(conn, 'networking_thread'), at(conn, 'new_networking_thread')
    cur = t_and(t_not(none_fact(conds, nt)),
                t_not(truth_fact(conds, at(nt, 'interrupt'))))
    return t_or(cur, t_not(none_fact(conds, nnt)))


def raises_class(p, name):
    if not p.raises or len(p.outcome) != 3:
        return False
    v = p.outcome[1]
    return v[0] == 'obj' and v[2].split('.')[-1] == name


def lock_held(held, conn, M):
    return any(struct(h) == at(conn, M.lock_attr) for h in held)


# ---------------------------------------------------------------------------
def r1(report, db, cg, M, S):
    R = report.rule('R16.1', 'threads are constructed and started only in '
                    '_start_network_thread, under the lock, on paths whose '
                    'decisions say the connection is idle; it refuses '
                    'exactly when the connection is active')
    snt = M.conn_method('_start_network_thread')
    tinit = M.method(M.thread, '__init__')
    inlined = set((db.norm_stats or {}).get('helpers', ()))
    sites = cg.callers_of(tinit)
    sites = [cs for cs in sites if not (isinstance(cs.node.func,
                                                   ast.Attribute)
                                        and cs.node.func.attr == '__init__')
             and '%s:%s' % (cs.caller.module.name, cs.caller.qualname)
             not in inlined]
    report.floor('NetworkingThread construction sites', len(sites), 1)
    for cs in sites:
        if cs.caller is not snt:
            report.violation(R, 'thread-ctor:%s' % cs.caller.qualname,
                             cs.caller.path, cs.node, cs.caller.qualname,
                             'a networking thread is created outside '
                             '_start_network_thread (no activity check, no '
                             'hand-over)')
        else:
            report.ok(R, 'thread constructed in _start_network_thread '
                      '(line %d)' % cs.node.lineno)
    n = 0
    for fi, lst in cg.sites.items():
        if '%s:%s' % (fi.module.name, fi.qualname) in inlined:
            continue
        for cs in lst:
            f = cs.node.func
            if isinstance(f, ast.Attribute) and f.attr == 'start' and any(
                    t[0] == 'inst' and t[1] is M.thread
                    for t in cs.recv_types):
                n += 1
                if fi is not snt:
                    report.violation(R, 'thread-start:%s' % fi.qualname,
                                     fi.path, cs.node, fi.qualname,
                                     'a networking thread is started '
                                     'outside _start_network_thread')
                else:
                    report.ok(R)
    nsites = n
    me = sy(snt.all_params[0])
    started = refused = 0
    for p in S.run(snt):
        starts = [e for e in p.calls() if e.method() == 'start' and (
            e.fn[0] == 'attr' and e.fn[1][0] == 'obj' and e.fn[1][3]
            is M.thread or e.fn[0] == 'fn' and e.fn[2] is not None
            and e.fn[2][0] == 'obj' and e.fn[2][3] is M.thread)]
        a = active(p.conds, me)
        if raises_class(p, 'InvalidState'):
            refused += 1
            if a is not True:
                report.violation(R, 'refusal:differs', snt.path,
                                 p.outcome[2], snt.qualname,
                                 '_start_network_thread refuses when [%s], '
                                 'which is not "the current thread is '
                                 'running or a successor exists"'
                                 % p.cond_text())
            if starts:
                report.violation(R, 'thread-ctor:invalid-state', snt.path,
                                 starts[0].node, snt.qualname, 'a thread is '
                                 'started on a path that then refuses')
            continue
        if p.raises:
            continue
        if not starts:
            report.violation(R, 'thread-start:missing', snt.path, snt.node,
                             snt.qualname, 'no thread is started when [%s]'
                             % p.cond_text())
            continue
        started += 1
        for e in starts:
            if not lock_held(e.held, me, M):
                report.violation(R, 'thread-ctor:unlocked', snt.path, e.node,
                                 snt.qualname, 'thread started outside the '
                                 'write lock')
            if a is not False:
                report.violation(R, 'thread-ctor:invalid-state', snt.path,
                                 e.node, snt.qualname, 'a thread can be '
                                 'created while a connection is active '
                                 '(decisions on the path: [%s])'
                                 % p.cond_text())
        if a is False and all(lock_held(e.held, me, M) for e in starts):
            report.ok(R, 'start under the lock when [%s]' % p.cond_text())
    if not refused:
        report.violation(R, 'refusal:missing:_start_network_thread',
                         snt.path, snt.node, snt.qualname, 'never raises '
                         'InvalidState: an active connection is not '
                         'protected')
    if not started:
        raise AnalysisError('_start_network_thread: no path starts a '
                            'thread', snt.node, rel(snt.path))
    # start() call sites typed by the whole-program inference, or (when the
    # receiver is reached through a computed attribute name) the starts seen
    # on the paths of _start_network_thread
    report.floor('thread start sites', max(nsites, started), 1)


# ---------------------------------------------------------------------------
def r2(report, db, cg, M, S):
    R = report.rule('R16.2', 'hand-over: a successor joins its predecessor '
                    'before running, and promotes itself under the lock; '
                    'the slot is cleared on every exit of run()')
    run = M.method(M.thread, 'run')
    me = sy(run.all_params[0])
    conn = at(me, 'connection')
    prev = at(me, 'previous_thread')
    _run = M.method(M.thread, '_run')
    paths = S.run(run)
    joins = skipped = unguarded = 0
    stuck = None
    promo_bad = None
    promoted = 0
    uncleared = None
    for p in paths:
        evs = p.flat()
        ri = [i for i, e in enumerate(evs) if e.calls(_run)]
        # slot cleared on every exit
        clr = [i for i, e in enumerate(evs) if e.kind == 'store'
               and struct(e.base) == conn and e.attr == 'networking_thread'
               and e.value == ('const', None)
               and lock_held(e.held, conn, M)]
        last = [i for i, e in enumerate(evs) if e.kind == 'store'
                and struct(e.base) == conn
                and e.attr == 'networking_thread']
        if not clr or (last and last[-1] != clr[-1]) or (
                ri and clr[-1] < ri[-1]):
            uncleared = p
        # a successor occupies the successor slot until it promotes itself:
        # every exit must have emptied that slot too, whether or not _run()
        # was reached -- otherwise the connection looks busy for ever
        if t_not(none_fact(p.conds, prev)) and not [
                e for e in evs if e.kind == 'store'
                and struct(e.base) == conn
                and e.attr == 'new_networking_thread'
                and e.value == ('const', None)
                and lock_held(e.held, conn, M)] and not (
                    p.raises and len(p.outcome) > 3) and not any(
                        # joining / asking a started thread other than
                        # oneself does not fail
                        e.kind == 'call' and e.raised and e.method() in (
                            'join', 'is_alive') for e in evs):
            stuck = p
        if not ri:
            continue
        r0 = ri[0]
        before = evs[:r0]
        has_prev = t_not(none_fact(p.conds, prev))
        alive = None
        for a, pol, _ in p.conds:
            if a[1] == 'truth' and a[2][0][0] == 'call' and \
                    a[2][0][1][0] == 'attr' and a[2][0][1][2] == 'is_alive' \
                    and struct(a[2][0][1][1]) == prev:
                alive = pol
        joined = any(e.kind == 'call' and e.fn[0] == 'attr'
                     and e.fn[2] == 'join' and struct(e.fn[1]) == prev
                     for e in before)
        if joined:
            joins += 1
        if has_prev is None:
            unguarded += 1
        elif has_prev and alive is not False and not joined:
            skipped += 1
        if has_prev:
            st = [e for e in before if e.kind == 'store'
                  and struct(e.base) == conn]
            cur = [e for e in st if e.attr == 'networking_thread'
                   and struct(e.value) == me]
            new = [e for e in st if e.attr == 'new_networking_thread'
                   and e.value == ('const', None)]
            late = [e for e in evs[r0:] if e.kind == 'store'
                    and struct(e.base) == conn
                    and (e.attr == 'networking_thread'
                         and struct(e.value) == me
                         or e.attr == 'new_networking_thread')]
            if late:
                promo_bad = ('handover:promotion-late', late[0],
                             'slot promotion happens after _run()')
            elif not cur or not new:
                promo_bad = ('handover:no-promotion', None,
                             'a successor never takes over the current-'
                             'thread slot / clears the successor slot')
            elif not all(lock_held(e.held, conn, M) for e in cur + new):
                promo_bad = ('handover:promotion-unlocked', cur[0],
                             'slot promotion outside the write lock')
            else:
                promoted += 1
    if not any(e.calls(_run) for p in paths for e in p.calls()):
        raise AnalysisError('NetworkingThread.run does not call _run',
                            run.node, rel(run.path))
    if stuck is not None:
        report.violation(R, 'handover:successor-slot-left', run.path,
                         stuck.outcome[2] if len(stuck.outcome) > 2 and
                         hasattr(stuck.outcome[2], 'lineno') else run.node,
                         run.qualname, 'a successor thread can end (%s) '
                         'without emptying new_networking_thread [%s]: the '
                         'connection refuses every later connect() as '
                         '"existing connection"' % (stuck.outcome[0],
                                                    stuck.cond_text()))
    else:
        report.ok(R, 'a successor empties the successor slot on every exit')
    if not joins:
        report.violation(R, 'handover:no-join', run.path, run.node,
                         run.qualname, 'a successor thread never waits for '
                         'its predecessor: two threads would do I/O on one '
                         'connection')
    elif unguarded:
        report.violation(R, 'handover:no-guard', run.path, run.node,
                         run.qualname, 'the hand-over is not guarded by '
                         'the presence of a predecessor')
    elif skipped:
        report.violation(R, 'handover:join-skipped', run.path, run.node,
                         run.qualname, '_run() is reachable with a live '
                         'predecessor that was not joined')
    else:
        report.ok(R, 'join() precedes _run() whenever a live predecessor '
                  'exists')
    if promo_bad:
        report.violation(R, promo_bad[0], run.path,
                         promo_bad[1].node if promo_bad[1] else run.node,
                         run.qualname, promo_bad[2])
    elif promoted:
        report.ok(R, 'networking_thread = self; new_networking_thread = '
                  'None under the lock before _run()')
    else:
        report.violation(R, 'handover:no-promotion', run.path, run.node,
                         run.qualname, 'a successor never takes over the '
                         'current-thread slot / clears the successor slot')
    if uncleared is None:
        report.ok(R, 'slot cleared under the lock on every exit of run()')
    else:
        report.violation(R, 'handover:slot-not-cleared', run.path, run.node,
                         run.qualname, 'run() can end without clearing the '
                         'thread slot under the lock (path [%s] -> %s): the '
                         'connection stays "active" forever'
                         % (uncleared.cond_text(), uncleared.outcome[0]))


# ---------------------------------------------------------------------------
def r3(report, db, cg, M):
    R = report.rule('R16.3', 'check before change: in connect() and '
                    'status() nothing is changed and no transport is set up '
                    'before the decisions of the activity check are taken, '
                    'inside the lock; an active connection is refused')
    chk = db.own_method(M.conn, '_check_connection')
    known = pathsum.known_unit_pred()
    S = pathsum.PathSum(db, cg, inline=[chk] if chk else [],
                        inline_pred=known)
    for name in ('connect', 'status'):
        fi = M.conn_method(name)
        me = sy(fi.all_params[0])
        paths = S.run(fi)
        refused = proceeded = 0
        prob = []
        for p in paths:
            if raises_class(p, 'InvalidState'):
                refused += 1
                if active(p.conds, me) is not True:
                    prob.append(('check:refuses-idle:%s' % name, None,
                                 '%s() refuses when [%s]' % (
                                     name, p.cond_text())))
                changed = [e for e in p.flat(('store', 'call'))
                           if changes_state(e, me, M)]
                if changed:
                    prob.append(('check:late:%s' % name, changed[0],
                                 'connection state is changed before the '
                                 'activity check: a refused %s() disturbs '
                                 'the active connection' % name))
                continue
            evs = p.flat(('store', 'call'))
            first = None
            for e in evs:
                if changes_state(e, me, M):
                    first = e
                    break
            if first is None:
                continue
            proceeded += 1
            decided = p.conds[:first.nconds]
            a = active(decided, me)
            if a is None:
                kind = 'check:missing:%s' % name if active(
                    p.conds, me) is None else 'check:late:%s' % name
                prob.append((kind, first, '%s() changes connection state '
                             '(%r) before it is decided that no connection '
                             'is active' % (name, first)))
            elif a is True:
                prob.append(('check:ignored:%s' % name, first, '%s() goes '
                             'on although a connection is active'
                             % name))
            else:
                # the decisions were taken under the lock that also covers
                # the change
                idx = [i for i, (c, _, _) in enumerate(decided)
                       if mentions_slot(c, me)]
                if not lock_held(first.held, me, M) or not all(
                        lock_held(p.cond_held[i], me, M) for i in idx):
                    prob.append(('check:unlocked:%s' % name, first,
                                 'the activity check runs outside the write '
                                 'lock: another thread can connect in '
                                 'between'))
        if not refused and not prob:
            prob.append(('check:missing:%s' % name, None, '%s() never '
                         'refuses an active connection' % name))
        if not proceeded:
            raise AnalysisError('%s(): no path sets up a connection' % name,
                                fi.node, rel(fi.path))
        if prob:
            seen = set()
            for key, e, msg in prob:
                if key in seen:
                    continue
                seen.add(key)
                report.violation(R, key, fi.path, e.node if e is not None
                                 else fi.node, fi.qualname, msg)
        else:
            report.ok(R, '%s(): idle decided under the lock before any '
                      'state change on %d path(s); active -> InvalidState'
                      % (name, proceeded))


def r8(report, db, cg, M, S, rid='R16.8'):
    R = report.rule(rid, 'a failed connection is closed by its own thread '
                    'without hitting a successor: the exception dispatch '
                    'decides "the newest thread slot is interrupted" and '
                    'calls disconnect() inside one critical section of the '
                    'write lock (connect()/status() fill the slots under '
                    'that lock)')
    he = M.conn_method('_handle_exception')
    dc = M.conn_method('disconnect')
    me = sy(he.all_params[0])
    n = 0
    bad = None
    for p in S.run(he):
        evs = p.flat()
        for k, e in enumerate(evs):
            if not e.calls(dc):
                continue
            n += 1
            idx = [i for i, (c, _, _) in enumerate(p.conds[:e.nconds])
                   if mentions_slot(c, me)]
            if not idx:
                continue        # unconditional close: nothing to race with
            if not lock_held(e.held, me, M) or not all(
                    lock_held(p.cond_held[i], me, M) for i in idx):
                bad = bad or (e, 'outside the write lock')
                continue
            # one critical section: the lock is not let go in between
            gap = [x for x in evs[:k] if x.kind == 'exit'
                   and struct(x.ctx) == at(me, M.lock_attr)
                   and x.nconds > min(idx)
                   and not lock_held(x.held, me, M)]
            if gap:
                bad = bad or (e, 'in two separate critical sections')
    if not n:
        raise AnalysisError('_handle_exception: no call of disconnect()',
                            he.node, rel(he.path))
    if bad:
        report.violation(
            R, 'dispatch:close-race', he.path, bad[0].node, he.qualname,
            'the dispatch tests the interrupt flag of the newest thread '
            'slot and then calls disconnect() %s: a connect() from '
            'another thread can run in between (it only needs the '
            'connection to be interrupted), and the disconnect() then '
            'closes the *new* connection and interrupts its thread -- the '
            'reconnect the caller was promised is torn down' % bad[1])
    else:
        report.ok(R, 'flag test and disconnect() in one critical section '
                  '(%d close sites)' % n)


def mentions_slot(c, me):
    return any(t[0] == 'attr' and t[2] in ('networking_thread',
                                           'new_networking_thread')
               and struct(t[1]) == me for t in pathsum.subterms(c))


def changes_state(e, me, M):
    if e.kind == 'store':
        b = e.base
        while b[0] == 'attr':
            b = b[1]
        return b == me
    if e.kind == 'call':
        return any(t.cls is M.conn for t in (e.targets or ())) or (
            e.fn[0] == 'ext' and e.fn[1].startswith('socket.'))
    return False


# ---------------------------------------------------------------------------
def self_attr_reads(fi):
    out = []
    me = fi.all_params[0]
    for n in ast.walk(fi.node):
        if isinstance(n, ast.Attribute) and isinstance(n.ctx, ast.Load) and \
                isinstance(n.value, ast.Name) and n.value.id == me:
            out.append(n)
    return out


def r4(report, db, cg, M, S):
    R = report.rule('R16.4', 'usable in any state: every attribute '
                    'disconnect() and its self-callees read is assigned in '
                    '__init__; socket and file object are published '
                    'together')
    init = M.conn_method('__init__')
    dc = M.conn_method('disconnect')
    assigned = set()
    me = init.all_params[0]
    for n in ast.walk(init.node):
        if isinstance(n, ast.Attribute) and isinstance(n.ctx, ast.Store) and \
                isinstance(n.value, ast.Name) and n.value.id == me:
            assigned.add(n.attr)
    # must be assigned on every path of __init__ (definite assignment)
    g = cfg_of(init)
    todo = [dc]
    seen = set()
    reads = {}
    while todo:
        f = todo.pop()
        if f in seen:
            continue
        seen.add(f)
        for a in self_attr_reads(f):
            if db.find_attr(M.conn, a.attr) is not None:
                continue          # method or class attribute
            reads.setdefault(a.attr, (f, a))
        for cs in cg.sites.get(f, []):
            fn = cs.node.func
            if isinstance(fn, ast.Attribute) and isinstance(
                    fn.value, ast.Name) and fn.value.id == f.all_params[0]:
                for m, _, _ in cs.callees:
                    if m.cls is M.conn:
                        todo.append(m)
    report.note('attributes read by disconnect and self-callees',
                sorted(reads))
    report.floor('attributes read by disconnect()', len(reads), 6)
    for attr, (f, node) in sorted(reads.items()):
        if attr not in assigned:
            report.violation(R, 'uninitialised:%s' % attr, f.path, node,
                             f.qualname, 'self.%s is read on the '
                             'disconnect() path but not assigned in '
                             '__init__: disconnect() before the first '
                             'connect() raises AttributeError' % attr)
            continue
        stores = [n for n in g.reachable_nodes() if n.ast is not None and any(
            isinstance(x, ast.Attribute) and isinstance(x.ctx, ast.Store)
            and x.attr == attr and isinstance(x.value, ast.Name)
            and x.value.id == me for x in n.walk())]
        esc = g.exists_path(g.entry, lambda x: x is g.exit,
                            avoid=lambda x: x in stores)
        if esc is None:
            report.ok(R, 'self.%s definitely assigned in __init__' % attr)
        else:
            report.violation(R, 'maybe-uninitialised:%s' % attr, init.path,
                             init.node, init.qualname, 'self.%s is not '
                             'assigned on every path of __init__' % attr)
    # publication of socket and file_object in _connect
    cn = M.conn_method('_connect')
    cme = sy(cn.all_params[0])
    seen_pub = 0
    bad = None
    for p in S.run(cn):
        evs = p.flat(('store', 'call'))
        si = [i for i, e in enumerate(evs) if e.kind == 'store'
              and struct(e.base) == cme and e.attr == 'socket']
        fi_ = [i for i, e in enumerate(evs) if e.kind == 'store'
               and struct(e.base) == cme and e.attr == 'file_object']
        if not si and not fi_:
            continue
        seen_pub += 1
        if not si or not fi_:
            bad = (evs[(si or fi_)[0]], 'only one of socket / file_object '
                   'is set on the path [%s] -> %s' % (p.cond_text(),
                                                      p.outcome[0]))
            continue
        lo, hi = sorted((si[0], fi_[0]))
        between = [e for e in evs[lo + 1:hi] if e.kind == 'call']
        if between:
            bad = (between[0], 'self.%s is already set when `%s` can fail, '
                   'but the other one of socket / file_object is not (or is '
                   'the previous connection\'s): disconnect() after a '
                   'refused connect then fails' % (
                       evs[lo].attr, show(between[0].fn)))
    if not seen_pub:
        raise AnalysisError('_connect: stores of socket / file_object not '
                            'found', cn.node, rel(cn.path))
    if bad:
        report.violation(R, 'publication:socket-before-file', cn.path,
                         bad[0].node, cn.qualname, bad[1])
    else:
        report.ok(R, '_connect: socket and file_object are stored together, '
                  'with no failure point in between')


# ---------------------------------------------------------------------------
def r5(report, db, cg, M, S):
    R = report.rule('R16.5', 'teardown on every exit of disconnect(): '
                    'whatever the flush does, the transport is shut down '
                    '(both directions), closed and forgotten; a dead peer '
                    'does not make disconnect() raise')
    dc = M.conn_method('disconnect')
    me = sy(dc.all_params[0])
    pop = M.conn_method('_pop_packet')
    wp_ = M.conn_method('_write_packet')
    sock = at(me, 'socket')
    fobj = at(me, 'file_object')
    paths = S.run(dc)
    report.note('paths', '%s: %d paths' % (dc.qualname, len(paths)))
    flushes = set()
    flush_ok = set()
    skipped = None
    how_bad = None
    shut_seen = shut_caught = 0
    n_close = 0
    narrow = None

    def recv_is(e, place):
        return (e.fn[0] == 'attr' and struct(e.fn[1]) == place) or (
            e.fn[0] == 'fn' and e.fn[2] is not None
            and struct(e.fn[2]) == place)
    for p in paths:
        evs = p.flat()
        for e in evs:
            if e.calls(pop) or (e.kind == 'call' and e.calls(wp_)):
                # the flush: queued packets written by _pop_packet, or
                # handed to the frame writer directly
                flushes.add(id(e.node))
        for n in p.notes:
            if n[0] == 'caught' and id(n[3]) in flushes and p.returns:
                flush_ok.add(id(n[3]))
        has_sock = t_not(none_fact(p.conds, sock))
        shut = [e for e in evs if e.kind == 'call'
                and e.method() == 'shutdown' and recv_is(e, sock)]
        close = [e for e in evs if e.kind == 'call'
                 and e.method() == 'close' and recv_is(e, sock)]
        fclose = [e for e in evs if e.kind == 'call'
                  and e.method() == 'close' and recv_is(e, fobj)]
        forget = [e for e in evs if e.kind == 'store'
                  and struct(e.base) == me and e.attr == 'socket'
                  and e.value == ('const', None)]
        for e in shut:
            shut_seen += 1
            how = e.args[-1] if e.args else None
            if how != ('ext', 'socket.SHUT_RDWR'):
                how_bad = (e, show(how) if how else None)
            if any(n[0] == 'caught' and n[3] is e.node for n in p.notes) \
                    and close:
                shut_caught += 1
            for n in p.notes:
                if n[0] == 'caught' and n[3] is e.node:
                    cov = shared.handler_covers_oserror(db, dc if
                                                        e.fi is None else e.fi,
                                                        n[1])
                    if cov is None:
                        raise AnalysisError(
                            'the guard around shutdown() names a class '
                            'that does not resolve', n[1], rel(dc.path))
                    if cov is False:
                        narrow = n[1]
        raised_here = p.raises and len(p.outcome) > 3 and any(
            p.outcome[2] is e.node for e in shut + close + fclose)
        if has_sock and not raised_here:
            if not (close and fclose and forget and shut):
                skipped = (p, 'close' if not close else 'file close'
                           if not fclose else 'shutdown' if not shut
                           else 'socket = None')
            else:
                n_close += 1
                if not all(lock_held(e.held, me, M) for e in close + forget):
                    skipped = (p, 'lock around the close')
        if has_sock is None and (p.returns or p.raises):
            skipped = (p, 'socket test')
    if not flushes:
        raise AnalysisError('disconnect: flush not found', dc.node,
                            rel(dc.path))
    if not n_close and skipped is None:
        report.violation(R, 'teardown:no-close', dc.path, dc.node,
                         dc.qualname, 'no `socket is not None -> close` '
                         'stage found in disconnect()')
        return
    if skipped:
        p, what = skipped
        report.violation(R, 'teardown:skipped:close', dc.path, dc.node,
                         dc.qualname, 'disconnect() can end (%s, path [%s]) '
                         'without the %s: with a dead peer and queued '
                         'packets the socket stays open'
                         % (p.outcome[0], p.cond_text(), what))
    else:
        report.ok(R, 'every exit of disconnect() with a socket passes '
                  'shutdown, close of socket and file object, and forgets '
                  'the socket (%d paths)' % n_close)
    if flushes - flush_ok:
        report.violation(R, 'teardown:flush-raises', dc.path, dc.node,
                         dc.qualname, 'an I/O error while flushing (peer '
                         'already gone) propagates out of disconnect()')
    else:
        report.ok(R, 'I/O errors of the flush are caught')
    if how_bad:
        report.violation(R, 'teardown:shutdown-how', dc.path, how_bad[0].node,
                         dc.qualname, 'shutdown(%s) does not shut the read '
                         'direction: a networking thread blocked inside a '
                         'read on this socket is not woken by close() and '
                         'never terminates' % how_bad[1])
    elif shut_seen:
        report.ok(R, 'shutdown(SHUT_RDWR): a thread blocked in a read is '
                  'woken')
    if shut_seen and not shut_caught:
        report.violation(R, 'teardown:shutdown-raises', dc.path, dc.node,
                         dc.qualname, 'shutdown() on an already closed peer '
                         'raises out of disconnect()')
    elif narrow is not None:
        report.violation(R, 'teardown:shutdown-guard', dc.path, narrow,
                         dc.qualname, 'the guard around shutdown() takes '
                         'only `%s`: shutting down a socket whose peer is '
                         'already gone raises a plain OSError (ENOTCONN), '
                         'which now propagates out of disconnect() -- and '
                         'out of the exception dispatch that calls it'
                         % ast.unparse(narrow.type))
    elif shut_seen:
        report.ok(R, 'shutdown() errors (any OSError) are caught and the '
                  'close goes on')


# ---------------------------------------------------------------------------
def r6(report, db, cg, M, S):
    R = report.rule('R16.6', 'termination: every loop of the networking '
                    'thread stops when its interrupt flag is set, and '
                    'disconnect() sets the flag of the newest thread slot '
                    'on every exit')
    rn = M.method(M.thread, '_run')
    # _run and the helpers of the thread class it was split into (functions
    # that are not units of the confirmed tree)
    unknown = pathsum.known_unit_pred()
    scope, todo = [], [rn]
    while todo:
        f = todo.pop()
        if f in scope:
            continue
        scope.append(f)
        for cs in cg.sites.get(f, []):
            for m, _, _ in cs.callees:
                if m.cls is M.thread and unknown(m) and m not in scope:
                    todo.append(m)

    def unbounded_or_counted(lp):
        """while loops, and for loops that count attempts (range) or poll a
        callable (iter(f, sentinel)); a for loop over a collection ends with
        its data"""
        if isinstance(lp, ast.While):
            return True
        it = lp.iter
        return isinstance(it, ast.Call) and isinstance(it.func, ast.Name) \
            and (it.func.id == 'range' or (it.func.id == 'iter'
                                           and len(it.args) == 2))

    def leaves(block):
        return bool(block) and isinstance(block[-1], (ast.Break, ast.Return,
                                                      ast.Raise))

    def guarded(stmts, atom):
        """some statement of the iteration is `if c: ...leave` with c true
        whenever the interrupt flag is set"""
        for st in stmts:
            if isinstance(st, ast.If) and leaves(st.body) and \
                    atom in boolfn.atoms(st.test) and \
                    boolfn.conj_satisfiable([(st.test, False)],
                                            {atom: True}) is None:
                return True
            if isinstance(st, ast.If) and leaves(st.orelse) and \
                    atom in boolfn.atoms(st.test) and \
                    boolfn.conj_satisfiable([(st.test, True)],
                                            {atom: True}) is None:
                return True
            if isinstance(st, (ast.With, ast.Try)) and guarded(st.body,
                                                               atom):
                return True
        return False
    nloops = 0
    for f in scope:
        if not f.params:
            continue
        atom = '%s.interrupt' % f.all_params[0]
        for lp in [n for n in ast.walk(f.node)
                   if isinstance(n, (ast.While, ast.For))]:
            if not unbounded_or_counted(lp):
                continue
            nloops += 1
            stops = False
            if isinstance(lp, ast.While):
                ats = boolfn.atoms(lp.test)
                stops = atom in ats and boolfn.conj_satisfiable(
                    [(lp.test, True)], {atom: True}) is None
            stops = stops or guarded(lp.body, atom)
            head = ast.unparse(lp.test) if isinstance(lp, ast.While) \
                else 'for %s in %s' % (ast.unparse(lp.target),
                                       ast.unparse(lp.iter))
            if stops:
                report.ok(R, '%s, loop at line %d: %s' % (
                    f.qualname, lp.lineno, head))
            else:
                report.violation(R, 'loop-ignores-interrupt:%s' % head[:40],
                                 f.path, lp, f.qualname, 'the loop `%s` '
                                 'keeps running after interrupt is set'
                                 % head)
    report.floor('polling loops of the networking thread', nloops, 2)
    dc = M.conn_method('disconnect')
    d = sy(dc.all_params[0])
    nt, nnt = at(d, 'networking_thread'), at(d, 'new_networking_thread')
    miss = {}
    okc = {}
    for p in S.run(dc):
        if p.raises and len(p.outcome) > 3 and not p.events:
            continue
        has_new = t_not(none_fact(p.conds, nnt))
        has_cur = t_not(none_fact(p.conds, nt))
        if has_new:
            slot, label = nnt, 'a successor exists'
        elif has_new is False and has_cur:
            slot, label = nt, 'only the current thread exists'
        elif has_new is False and has_cur is False:
            continue
        else:
            miss['?'] = ('the newest thread slot is not determined on the '
                         'path [%s]' % p.cond_text())
            continue
        marks = [e for e in p.flat(('store',)) if e.attr == 'interrupt'
                 and struct(e.base) == slot and e.value == ('const', True)]
        wrong = [e for e in p.flat(('store',)) if e.attr == 'interrupt'
                 and struct(e.base) != slot]
        name = slot[2]
        if not marks:
            miss[name] = ('when %s, disconnect() can end (%s) without '
                          'setting %s.interrupt: that thread keeps running'
                          % (label, p.outcome[0], name))
        else:
            okc[name] = label
    for name, msg in sorted(miss.items()):
        report.violation(R, 'interrupt-target:%s' % name, dc.path, dc.node,
                         dc.qualname, msg)
    for name, label in sorted(okc.items()):
        if name not in miss:
            report.ok(R, 'when %s: %s.interrupt = True on every exit'
                      % (label, name))
    if not okc and not miss:
        report.violation(R, 'teardown:no-interrupt', dc.path, dc.node,
                         dc.qualname, 'disconnect() never tells the '
                         'networking thread to stop')
