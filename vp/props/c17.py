"""C17 -- the session-server hash equals Java's signed-hex SHA-1.

The value graph of generate_verification_hash is extracted (locals
substituted, in-repo callees inlined, hash updates kept in order) and
compared with the reference term
  format(int.from_bytes(sha1(utf8(server_id) || secret || key).digest(),
                        'big', signed=True), 'x')."""
import ast

from ..common import AnalysisError, rel
from ..callgraph import CallGraph
from ..connmodel import ConnModel, CONN
from .. import terms, shared, pathsum
from ..pathsum import struct, show, is_const, subterms

ENC = 'minecraft.networking.encryption'


def flatten_concat(t):
    if t[0] == 'op' and t[1] in ('+', 'concat'):
        out = []
        for a in t[2]:
            out += flatten_concat(a)
        return out
    return [t]


def value_of(S, fi):
    vals = []
    paths = S.run(fi)
    for p in paths:
        if p.returns:
            vals.append((p, p.value))
    uniq = []
    for p, v in vals:
        if struct(v) not in [struct(u) for _, u in uniq]:
            uniq.append((p, v))
    if len(uniq) != 1:
        raise AnalysisError('%s: %d different results on its paths'
                            % (fi.qualname, len(uniq)), fi.node,
                            rel(fi.path))
    return uniq[0]


def run(report, db, tier):
    report.explanation = (
        'The value generate_verification_hash returns is extracted as a '
        'term (vp.pathsum: locals substituted, in-repo callees inlined, '
        'the updates of the hash object kept in order; nothing executed) '
        'and compared with the reference term; Python\'s format(n, "x") of a '
        'negative int is "-" + magnitude, which is Java\'s '
        'BigInteger.toString(16).')
    report.trusted_base = ['hashlib.sha1, int.from_bytes, format semantics']
    R1 = report.rule('R17.1', 'digest input: utf8(server_id), then the '
                     'shared secret, then the public key')
    R2 = report.rule('R17.2', 'digest interpreted big-endian, signed, and '
                     'printed in lower-case hex without padding')
    R3 = report.rule('R17.3', 'use site: (server_id, secret, public_key) in '
                     'parameter order; the result goes to join()')
    fi = db.get_func(ENC, 'generate_verification_hash')
    cg = CallGraph(db)
    helper = None

    def summ(opaque=()):
        return shared.summariser(
            db, cg, opaque=opaque, implicit_raises=False)
    S = summ()
    S.inline_pred = lambda t: t.module.name == ENC
    try:
        path, term = value_of(S, fi)
    except AnalysisError:
        # a path that prints the digest by other means (a "fast path"): it
        # is not compared with the reference term, but one thing is decided
        # -- text stripped of '0' on the right has lost significant digits
        for p in S.run(fi):
            if not p.returns:
                continue
            for t in subterms(p.value or ()):
                if t[0] == 'call' and t[1][0] == 'attr' and \
                        t[1][2] in ('strip', 'rstrip') and (
                            not t[2] or any(
                                is_const(a) and isinstance(a[1], str)
                                and '0' in a[1] for a in t[2])) and any(
                            u[0] == 'call' and u[1][0] == 'attr'
                            and u[1][2] in ('hexdigest', 'hex')
                            or u[0] == 'op' and u[1] in ('fmt', 'hex')
                            for u in subterms(t[1][1])):
                    report.violation(
                        R2, 'hex:stripped-right', fi.path, p.outcome[2]
                        if len(p.outcome) > 2 else fi.node, fi.qualname,
                        'a path returns %s [%s]: .%s() also removes the '
                        'zeros at the *end* of the hex text, which are '
                        'significant digits -- a digest ending in 0 is '
                        'printed too short' % (show(p.value)[:80],
                                               p.cond_text()[:80], t[1][2]))
                    return
        # not one term: look for a hand-written signed conversion helper and
        # treat it as a unit of its own
        helper = find_conversion_helper(db, fi)
        if helper is None:
            raise
        S = summ(opaque=[helper])
        S.inline_pred = lambda t: t.module.name == ENC and t is not helper
        path, term = value_of(S, fi)
    report.note('extracted term', show(term))
    params = fi.params
    if len(params) != 3:
        raise AnalysisError('generate_verification_hash: expected 3 '
                            'parameters', fi.node, rel(fi.path))
    # ---- outermost: hex formatting
    num = None
    if term[0] == 'op' and term[1] == 'fmt' and is_const(term[2][0]):
        spec = term[2][0][1]
        num = term[2][1]
        if spec in (':x', 'x'):
            report.ok(R2, "format(n, 'x')")
        else:
            report.violation(R2, 'format-spec', fi.path, fi.node,
                             fi.qualname, 'the number is formatted with %r; '
                             'Java prints lower-case hex without padding '
                             "('x')" % (spec.lstrip(':'),))
    elif term[0] == 'op' and term[1] == 'hex':
        num = term[2][0] if term[2] else None
        report.violation(R2, 'format-hex', fi.path, fi.node, fi.qualname,
                         "hex() prefixes '0x' (and '-0x'): not Java's "
                         'BigInteger.toString(16)')
    else:
        raise AnalysisError('generate_verification_hash: result is not a '
                            'recognised hex formatting of a number: %s'
                            % show(term), fi.node, rel(fi.path))
    if helper is not None and num is not None and num[0] == 'call' and \
            num[1][0] == 'fn' and num[1][1] is helper:
        num = manual_signed(report, R2, db, helper, num)
    # ---- int.from_bytes(..., 'big', signed=True)
    dig = None
    if num is not None and num[0] == 'call' and num[1] == (
            'attr', ('builtin', 'int'), 'from_bytes') and num[2]:
        dig = num[2][0]
        kw = dict(num[3])
        bo = num[2][1] if len(num[2]) > 1 else kw.get('byteorder')
        sg = kw.get('signed', num[2][2] if len(num[2]) > 2 else None)
        if bo == ('const', 'big'):
            report.ok(R2, "byteorder 'big'")
        else:
            report.violation(R2, 'byteorder', fi.path, fi.node, fi.qualname,
                             'digest is interpreted with byteorder %s, not '
                             "'big'" % (show(bo) if bo else None))
        if sg == ('const', True):
            report.ok(R2, 'signed=True')
        else:
            report.violation(R2, 'signed', fi.path, fi.node, fi.qualname,
                             'digest is interpreted as signed=%s: digests '
                             'with the top bit set must print as negative '
                             'numbers' % (show(sg) if sg else None))
    else:
        raise AnalysisError('generate_verification_hash: the number is not '
                            'int.from_bytes(...) of the digest: %s'
                            % (show(num) if num else None), fi.node,
                            rel(fi.path))
    # ---- sha1 object and its input
    if not (dig[0] == 'call' and dig[1][0] == 'attr' and dig[1][2] in (
            'digest', 'hexdigest') and dig[1][1][0] == 'call'):
        raise AnalysisError('generate_verification_hash: digest source not '
                            'recognised: %s' % show(dig), fi.node,
                            rel(fi.path))
    if dig[1][2] != 'digest':
        report.violation(R2, 'digest-kind', fi.path, fi.node, fi.qualname,
                         'uses %s() where the raw digest() is needed'
                         % dig[1][2])
    obj = dig[1][1]
    ctor = obj[1][1] if obj[1][0] == 'ext' else show(obj[1])
    if ctor not in ('hashlib.sha1',):
        report.violation(R1, 'hash-function', fi.path, fi.node, fi.qualname,
                         'the digest is %s, the protocol prescribes SHA-1'
                         % ctor)
    else:
        report.ok(R1, 'hashlib.sha1')
    pieces = []
    for a in obj[2]:
        pieces += flatten_concat(a)
    evs = path.flat(('call',))
    for e in evs:
        if e.fn[0] == 'attr' and e.fn[1] == obj:
            if e.res == dig:
                break
            if e.fn[2] != 'update' or len(e.args) != 1:
                raise AnalysisError('unexpected effect on the hash object: '
                                    '%s' % e.fn[2], e.node, rel(fi.path))
            pieces += flatten_concat(e.args[0])
    want = ['utf8(%s)' % params[0], params[1], params[2]]
    got = []
    for p in pieces:
        if p[0] == 'call' and p[1][0] == 'attr' and p[1][2] == 'encode' and \
                p[1][1][0] == 'sym':
            enc = 'utf-8'
            kw = dict(p[3])
            if p[2] and is_const(p[2][0]):
                enc = p[2][0][1]
            elif 'encoding' in kw and is_const(kw['encoding']):
                enc = kw['encoding'][1]
            if str(enc).lower().replace('-', '').replace('_', '') == 'utf8':
                got.append('utf8(%s)' % p[1][1][1])
            else:
                got.append('%s(%s)' % (enc, p[1][1][1]))
        elif p[0] == 'sym':
            got.append(p[1])
        else:
            got.append(show(p))
    if got == want:
        report.ok(R1, 'sha1 input = %s' % ' || '.join(got))
    else:
        report.violation(R1, 'digest-input', fi.path, fi.node, fi.qualname,
                         'the digest input is %s; the session protocol '
                         'prescribes %s' % (' || '.join(got) or '(nothing)',
                                            ' || '.join(want)))
    # ---- use site
    M = ConnModel(db, cg)
    SS = shared.summariser(db, cg)
    inlined = set((db.norm_stats or {}).get('helpers', ()))
    callers = sorted(set(cs.caller for cs in cg.callers_of(fi)
                         if '%s:%s' % (cs.caller.module.name,
                                       cs.caller.qualname) not in inlined),
                     key=lambda f: f.qualname)
    nsites = 0
    gen = db.get_func(ENC, 'generate_shared_secret')
    for caller in callers:
        pk = ('sym', caller.all_params[1]) if len(caller.params) > 1 else \
            ('sym', 'packet')
        res = {}
        for p in SS.run(caller):
            evs = p.flat(('call',))
            for e in evs:
                if not e.calls(fi):
                    continue
                nsites += 1
                names = fi.params
                bound = dict(zip(names, e.args))
                bound.update(dict(e.kwargs))
                sec = bound.get(names[1])
                okk = struct(bound.get(names[0], ('none',))) == (
                    'attr', pk, 'server_id') and struct(
                        bound.get(names[2], ('none',))) == (
                            'attr', pk, 'public_key') and sec is not None \
                    and sec[0] == 'call' and any(
                        x.res == sec and x.calls(gen) for x in evs)
                if not okk:
                    res['use-site:args'] = (
                        e.node, 'called with (%s); expected (packet.'
                        'server_id, the fresh shared secret, packet.'
                        'public_key)' % ', '.join(
                            '%s=%s' % (k, show(v))
                            for k, v in bound.items()))
                joins = [x for x in evs if x.method() == 'join' and any(
                    t[0] == 'attr' and t[2] == 'auth_token'
                    for t in subterms(x.fn))]
                if any([a for a in j.args if a[0] == 'call'] != [e.res]
                       for j in joins):
                    res['use-site:join'] = (
                        e.node, 'the hash is not what is passed to '
                        'auth_token.join()')
                elif joins:
                    res.setdefault('ok-join', None)
                if okk:
                    res.setdefault('ok-args', None)
        for key, v in sorted(res.items()):
            if v is None:
                continue
            report.violation(R3, key, caller.path, v[0], caller.qualname,
                             v[1])
        if 'use-site:args' not in res and 'ok-args' in res:
            report.ok(R3, '%s: %s(packet.server_id, secret, packet.'
                      'public_key)' % (caller.qualname, fi.name))
        if 'use-site:join' not in res:
            if 'ok-join' in res:
                report.ok(R3, 'auth_token.join(hash)')
            else:
                report.violation(R3, 'use-site:join', caller.path,
                                 caller.node, caller.qualname, 'the hash is '
                                 'not what is passed to auth_token.join()')
    report.floor('call sites of generate_verification_hash', nsites, 1)
    sent_unchanged(report, db, cg)
    # the server id that is hashed is the text the String codec decoded: it
    # must be the server's bytes decoded as UTF-8, nothing stripped
    from ..common import borrow
    from . import c02
    from ..fold import Folder
    BASIC = 'minecraft.networking.types.basic'
    from . import c01
    borrow(report, 'R17.6', "the request the hash is computed from is this "
           "connection's: the frame buffer is made per read, not shared "
           "between reactors (C01's reader rule)",
           lambda rid, c: c == 'reader:shared-buffer',
           lambda sub: c01.reader(sub, db, shared.summariser(db, cg),
                                  ConnModel(db, cg), rule_id='R17.6x'))
    borrow(report, 'R17.5', "the server id is decoded as the server sent it "
           "(C02's length-prefixed String rule)",
           lambda rid, c: rid == 'R02.4' and 'String' in c,
           lambda sub: c02.r4(sub, db, Folder(db), db.modules[BASIC],
                              c02.load_ref()))



def find_conversion_helper(db, fi):
    """An in-repo function reachable from the hash function that turns the
    digest bytes into a number without being a straight-line term."""
    mod = fi.module
    for name, f in mod.funcs.items():
        if f is fi:
            continue
        src = ast.unparse(f.node)
        if 'signed' in f.params and ('16)' in src or 'from_bytes' in src):
            try:
                terms.straight_line_value(f)
            except AnalysisError:
                return f
    return None


def manual_signed(report, R2, db, helper, term):
    """helper(b, signed): unsigned big-endian value of b, minus 2**(8*len(b))
    under a test that must be `signed and first byte >= 0x80`.  The test is
    folded over all 256 first-byte values.  Returns the term with the helper
    call replaced by the equivalent int.from_bytes term."""
    from ..fold import Folder, Env, FoldRaise
    b = helper.all_params[0]
    body = [st for st in helper.body if not (isinstance(st, ast.Expr)
                                            and isinstance(st.value,
                                                           ast.Constant))]
    init = [st for st in body if isinstance(st, ast.Assign)]
    ifs = [st for st in body if isinstance(st, ast.If)]
    rets = [st for st in body if isinstance(st, ast.Return)]
    if len(init) != 1 or len(ifs) != 1 or len(rets) != 1 or \
            not isinstance(init[0].targets[0], ast.Name):
        raise AnalysisError('signed conversion helper %s: shape not '
                            'recognised' % helper.name, helper.node,
                            rel(helper.path))
    num = init[0].targets[0].id
    iv = ast.unparse(init[0].value).replace(' ', '')
    unsigned_forms = ('int(hexlify(%s)orb\'0\',16)' % b,
                      'int(hexlify(%s),16)' % b, 'int(%s.hex(),16)' % b,
                      'int(binascii.hexlify(%s),16)' % b,
                      "int.from_bytes(%s,'big')" % b,
                      "int.from_bytes(%s,byteorder='big')" % b)
    if iv not in unsigned_forms:
        raise AnalysisError('signed conversion helper %s: unsigned value is '
                            '%s' % (helper.name, iv), init[0],
                            rel(helper.path))
    st = ifs[0]
    sub = [x for x in st.body if isinstance(x, ast.AugAssign)
           and isinstance(x.op, ast.Sub) and ast.unparse(x.target) == num]
    amount = ast.unparse(sub[0].value).replace(' ', '') if len(sub) == 1 \
        else None
    good_amounts = ('1<<len(%s)*8' % b, '1<<8*len(%s)' % b,
                    '2**(len(%s)*8)' % b, '2**(8*len(%s))' % b,
                    '1<<(len(%s)*8)' % b, '1<<(8*len(%s))' % b)
    if len(st.body) != 1 or st.orelse or amount not in good_amounts or \
            ast.unparse(rets[0].value) != num:
        raise AnalysisError('signed conversion helper %s: the correction is '
                            'not `num -= 2**(8*len(b))`' % helper.name, st,
                            rel(helper.path))
    # fold the test over signed in {True, False} x first byte 0..255
    import copy
    F = Folder(db)

    class Sub(ast.NodeTransformer):
        def visit_Call(self, n):
            if isinstance(n.func, ast.Name) and n.func.id == 'ord':
                return ast.Name(id='__first__', ctx=ast.Load())
            return self.generic_visit(n)
    test = Sub().visit(copy.deepcopy(st.test))
    ast.fix_missing_locations(test)
    bad = []
    for signed in (True, False):
        for k in range(256):
            env = Env(helper.module)
            env.vars['signed'] = signed
            env.vars[helper.all_params[1]] = signed
            env.vars['__first__'] = k
            env.vars[b] = bytes([k]) + b'\x00' * 19
            try:
                got = bool(F.truth(F.eval(test, env), test, env))
            except (AnalysisError, FoldRaise) as e:
                raise AnalysisError('signed conversion helper %s: sign test '
                                    'does not fold: %s' % (helper.name, e),
                                    st, rel(helper.path))
            if got != (signed and k >= 0x80):
                bad.append((signed, k, got))
    if bad:
        sg, k, got = bad[0]
        report.violation(R2, 'manual-sign-test', helper.path, st.test,
                         helper.qualname, 'a digest whose first byte is '
                         '0x%02X is treated as %s (signed=%s); %d first-byte '
                         'value(s) are mis-signed, so such digests print as '
                         'a 40-digit positive number instead of Java\'s '
                         'negative one' % (k, 'negative' if got
                                           else 'non-negative', sg,
                                           len(bad)))
    else:
        report.ok(R2, 'hand-written signed conversion: negative iff signed '
                  'and first byte >= 0x80 (256 x 2 cases folded)')

    signed = dict(term[3]).get(helper.all_params[1], term[2][1] if len(
        term[2]) > 1 else ('const', False))
    return ('call', ('attr', ('builtin', 'int'), 'from_bytes'),
            (term[2][0], ('const', 'big')), (('signed', signed),), 0)



def sent_unchanged(report, db, cg):
    """The hash reaches the session service as computed: join() puts its
    argument into the request unchanged (no padding, case change, prefix)."""
    R = report.rule('R17.4', 'the hash is sent as computed: join() posts its '
                    'argument as serverId, unchanged')
    AUTH = 'minecraft.authentication'
    tok = db.get_class(AUTH, 'AuthenticationToken')
    jn = db.own_method(tok, 'join')
    mk = db.get_func(AUTH, '_make_request')
    if jn is None or mk is None or len(jn.params) < 2:
        raise AnalysisError('AuthenticationToken.join / _make_request '
                            'vanished')
    S = shared.summariser(db, cg, opaque=[mk], implicit_raises=False)
    arg = ('sym', jn.all_params[1])
    n = 0
    for p in S.run(jn):
        for e in p.flat(('call',)):
            if not e.calls(mk):
                continue
            n += 1
            payload = e.args[-1] if e.args else dict(e.kwargs).get('data')
            sid = None
            if payload is not None and payload[0] == 'dict':
                for k, v in payload[1]:
                    if k == ('const', 'serverId'):
                        sid = v
            if sid is None or struct(sid) != arg:
                report.violation(
                    R, 'join:server-id', jn.path, e.node, jn.qualname,
                    'join() sends serverId = %s, not the hash it was given: '
                    'the session service compares the string with the one '
                    'the server computed' % (show(sid) if sid else None))
            else:
                report.ok(R, 'join(): serverId is the argument itself')
    if not n:
        raise AnalysisError('join(): no request found', jn.node,
                            rel(jn.path))
