"""C17 -- the session-server hash equals Java's signed-hex SHA-1.

The value graph of generate_verification_hash is extracted (locals
substituted, in-repo callees inlined, hash updates kept in order) and
compared with the reference term
  format(int.from_bytes(sha1(utf8(server_id) || secret || key).digest(),
                        'big', signed=True), 'x')."""
import ast

from ..common import AnalysisError, rel
from ..callgraph import CallGraph
from ..connmodel import ConnModel, CONN
from .. import terms
from ..terms import (SymEval, Sym, Const, CallT, MethT, ObjT, OpT, TupleT,
                     AttrT)

ENC = 'minecraft.networking.encryption'


def flatten_concat(t):
    if isinstance(t, OpT) and t.op == 'Add':
        out = []
        for a in t.args:
            out += flatten_concat(a)
        return out
    return [t]


def run(report, db, tier):
    report.explanation = (
        'Value-graph extraction (def-use substitution and inlining, no '
        'execution) of generate_verification_hash and comparison with the '
        'reference term; Python\'s format(n, "x") of a negative int is "-" + '
        'magnitude, which is Java\'s BigInteger.toString(16).')
    report.trusted_base = ['hashlib.sha1, int.from_bytes, format semantics']
    R1 = report.rule('R17.1', 'digest input: utf8(server_id), then the '
                     'shared secret, then the public key')
    R2 = report.rule('R17.2', 'digest interpreted big-endian, signed, and '
                     'printed in lower-case hex without padding')
    R3 = report.rule('R17.3', 'use site: (server_id, secret, public_key) in '
                     'parameter order; the result goes to join()')
    fi = db.get_func(ENC, 'generate_verification_hash')
    S = SymEval(db)
    try:
        term = S.run(fi)
    except AnalysisError:
        # not one straight-line term: look for a hand-written signed
        # conversion helper and treat it as a unit of its own
        helper = find_conversion_helper(db, fi)
        if helper is None:
            raise
        S.opaque = {helper}
        term = S.run(fi)
        term = manual_signed(report, R2, db, helper, term)
    report.note('extracted term', repr(term))
    params = fi.params
    if len(params) != 3:
        raise AnalysisError('generate_verification_hash: expected 3 '
                            'parameters', fi.node, rel(fi.path))
    # ---- outermost: hex formatting
    num = None
    if isinstance(term, CallT) and term.func == 'builtins.format' and \
            len(term.args) == 2 and isinstance(term.args[1], Const):
        spec = term.args[1].v
        num = term.args[0]
        if spec == 'x':
            report.ok(R2, "format(n, 'x')")
        else:
            report.violation(R2, 'format-spec', fi.path, fi.node,
                             fi.qualname, 'the number is formatted with %r; '
                             'Java prints lower-case hex without padding '
                             "('x')" % (spec,))
    elif isinstance(term, OpT) and term.op == 'Mod' and \
            isinstance(term.args[0], Const) and term.args[0].v == '%x':
        num = term.args[1]
        report.ok(R2, "'%x' % n")
    elif isinstance(term, CallT) and term.func == 'builtins.hex':
        num = term.args[0] if term.args else None
        report.violation(R2, 'format-hex', fi.path, fi.node, fi.qualname,
                         "hex() prefixes '0x' (and '-0x'): not Java's "
                         'BigInteger.toString(16)')
    else:
        raise AnalysisError('generate_verification_hash: result is not a '
                            'recognised hex formatting of a number: %r'
                            % (term,), fi.node, rel(fi.path))
    # ---- int.from_bytes(..., 'big', signed=True)
    dig = None
    if isinstance(num, CallT) and num.func == 'int.from_bytes' and num.args:
        dig = num.args[0]
        bo = num.args[1] if len(num.args) > 1 else num.kw('byteorder')
        sg = num.kw('signed', num.args[2] if len(num.args) > 2 else None)
        if isinstance(bo, Const) and bo.v == 'big':
            report.ok(R2, "byteorder 'big'")
        else:
            report.violation(R2, 'byteorder', fi.path, fi.node, fi.qualname,
                             'digest is interpreted with byteorder %r, not '
                             "'big'" % (bo,))
        if isinstance(sg, Const) and sg.v is True:
            report.ok(R2, 'signed=True')
        else:
            report.violation(R2, 'signed', fi.path, fi.node, fi.qualname,
                             'digest is interpreted as signed=%r: digests '
                             'with the top bit set must print as negative '
                             'numbers' % (sg,))
    else:
        raise AnalysisError('generate_verification_hash: the number is not '
                            'int.from_bytes(...) of the digest: %r' % (num,),
                            fi.node, rel(fi.path))
    # ---- sha1 object and its input
    if not (isinstance(dig, MethT) and dig.name in ('digest', 'hexdigest')
            and isinstance(dig.recv, ObjT)):
        raise AnalysisError('generate_verification_hash: digest source not '
                            'recognised: %r' % (dig,), fi.node, rel(fi.path))
    if dig.name != 'digest':
        report.violation(R2, 'digest-kind', fi.path, fi.node, fi.qualname,
                         'uses %s() where the raw digest() is needed'
                         % dig.name)
    obj = dig.recv
    if obj.ctor.func not in ('hashlib.sha1',):
        report.violation(R1, 'hash-function', fi.path, fi.node, fi.qualname,
                         'the digest is %s, the protocol prescribes SHA-1'
                         % obj.ctor.func)
    else:
        report.ok(R1, 'hashlib.sha1')
    pieces = []
    for a in obj.ctor.args:
        pieces += flatten_concat(a)
    for m, args in obj.effects:
        if m != 'update' or len(args) != 1:
            raise AnalysisError('unexpected effect on the hash object: %s'
                                % m, fi.node, rel(fi.path))
        pieces += flatten_concat(args[0])
    want = ['utf8(%s)' % params[0], params[1], params[2]]
    got = []
    for p in pieces:
        if isinstance(p, MethT) and p.name == 'encode' and \
                isinstance(p.recv, Sym):
            enc = 'utf-8'
            if p.args and isinstance(p.args[0], Const):
                enc = p.args[0].v
            elif p.kw('encoding') is not None:
                enc = p.kw('encoding').v
            if str(enc).lower().replace('-', '') == 'utf8':
                got.append('utf8(%s)' % p.recv.name)
            else:
                got.append('%s(%s)' % (enc, p.recv.name))
        elif isinstance(p, Sym):
            got.append(p.name)
        else:
            got.append(repr(p))
    if got == want:
        report.ok(R1, 'sha1 input = %s' % ' || '.join(got))
    else:
        report.violation(R1, 'digest-input', fi.path, fi.node, fi.qualname,
                         'the digest input is %s; the session protocol '
                         'prescribes %s' % (' || '.join(got) or '(nothing)',
                                            ' || '.join(want)))
    # ---- use site
    cg = CallGraph(db)
    M = ConnModel(db, cg)
    sites = cg.callers_of(fi)
    report.floor('call sites of generate_verification_hash', len(sites), 1)
    for cs in sites:
        caller = cs.caller
        args = [ast.unparse(a) for a in cs.node.args]
        pk = caller.params[1] if len(caller.params) > 1 else 'packet'
        # the secret argument: a local assigned from generate_shared_secret
        sec = None
        for n in ast.walk(caller.node):
            if isinstance(n, ast.Assign) and isinstance(n.value, ast.Call) \
                    and ast.unparse(n.value.func).endswith(
                        'generate_shared_secret') and \
                    isinstance(n.targets[0], ast.Name):
                sec = n.targets[0].id
        want_args = ['%s.server_id' % pk, sec, '%s.public_key' % pk]
        if args == want_args and not cs.node.keywords:
            report.ok(R3, '%s: %s(%s)' % (caller.qualname, fi.name,
                                          ', '.join(args)))
        else:
            report.violation(R3, 'use-site:args', caller.path, cs.node,
                             caller.qualname, 'called with (%s); expected '
                             '(%s)' % (', '.join(args),
                                       ', '.join(map(str, want_args))))
        # result flows to auth_token.join
        par = M.parents(caller)
        p = par.get(id(cs.node))
        var = p.targets[0].id if isinstance(p, ast.Assign) and isinstance(
            p.targets[0], ast.Name) else None
        joins = [n for n in ast.walk(caller.node) if isinstance(n, ast.Call)
                 and isinstance(n.func, ast.Attribute)
                 and n.func.attr == 'join' and 'auth_token' in
                 ast.unparse(n.func.value)]
        if var and joins and all(
                [ast.unparse(a) for a in j.args] == [var] for j in joins):
            report.ok(R3, 'auth_token.join(%s)' % var)
        else:
            report.violation(R3, 'use-site:join', caller.path, cs.node,
                             caller.qualname, 'the hash is not what is '
                             'passed to auth_token.join()')


def find_conversion_helper(db, fi):
    """An in-repo function reachable from the hash function that turns the
    digest bytes into a number without being a straight-line term."""
    mod = fi.module
    for name, f in mod.funcs.items():
        if f is fi:
            continue
        src = ast.unparse(f.node)
        if 'signed' in f.params and ('16)' in src or 'from_bytes' in src):
            try:
                terms.straight_line_value(f)
            except AnalysisError:
                return f
    return None


def manual_signed(report, R2, db, helper, term):
    """helper(b, signed): unsigned big-endian value of b, minus 2**(8*len(b))
    under a test that must be `signed and first byte >= 0x80`.  The test is
    folded over all 256 first-byte values.  Returns the term with the helper
    call replaced by the equivalent int.from_bytes term."""
    from ..fold import Folder, Env, FoldRaise
    b = helper.params[0]
    body = [st for st in helper.body if not (isinstance(st, ast.Expr)
                                            and isinstance(st.value,
                                                           ast.Constant))]
    init = [st for st in body if isinstance(st, ast.Assign)]
    ifs = [st for st in body if isinstance(st, ast.If)]
    rets = [st for st in body if isinstance(st, ast.Return)]
    if len(init) != 1 or len(ifs) != 1 or len(rets) != 1 or \
            not isinstance(init[0].targets[0], ast.Name):
        raise AnalysisError('signed conversion helper %s: shape not '
                            'recognised' % helper.name, helper.node,
                            rel(helper.path))
    num = init[0].targets[0].id
    iv = ast.unparse(init[0].value).replace(' ', '')
    unsigned_forms = ('int(hexlify(%s)orb\'0\',16)' % b,
                      'int(hexlify(%s),16)' % b, 'int(%s.hex(),16)' % b,
                      'int(binascii.hexlify(%s),16)' % b,
                      "int.from_bytes(%s,'big')" % b,
                      "int.from_bytes(%s,byteorder='big')" % b)
    if iv not in unsigned_forms:
        raise AnalysisError('signed conversion helper %s: unsigned value is '
                            '%s' % (helper.name, iv), init[0],
                            rel(helper.path))
    st = ifs[0]
    sub = [x for x in st.body if isinstance(x, ast.AugAssign)
           and isinstance(x.op, ast.Sub) and ast.unparse(x.target) == num]
    amount = ast.unparse(sub[0].value).replace(' ', '') if len(sub) == 1 \
        else None
    good_amounts = ('1<<len(%s)*8' % b, '1<<8*len(%s)' % b,
                    '2**(len(%s)*8)' % b, '2**(8*len(%s))' % b,
                    '1<<(len(%s)*8)' % b, '1<<(8*len(%s))' % b)
    if len(st.body) != 1 or st.orelse or amount not in good_amounts or \
            ast.unparse(rets[0].value) != num:
        raise AnalysisError('signed conversion helper %s: the correction is '
                            'not `num -= 2**(8*len(b))`' % helper.name, st,
                            rel(helper.path))
    # fold the test over signed in {True, False} x first byte 0..255
    import copy
    F = Folder(db)

    class Sub(ast.NodeTransformer):
        def visit_Call(self, n):
            if isinstance(n.func, ast.Name) and n.func.id == 'ord':
                return ast.Name(id='__first__', ctx=ast.Load())
            return self.generic_visit(n)
    test = Sub().visit(copy.deepcopy(st.test))
    ast.fix_missing_locations(test)
    bad = []
    for signed in (True, False):
        for k in range(256):
            env = Env(helper.module)
            env.vars['signed'] = signed
            env.vars[helper.params[1]] = signed
            env.vars['__first__'] = k
            env.vars[b] = bytes([k]) + b'\x00' * 19
            try:
                got = bool(F.truth(F.eval(test, env), test, env))
            except (AnalysisError, FoldRaise) as e:
                raise AnalysisError('signed conversion helper %s: sign test '
                                    'does not fold: %s' % (helper.name, e),
                                    st, rel(helper.path))
            if got != (signed and k >= 0x80):
                bad.append((signed, k, got))
    if bad:
        sg, k, got = bad[0]
        report.violation(R2, 'manual-sign-test', helper.path, st.test,
                         helper.qualname, 'a digest whose first byte is '
                         '0x%02X is treated as %s (signed=%s); %d first-byte '
                         'value(s) are mis-signed, so such digests print as '
                         'a 40-digit positive number instead of Java\'s '
                         'negative one' % (k, 'negative' if got
                                           else 'non-negative', sg,
                                           len(bad)))
    else:
        report.ok(R2, 'hand-written signed conversion: negative iff signed '
                  'and first byte >= 0x80 (256 x 2 cases folded)')

    def rewrite(t):
        if isinstance(t, CallT) and t.func == helper.qualname:
            return CallT('int.from_bytes', list(t.args[:1]) + [Const('big')],
                         {'signed': t.kw(helper.params[1],
                                         t.args[1] if len(t.args) > 1
                                         else Const(False))})
        if isinstance(t, CallT):
            return CallT(t.func, [rewrite(a) for a in t.args],
                         {k: rewrite(v) for k, v in t.kwargs})
        return t
    return rewrite(term)
