"""C18 -- the encrypted channel is AES-128-CFB8 keyed by the secret; the
secrets reach the server.  Value-graph terms of the cipher helpers,
installation-site dataflow, pass-through wrappers, recv census."""
import ast

from ..common import AnalysisError, rel
from ..callgraph import CallGraph
from ..connmodel import ConnModel, CONN
from .. import shared, pathsum
from ..pathsum import struct, show
from . import c10

ENC = 'minecraft.networking.encryption'
CRY = 'cryptography.hazmat.primitives.'


def run(report, db, tier):
    report.explanation = (
        'The cipher helpers are reduced to terms over the cryptography '
        'library\'s constructors and compared with the reference terms '
        '(AES keyed by s, CFB8 with IV s, PKCS1v15, 16 random bytes); the '
        'installation site is checked by dataflow; the wrappers must be '
        'single pass-through updates.  Interoperation with an independent '
        'CFB8 and RSA recovery are library numerics: not decided.')
    report.trusted_base = ['cryptography: Cipher/AES/CFB8/PKCS1v15/'
                           'load_der_public_key', 'os.urandom']
    cg = CallGraph(db)
    M = ConnModel(db, cg)
    PS = shared.summariser(db, cg, implicit_raises=False)

    def value_of(fi):
        """the single term a helper returns on all of its paths"""
        vals = []
        for p in PS.run(fi):
            if p.returns:
                vals.append(p.value)
        uniq = []
        for v in vals:
            if struct(v) not in [struct(u) for u in uniq]:
                uniq.append(v)
        if len(uniq) != 1:
            raise AnalysisError('%s: %d different results on its paths'
                                % (fi.qualname, len(uniq)), fi.node,
                                rel(fi.path))
        return uniq[0]

    def ext_call(t, dotted):
        return t[0] == 'call' and t[1] == ('ext', dotted)

    def arg(t, pos, name):
        kw = dict(t[3])
        if name in kw:
            return kw[name]
        return t[2][pos] if len(t[2]) > pos else None
    R1 = report.rule('R18.1', 'cipher = Cipher(AES(s), CFB8(s)) with the '
                     'same parameter as key and IV')
    fi = db.get_func(ENC, 'create_AES_cipher')
    t = value_of(fi)
    report.note('terms', '%s = %s' % (fi.name, show(t)))
    p = ('sym', fi.all_params[0])
    if not ext_call(t, CRY + 'ciphers.Cipher'):
        raise AnalysisError('create_AES_cipher: not a Cipher(...) term: %s'
                            % show(t), fi.node, rel(fi.path))
    alg = arg(t, 0, 'algorithm')
    mode = arg(t, 1, 'mode')
    if alg is not None and ext_call(alg, CRY + 'ciphers.algorithms.AES') \
            and [struct(x) for x in alg[2]] == [p] and not alg[3]:
        report.ok(R1, 'algorithm AES(%s)' % p[1])
    else:
        report.violation(R1, 'cipher:algorithm', fi.path, fi.node,
                         fi.qualname, 'algorithm term is %s; the protocol '
                         'prescribes AES keyed by the shared secret'
                         % (show(alg) if alg else None))
    if mode is not None and ext_call(mode, CRY + 'ciphers.modes.CFB8') \
            and [struct(x) for x in mode[2]] == [p] and not mode[3]:
        report.ok(R1, 'mode CFB8(%s): IV = key = shared secret' % p[1])
    else:
        report.violation(R1, 'cipher:mode', fi.path, fi.node, fi.qualname,
                         'mode term is %s; the protocol prescribes CFB8 '
                         'with the shared secret as IV'
                         % (show(mode) if mode else None))

    R2 = report.rule('R18.2', 'shared secret = 16 fresh random bytes per '
                     'login')
    gi = db.get_func(ENC, 'generate_shared_secret')
    t = value_of(gi)
    report.note('terms', '%s = %s' % (gi.name, show(t)))
    if t[0] == 'call' and t[1] in (('ext', 'os.urandom'),
                                   ('ext', 'secrets.token_bytes')) and \
            t[2] == (('const', 16),) and not t[3]:
        report.ok(R2, show(t))
    else:
        report.violation(R2, 'secret:source', gi.path, gi.node, gi.qualname,
                         'the shared secret is %s; AES-128 needs 16 bytes '
                         'from the OS random source' % show(t))
    # called per encryption request, inside the arm; never at import time,
    # never stored
    inlined = set((db.norm_stats or {}).get('helpers', ()))
    sites = [cs for cs in cg.callers_of(gi)
             if '%s:%s' % (cs.caller.module.name, cs.caller.qualname)
             not in inlined]
    lr = db.get_class(CONN, 'LoginReactor')
    react = db.own_method(lr, 'react')
    known = pathsum.known_unit_pred()
    for cs in sites:
        helper_of_react = known(cs.caller) and cs.caller.cls is lr and all(
            c.caller is react or (known(c.caller) and c.caller.cls is lr)
            for c in cg.callers_of(cs.caller))
        if cs.caller is react or helper_of_react:
            report.ok(R2, 'generated inside LoginReactor.react')
        else:
            report.violation(R2, 'secret:site:%s' % cs.caller.qualname,
                             cs.caller.path, cs.node, cs.caller.qualname,
                             'a shared secret is generated outside the '
                             'encryption-request arm (reused across logins)')
    for m in db.modules.values():
        for st in m.tree.body:
            for x in ast.walk(st) if not isinstance(
                    st, (ast.FunctionDef, ast.ClassDef)) else []:
                if isinstance(x, ast.Call) and ast.unparse(x.func).endswith(
                        'generate_shared_secret'):
                    report.violation(R2, 'secret:import-time', m.path, x,
                                     None, 'a shared secret is generated at '
                                     'import time')
    if not sites:
        report.violation(R2, 'secret:unused', gi.path, gi.node, gi.qualname,
                         'generate_shared_secret is never called')

    R3 = report.rule('R18.3', 'token and secret are RSA-encrypted with '
                     'PKCS#1 v1.5 under the server\'s DER key')
    ei = db.get_func(ENC, 'encrypt_token_and_secret')
    t = value_of(ei)
    report.note('terms', '%s = %s' % (ei.name, show(t)))
    if not (t[0] in ('tuple', 'list') and len(t[1]) == 2):
        raise AnalysisError('encrypt_token_and_secret: result is not a '
                            'pair: %s' % show(t), ei.node, rel(ei.path))
    for it, pname in zip(t[1], (ei.all_params[1], ei.all_params[2])):
        okk = it[0] == 'call' and it[1][0] == 'attr' and \
            it[1][2] == 'encrypt' and len(it[2]) == 2 and \
            struct(it[2][0]) == ('sym', pname)
        if not okk:
            report.violation(R3, 'rsa:item:%s' % pname, ei.path, ei.node,
                             ei.qualname, 'returned item %s is not the RSA '
                             'encryption of %s' % (show(it), pname))
            continue
        pad = it[2][1]
        key = it[1][1]
        if ext_call(pad, CRY + 'asymmetric.padding.PKCS1v15') and \
                not pad[2] and not pad[3]:
            report.ok(R3, '%s: PKCS1v15()' % pname)
        else:
            report.violation(R3, 'rsa:padding:%s' % pname, ei.path, ei.node,
                             ei.qualname, '%s is padded with %s; the '
                             'protocol prescribes PKCS#1 v1.5' % (
                                 pname, show(pad)))
        if ext_call(key, CRY + 'serialization.load_der_public_key') and \
                key[2] and struct(key[2][0]) == ('sym', ei.all_params[0]):
            report.ok(R3, '%s: key = load_der_public_key(%s)' % (
                pname, ei.all_params[0]))
        else:
            report.violation(R3, 'rsa:key:%s' % pname, ei.path, ei.node,
                             ei.qualname, '%s is encrypted under %s, not '
                             'the server\'s DER-encoded public key'
                             % (pname, show(key)))

    R4 = report.rule('R18.4', 'installation: one encryptor/decryptor pair '
                     'per login lives in the wrappers; cipher keyed by the '
                     'secret that was sent')
    from ..protocol import Proto
    P = Proto(db)
    S = shared.summariser(db, cg)
    pk = ('sym', react.all_params[1])
    arms = {}
    for p in S.run(react):
        arms.setdefault(shared.arm_of(p, pk), []).append(p)
    sub = _Sub(report, R4)
    c10.encryption_arm(sub, db, M, P, react, arms)
    R4f = report.rule('R18.4f', 'secrets reach the server in the clear '
                      'frame: the forced write that precedes the '
                      'installation is synchronous')
    shared.forced_write_is_synchronous(
        report, R4f, db, shared.summariser(db, cg), M)
    # installed "for both directions": the reading loop must pick the wrapped
    # stream up for the very next frame
    from .c10 import transport_lookup
    transport_lookup(report, db, cg, M, rule_id='R18.9')
    # "one continuous stream": the one encryptor sees the plaintext in the
    # order of the frames only if frames are written one at a time
    from ..common import borrow
    from . import c12
    borrow(report, 'R18.8', "what the encryptor sees is the packet stream: "
           "every path to the frame writer and to the queue pop holds the "
           "write lock, also the flush of disconnect() (C12's lock rules)",
           lambda rid, c: c.startswith(('lockset:', 'disconnect:flush-')),
           lambda sub: (c12.r2(sub, db, cg, M), c12.r4(sub, db, cg, M)))
    R5 = report.rule('R18.5', 'wrappers are single pass-through updates '
                     '(continuous stream, any segmentation)')
    shared.wrapper_passthrough_ps(report, R5, db)
    # everything sent goes through the cipher: the wrapper encrypts in
    # send() only, so (a) the frame writer and the wire types call nothing
    # but send() on their socket, and (b) the wrappers do not hand out the
    # raw socket's other methods (a catch-all attribute forwarder would make
    # sendall / sendmsg / write reach the socket unencrypted)
    R7 = report.rule('R18.7', 'all bytes go through the cipher: writers call '
                     'only send() on their socket, and the cipher wrappers '
                     'forward no attribute they do not define')
    nsend = 0
    for fi2 in db.funcs:
        if isinstance(fi2.node, ast.Lambda) or not (
                fi2.module.name.startswith('minecraft.networking.packets')
                or fi2.module.name.startswith('minecraft.networking.types')):
            continue
        names = list(fi2.params)
        if fi2.kind in ('instance', 'class') and names:
            names = names[1:]
        pos = {'send': 1, 'send_with_context': 1, '_write_buffer': 0,
               'write': 0}.get(fi2.name)
        if pos is None or len(names) <= pos or fi2.cls is None:
            continue
        sk = names[pos]
        for x in ast.walk(fi2.node):
            if isinstance(x, ast.Attribute) and isinstance(
                    x.value, ast.Name) and x.value.id == sk and \
                    isinstance(x.ctx, ast.Load):
                nsend += 1
                if x.attr != 'send':
                    report.violation(
                        R7, 'sink:method:%s' % fi2.qualname, fi2.path, x,
                        fi2.qualname, 'socket.%s is used on the socket a '
                        'packet is written to: once encryption is on, that '
                        'socket is the cipher wrapper, which encrypts in '
                        'send() only' % x.attr)
            if isinstance(x, ast.Call) and isinstance(x.func, ast.Name) and \
                    x.func.id in ('hasattr', 'getattr') and x.args and \
                    isinstance(x.args[0], ast.Name) and \
                    x.args[0].id == sk:
                report.violation(
                    R7, 'sink:probe:%s' % fi2.qualname, fi2.path, x,
                    fi2.qualname, 'the writer probes its socket for other '
                    'methods (%s): what it finds on the cipher wrapper is '
                    'not encrypted' % ast.unparse(x)[:50])
    report.floor('uses of a writer\'s socket', nsend, 12)
    for wn in ('EncryptedSocketWrapper', 'EncryptedFileObjectWrapper'):
        wci = db.get_class(ENC, wn)
        for hook in ('__getattr__', '__getattribute__'):
            hf = db.find_method(wci, hook)
            if hf is not None:
                report.violation(
                    R7, 'wrapper:forwarder:%s' % wn, hf.path, hf.node,
                    hf.qualname, '%s.%s hands out attributes of the raw '
                    'socket / file: sendall, sendmsg, write, readinto ... '
                    'reached through it bypass the cipher and leave its '
                    'stream position behind' % (wn, hook))
    if not any(f.rule == R7 for f in report.violations):
        report.ok(R7, '%d uses of a writer\'s socket are send(); the '
                  'wrappers forward nothing they do not define' % nsend)
    R6 = report.rule('R18.6', 'nothing reads the connection socket through '
                     'recv(): the decryptor shared by both wrappers cannot '
                     'be desynchronised')
    n = 0
    for fi2 in db.funcs:
        for cs in cg.sites.get(fi2, []):
            f = cs.node.func
            if isinstance(f, ast.Attribute) and f.attr == 'recv':
                n += 1
                recv = f.value
                onconn = isinstance(recv, ast.Attribute) and \
                    recv.attr == 'socket' and M.is_conn_expr(fi2,
                                                             recv.value)
                typed = any(t[0] == 'inst' and t[1].name ==
                            'EncryptedSocketWrapper'
                            for t in cs.recv_types)
                inside_wrapper = fi2.cls is not None and \
                    fi2.cls.module.name == ENC
                if (onconn or typed) and not inside_wrapper:
                    report.violation(R6, 'recv:%s' % fi2.qualname, fi2.path,
                                     cs.node, fi2.qualname, 'recv() on the '
                                     'connection socket advances the '
                                     'decryptor the file object also uses')
    report.ok(R6, '%d recv() call(s) in the package, none on the connection '
              'socket' % n)


class _Sub(object):
    """Adapter: re-labels the findings of C10's arm analysis that concern
    the cipher under C18's rule id and drops the rest."""
    KEEP = ('enc:secret-count', 'enc:secret-not-fresh', 'enc:cipher-secret', 'enc:cipher-contexts',
            'enc:wrapper-args', 'enc:wrapper-class', 'enc:not-wrapped',
            'enc:rsa-args', 'enc:response-slots', 'enc:secret-binding')

    def __init__(self, report, rid):
        self.r = report
        self.rid = rid

    def rule(self, rid, desc):
        return rid

    def ok(self, rid, what=None, n=1):
        if what and any(k in what for k in ('cipher', 'encryptor',
                                            'Encrypted', 'secret')):
            self.r.ok(self.rid, what)

    def violation(self, rid, construct, file, node, func, msg, extra=None):
        if construct.startswith(self.KEEP):
            self.r.violation(self.rid, construct, file, node, func, msg)

    def note(self, *a):
        pass

    def floor(self, *a):
        pass

    def info(self, *a):
        pass
