"""C11 -- in play, keep-alives and teleports are always answered; unknown
packets pass.  Per-arm obligations on the path summaries of
PlayingReactor.react plus a three-way agreement of version predicates
decided by folding over all versions."""
import ast

from ..common import AnalysisError, rel
from ..callgraph import CallGraph
from ..connmodel import ConnModel, CONN
from ..protocol import Proto, Raises, type_name
from ..fold import ClassVal, Env
from .. import shared, boolfn, pathsum
from ..pathsum import struct, show, is_const, subterms, path_terms
from .c10 import compression_arm

SB_PLAY = 'minecraft.networking.packets.serverbound.play'
CB_PLAY = 'minecraft.networking.packets.clientbound.play'


def sy(n):
    return ('sym', n)


def at(base, *names):
    for n in names:
        base = ('attr', base, n)
    return base


def run(report, db, tier):
    report.explanation = (
        'Every path of PlayingReactor.react is summarised (vp.pathsum) and '
        'grouped by the packet name it handles; each arm is checked for '
        '"exactly one reply carrying the incoming id" / "spawned on every '
        'path"; the version decisions on the paths of the teleport arm are '
        'compared, by folding over every supported version, with the '
        'presence of teleport_id in the clientbound layout and the '
        'registration of TeleportConfirmPacket.  The frame reader\'s paths '
        'decide what happens to unknown ids, the thread loop\'s body paths '
        'that no packet read is dropped.')
    cg = CallGraph(db)
    M = ConnModel(db, cg)
    P = Proto(db)
    S = shared.summariser(db, cg)
    pr = db.get_class(CONN, 'PlayingReactor')
    fi = db.own_method(pr, 'react')
    if fi is None:
        raise AnalysisError('PlayingReactor.react vanished')
    R7 = report.rule('R11.7', 'every compared packet_name exists in the '
                     'play table and the arm reads only fields of that '
                     'class, in every version')
    paths = shared.name_agreement_ps(report, R7, db, P, S, pr, 'play')
    pk = sy(fi.all_params[1])
    arms = {}
    for p in paths:
        arms.setdefault(shared.arm_of(p, pk), []).append(p)
    if not report.violations:
        report.floor('play arms', len([a for a in arms if a is not None]), 4)
    R8 = report.rule('R11.8', 'every packet the play reactor writes has all '
                     'its fields set in every version where the write is '
                     'reachable')
    n = shared.field_completeness_ps(report, R8, db, P, S, fi, paths)
    keep_alive(report, db, M, P, fi, arms)
    position(report, db, M, P, fi, arms)
    unknown_ids(report, db, S, M, P, fi, arms)
    disconnect(report, db, cg, S, M, P, fi, arms)
    if not report.violations:
        report.floor('play write sites checked', n, 3)
    no_drop(report, db, S, M)
    from ..common import borrow
    from . import c03
    borrow(report, 'R11.1v', "the id echoed by the keep-alive / teleport arms survives the VarInt codec: what read returns, send accepts (C03's rules)",
           lambda rid, c: c.startswith(('read:', 'send:negative')),
           lambda sub: c03.run(sub, db, tier))
    # the arms are chosen by packet *name*: a keep-alive, a position packet
    # or a disconnect of the server reaches its arm only if the class is
    # registered under the id the protocol gives it
    from . import c07
    PLAY = ('keep alive (clientbound)', 'keep alive (serverbound)',
            'player position and look (clientbound)', 'teleport confirm',
            'disconnect (play)', 'player position and look (serverbound)')
    borrow(report, 'R11.2i', "the play-state packets this property is about "
           "(keep-alive both ways, position and look, teleport confirm, "
           "disconnect) carry the published ids in every README release "
           "(C07's reference table)",
           lambda rid, c: rid == 'R07.2' and c.startswith('id:') and
           c.split(':')[1] in PLAY,
           lambda sub: c07.run(sub, db, tier))
    # "under every supported protocol version": the layouts and ids of the
    # packets handled here are chosen by version guards; those follow the
    # order of publication only if no protocol number is ordered numerically
    R9 = report.rule('R11.9', 'version guards follow the order of '
                     'publication: no protocol number is ordered '
                     'numerically (snapshot numbers are above every '
                     'release number)')
    # (version *guards* only: which of several allowed versions a connection
    # announces is C08's / C09's concern, not the play state's)
    nf = shared.numeric_version_order(report, R9, db, P, collections=False)
    report.floor('functions scanned for numeric version order', nf, 300)
    # "for every id value and protocol version": the id's wire type changes
    # at a development version the changelog dates (C07's reference)
    from .c07 import check_boundaries, load_ref
    nb = check_boundaries(report, db, P, load_ref(), rid='R11.1b',
                          only=lambda b: b['packet'].startswith('keep alive'))
    report.floor('keep-alive boundary cells', nb, 300)
    # "with compression on and off": under 1.8 the server switches
    # compression on in the play state; the arm that handles it only runs if
    # the packet is registered there with its published id
    from ..fold import ClassVal
    from ..protocol import Raises
    from .c07 import shape
    Rx = report.rule('R11.5r', 'the play-state set-compression packet is '
                     'registered where the documentation has it (1.8: id '
                     '0x46, one VarInt)')
    for key, spec in sorted(load_ref().get('extra_packets', {}).items()):
        mod, qn = spec['cls'].split(':')
        xci = db.get_class(mod, qn)
        xcv = ClassVal(xci)
        for row in spec['rows']:
            for pv in row['protocols']:
                t = P.table(spec['direction'], spec['state'], pv)
                tf = P.table_func(spec['direction'], spec['state'])
                if isinstance(t, Raises) or xcv not in t:
                    report.violation(
                        Rx, 'extra:%s:unregistered:%d' % (key, pv), tf.path,
                        tf.node, tf.qualname, '%s is not registered in the '
                        '%s/%s table of protocol %s: the frame is read as an '
                        'unknown packet, the arm of the reactor never runs '
                        'and every later frame is read in the wrong framing'
                        % (key, spec['direction'], spec['state'],
                           P.vname(pv)))
                    continue
                i = P.table_id(xcv, pv)
                d = P.definition(xcv, pv)
                lay = [shape(ty) for e in d for k, ty in e.items()] \
                    if isinstance(d, list) else None
                if i != row['id'] or lay != row['layout']:
                    report.violation(
                        Rx, 'extra:%s:shape:%d' % (key, pv), xci.path,
                        xci.node, xci.qualname, '%s in protocol %s has id '
                        '%r and layout %r; published: 0x%02X %r' % (
                            key, P.vname(pv), i, lay, row['id'],
                            row['layout']))
                else:
                    report.ok(Rx, '%s @ %s' % (key, P.vname(pv)))
    # "without disturbing later ones": a frame takes exactly its own bytes
    from .c01 import isolation
    isolation(report, db, cg, S, M, rule_id='R11.3i')
    Rc = report.rule('R11.5', 'set-compression in play (protocol 47) sets '
                     'threshold and flag')

    class _S(object):
        def rule(s, rid, d):
            return Rc

        def ok(s, rid, what=None, n=1):
            report.ok(Rc, what)

        def violation(s, rid, *a, **k):
            report.violation(Rc, *a, **k)
    compression_arm(_S(), db, M, fi, arms)


def writes_of(p):
    return [e for e in p.flat(('call',)) if e.method() == 'write_packet']


def keep_alive(report, db, M, P, fi, arms):
    R = report.rule('R11.1', 'keep-alive arm: exactly one reply, carrying '
                    'the incoming id, with the same id codec in both '
                    'directions in every version')
    ps = arms.get('keep alive')
    if not ps:
        report.violation(R, 'keepalive:missing', fi.path, fi.node,
                         fi.qualname, 'keep-alives are never answered: the '
                         'server times the client out')
        return
    pk = sy(fi.all_params[1])
    sbk = db.get_class(SB_PLAY, 'KeepAlivePacket')
    cbk = db.get_class(CB_PLAY, 'KeepAlivePacket')
    prob = {}
    for p in ps:
        if not p.returns:
            continue
        ws = writes_of(p)
        if len(ws) > 1 or any(e.loops for e in ws):
            prob['keepalive:count'] = (
                ws[0].node, 'a keep-alive is answered %s (must be exactly '
                'once)' % ('in a loop' if any(e.loops for e in ws)
                           else '%d times' % len(ws)))
            continue
        if not ws:
            prob['keepalive:skipped'] = (
                fi.node, 'a path through the keep-alive arm sends no reply '
                '[%s]' % p.cond_text())
            continue
        wp = shared.written_packets(p, P, db)
        ci = wp[0][1][3] if wp else None
        if ci is not sbk:
            prob['keepalive:class'] = (
                ws[0].node, 'the reply is a %s, not the serverbound '
                'keep-alive' % getattr(ci, 'qualname', ci))
            continue
        v = wp[0][2].get('keep_alive_id')
        if v is None or struct(v) != at(pk, 'keep_alive_id'):
            prob['keepalive:id'] = (
                ws[0].node, 'the reply carries %s instead of the incoming '
                'keep_alive_id' % (show(v) if v is not None else None))
    for key, (node, msg) in sorted(prob.items()):
        report.violation(R, key, fi.path, node, fi.qualname, msg)
    if not prob:
        report.ok(R, 'one write_packet on every path of the arm')
        report.ok(R, 'reply.keep_alive_id = packet.keep_alive_id')
    # same codec both ways, every version
    bad = []
    for v in P.supported:
        d1 = P.definition(ClassVal(cbk), v)
        d2 = P.definition(ClassVal(sbk), v)
        t1 = [type_name(t) for e in d1 for k, t in e.items()
              if k == 'keep_alive_id'] if isinstance(d1, list) else None
        t2 = [type_name(t) for e in d2 for k, t in e.items()
              if k == 'keep_alive_id'] if isinstance(d2, list) else None
        if not t1 or t1 != t2:
            bad.append((v, t1, t2))
    if bad:
        v, t1, t2 = bad[0]
        report.violation(R, 'keepalive:codec', sbk.path, sbk.node,
                         sbk.qualname, 'the id is received as %s but echoed '
                         'as %s in %d version(s), first %s: ids beyond the '
                         'narrower type cannot be echoed' % (
                             t1, t2, len(bad), P.vname(v)))
    else:
        report.ok(R, 'keep_alive_id has one codec in both directions in '
                  'all %d supported versions' % len(P.supported))


def position(report, db, M, P, fi, arms):
    R = report.rule('R11.2', 'position arm: spawned on every path; teleport '
                    'confirm with the same id from 107 on, position echo '
                    'before; the version test agrees with the layouts')
    ps = arms.get('player position and look')
    if not ps:
        report.violation(R, 'position:missing', fi.path, fi.node,
                         fi.qualname, 'position packets are never '
                         'acknowledged')
        return
    me, pk = sy(fi.all_params[0]), sy(fi.all_params[1])
    conn = at(me, 'connection')
    tc = db.get_class(SB_PLAY, 'TeleportConfirmPacket')
    pl = db.get_class(SB_PLAY, 'PositionAndLookPacket')
    cbp = db.get_class(CB_PLAY + '.player_position_and_look_packet',
                       'PlayerPositionAndLookPacket')
    prob = {}
    per_path = []
    for p in ps:
        if not p.returns:
            continue
        sp = [e for e in p.flat(('store',)) if struct(e.base) == conn
              and e.attr == 'spawned' and e.value == ('const', True)]
        if not sp:
            prob['position:spawned'] = (
                fi.node, 'a path through the position arm does not mark '
                'the client as spawned [%s]' % p.cond_text())
        ws = writes_of(p)
        if not ws:
            prob['position:no-ack'] = (
                fi.node, 'a path through the position arm sends no '
                'acknowledgement [%s]' % p.cond_text())
            continue
        if len(ws) > 1:
            prob['position:double-ack'] = (
                ws[1].node, 'two acknowledgements can be written for one '
                'position packet')
        wp = shared.written_packets(p, P, db)
        ci = wp[0][1][3] if wp else None
        per_path.append((p, ci, shared.path_versions(P, p)))
        if not wp:
            continue
        fields = {k: v for k, v in wp[0][2].items() if k != 'context'}
        if ci is tc:
            v = fields.get('teleport_id')
            if v is None or struct(v) != at(pk, 'teleport_id'):
                prob['position:teleport-id'] = (
                    ws[0].node, 'the confirmation carries %s, not the '
                    'server\'s teleport id' % (show(v) if v else None))
        elif ci is pl:
            want = {'x': at(pk, 'x'), 'feet_y': at(pk, 'y'),
                    'z': at(pk, 'z'), 'yaw': at(pk, 'yaw'),
                    'pitch': at(pk, 'pitch'), 'on_ground': ('const', True)}
            got = {k: struct(v) for k, v in fields.items()}
            if got != want:
                diff = {k: show(fields[k]) if k in fields else None
                        for k in want if got.get(k) != want[k]}
                prob['position:echo'] = (
                    ws[0].node, 'the position echo differs from the '
                    'server\'s values: %s' % diff)
    mism = []
    for v in P.supported:
        d = P.definition(ClassVal(cbp), v)
        has_tid = isinstance(d, list) and any('teleport_id' in e for e in d)
        t = P.table('serverbound', 'play', v)
        tc_reg = not isinstance(t, Raises) and ClassVal(tc) in t
        chosen = set(ci for p, ci, holds in per_path if holds(v))
        if len(chosen) != 1:
            mism.append((v, 'answers with %s' % sorted(
                getattr(c, 'name', str(c)) for c in chosen)))
            continue
        want = tc if has_tid else pl
        got = list(chosen)[0]
        if has_tid != tc_reg:
            mism.append((v, 'teleport_id in the clientbound layout: %s, but '
                         'TeleportConfirmPacket registered: %s'
                         % (has_tid, tc_reg)))
        elif got is not want:
            mism.append((v, 'answers with %s although the server %s a '
                         'teleport id' % (getattr(got, 'name', None),
                                          'sends' if has_tid
                                          else 'does not send')))
    if mism:
        v, why = mism[0]
        prob['position:version-test'] = (
            fi.node, 'in %d supported version(s), first %s, the arm %s'
            % (len(mism), P.vname(v), why))
    for key, (node, msg) in sorted(prob.items()):
        report.violation(R, key, fi.path, node, fi.qualname, msg)
    if not prob:
        report.ok(R, 'connection.spawned = True and one acknowledgement on '
                  'every path of the arm')
        report.ok(R, 'arm decision == teleport_id in layout == '
                  'TeleportConfirmPacket registered, for all %d supported '
                  'versions' % len(P.supported))
        report.ok(R, 'teleport_confirm.teleport_id = packet.teleport_id; '
                  'position echo copies x, y, z, yaw, pitch')


def unknown_ids(report, db, S, M, P, fi, arms):
    R = report.rule('R11.3', 'unknown ids become generic packets built from '
                    'the per-frame buffer; the reactor has no arm for them')
    rp = M.method(M.reactor, 'read_packet')
    me, stream = sy(rp.all_params[0]), sy(rp.all_params[1])
    table = at(me, 'clientbound_packets')
    n_unknown = n_known = 0
    prob = {}
    for p in S.run(rp):
        if not p.returns:
            continue
        known = None
        ident = None
        k_at = None
        for i, (a, pol, _) in enumerate(p.conds):
            if a[1] == 'in' and struct(a[2][1]) == table:
                known, ident, k_at = pol, a[2][0], i
            elif a[1] == 'is' and a[2][1] == ('const', None) and \
                    a[2][0][0] == 'call' and a[2][0][1][0] == 'attr' and \
                    a[2][0][1][2] == 'get' and \
                    struct(a[2][0][1][1]) == table and a[2][0][2]:
                known, ident, k_at = not pol, a[2][0][2][0], i
            elif a[1] == 'truth' and a[2][0][0] == 'call' and \
                    a[2][0][1][0] == 'attr' and a[2][0][1][2] == 'get' and \
                    struct(a[2][0][1][1]) == table and a[2][0][2]:
                known, ident, k_at = pol, a[2][0][2][0], i
        miss = None
        if known is None:
            # EAFP: the table is indexed inside a try; the unknown id is the
            # KeyError that lookup raises
            for nt in p.notes:
                if nt[0] == 'caught' and isinstance(
                        nt[1], ast.ExceptHandler) and nt[1].type is not None \
                        and ast.unparse(nt[1].type) in (
                            'KeyError', 'LookupError') and isinstance(
                                nt[3], ast.AST):
                    subs = [x for x in ast.walk(nt[3]) if isinstance(
                        x, ast.Subscript) and ast.unparse(x.value).endswith(
                            '.clientbound_packets')]
                    if subs:
                        miss = nt
            if miss is not None:
                known = False
                for t in path_terms(p):
                    pass
                ident = None
                for e in p.flat(('call',)):
                    if e.node is miss[3]:
                        for t in subterms(e.fn):
                            if t[0] == 'op' and t[1] == 'index' and \
                                    struct(t[2][0]) == table:
                                ident = t[2][1]
            elif any(t[0] == 'op' and t[1] == 'index' and
                     struct(t[2][0]) == table for t in path_terms(p)):
                known = True
        if known is None:
            continue
        if known:
            n_known += 1
            continue
        n_unknown += 1
        v = p.value
        later = []
        if miss is not None:
            evs_ = p.flat(('call',))
            at_ = [i for i, e in enumerate(evs_) if e.node is miss[3]]
            later = evs_[at_[-1] + 1:] if at_ else []
        for e in ([] if miss is not None else p.events):
            if e.nconds > k_at:
                later.append(e)
                if e.kind == 'loop':
                    for q in e.paths:
                        later.extend(q.flat(('call',)))
        later = [e for e in later if e.kind == 'call']
        touch = [e for e in later if any(
            struct(x) == stream for a in (e.fn,) + tuple(e.args)
            for x in subterms(a))]
        if touch:
            prob['unknown:stream'] = (
                touch[0].node, 'the unknown-id arm reads from the stream: '
                'it eats bytes of the next frame')
        elif not (v[0] == 'obj' and v[3] is P.packet_ci
                  and p.heap.get((v, 'id')) == ident):
            prob['unknown:generic'] = (
                rp.node, 'an unknown id does not yield a generic Packet '
                'carrying that id (it yields %s with id %s)' % (
                    show(v), show(p.heap.get((v, 'id'), ('const', None)))))
    if not n_unknown or not n_known:
        raise AnalysisError('read_packet: id dispatch test not found',
                            rp.node, rel(rp.path))
    for key, (node, msg) in sorted(prob.items()):
        report.violation(R, key, rp.path, node, rp.qualname, msg)
    if not prob:
        report.ok(R, 'unknown id -> Packet(context) with that id, nothing '
                  'more read from the stream (%d paths)' % n_unknown)
    if 'base' in arms:
        report.violation(R, 'unknown:arm', fi.path, fi.node, fi.qualname,
                         'the play reactor reacts to generic packets')
    else:
        report.ok(R, 'no arm matches the generic packet')


def disconnect(report, db, cg, S, M, P, fi, arms):
    R = report.rule('R11.4', 'server disconnect closes the connection; the '
                    'exit callback is called at one site, after _run '
                    'returned, guarded by not connected')
    dc = M.conn_method('disconnect')
    ps = arms.get('disconnect')
    if not ps:
        report.violation(R, 'disconnect:missing', fi.path, fi.node,
                         fi.qualname, 'a server disconnect packet is '
                         'ignored in play')
    else:
        bad = [p for p in ps if p.returns and not any(
            e.calls(dc) for e in p.flat(('call',)))]
        if bad:
            report.violation(R, 'disconnect:no-close', fi.path, fi.node,
                             fi.qualname, 'a path through the disconnect '
                             'arm leaves the connection open [%s]'
                             % bad[0].cond_text())
        else:
            report.ok(R, 'disconnect arm calls connection.disconnect()')
    # disconnect() leaves the connection marked as not connected on every
    # exit -- also when the final flush fails -- because that mark is what
    # lets the exit callback run
    dme = sy(dc.all_params[0])
    nexits = 0
    for p in S.run(dc):
        if p.raises and len(p.outcome) > 3 and not p.flat(('store',)):
            continue            # failed before anything was done
        nexits += 1
        marks = [e for e in p.flat(('store',)) if struct(e.base) == dme
                 and e.attr == 'connected']
        if not marks or marks[-1].value != ('const', False):
            report.violation(
                R, 'disconnect:still-connected', dc.path,
                marks[-1].node if marks else dc.node, dc.qualname,
                'disconnect() can end (%s) with self.connected %s [%s]: the '
                'exit callback, which is guarded by `not connected`, never '
                'runs' % (p.outcome[0], 'left as it was' if not marks else
                          'set to %s' % show(marks[-1].value),
                          p.cond_text()))
            break
    else:
        if nexits:
            report.ok(R, 'disconnect() sets connected = False on all %d '
                      'exits' % nexits)
    if not nexits:
        raise AnalysisError('disconnect(): no exit found', dc.node,
                            rel(dc.path))
    hx = M.conn_method('_handle_exit')
    inlined = set((db.norm_stats or {}).get('helpers', ()))
    sites = [cs for cs in cg.callers_of(hx)
             if '%s:%s' % (cs.caller.module.name, cs.caller.qualname)
             not in inlined]
    run = M.method(M.thread, 'run')
    if len(sites) == 1 and sites[0].caller is run:
        report.ok(R, '_handle_exit called once, from NetworkingThread.run')
    else:
        for cs in sites:
            if cs.caller is not run:
                report.violation(R, 'exit:site:%s' % cs.caller.qualname,
                                 cs.caller.path, cs.node,
                                 cs.caller.qualname, 'the exit callback is '
                                 'also triggered from %s: it can run twice'
                                 % cs.caller.qualname)
        if not sites:
            report.violation(R, 'exit:never', hx.path, hx.node, hx.qualname,
                             'the exit callback is never called')
    me = sy(hx.all_params[0])
    cb = at(me, 'handle_exit')
    prob = None
    ncalls = 0
    for p in S.run(hx):
        calls = [e for e in p.flat(('call',)) if struct(e.fn) == cb]
        connected = handler = None
        for a, pol, _ in p.conds:
            if a[1] == 'truth' and struct(a[2][0]) == at(me, 'connected'):
                connected = pol
            elif a[1] == 'is' and struct(a[2][0]) == cb and \
                    a[2][1] == ('const', None):
                handler = not pol
            elif a[1] == 'truth' and struct(a[2][0]) == cb:
                handler = pol
        should = connected is False and handler is True
        decided = connected is True or handler is False or should
        ncalls += len(calls)
        if len(calls) != (1 if should else 0) or (calls and not decided):
            prob = 'the exit callback runs %d time(s) under [%s]; it must ' \
                'run exactly when the connection ended without intending ' \
                'to reconnect (not connected) and a callback is set' % (
                    len(calls), p.cond_text())
        elif not decided and p.returns:
            prob = 'the exit callback is skipped under [%s]' % p.cond_text()
    if prob:
        report.violation(R, 'exit:guard', hx.path, hx.node, hx.qualname,
                         prob)
    elif not ncalls:
        report.violation(R, 'exit:calls', hx.path, hx.node, hx.qualname,
                         'handle_exit is never invoked')
    else:
        report.ok(R, 'callback guarded by not connected and handler set')


def no_drop(report, db, S, M, rule_id='R11.6'):
    R = report.rule(rule_id, 'every packet read from the stream is handed '
                    'to _react before the thread reads again or leaves the '
                    'loop (no packet is consumed and dropped)')
    rn = M.method(M.thread, '_run')
    react = M.conn_method('_react')
    nreads = 0
    lost = None

    def scan(paths, in_loop):
        nonlocal nreads, lost
        for p in paths:
            evs = [e for e in p.events]
            for i, e in enumerate(evs):
                if e.kind == 'loop':
                    scan(e.paths, True)
                    continue
                if e.kind != 'call' or e.method() != 'read_packet' or \
                        not any(t.name == 'read_packet'
                                for t in (e.targets or ())):
                    continue
                nreads += 1
                r = e.res
                truthy = None
                for a, pol, _ in p.conds:
                    if a[1] == 'truth' and a[2][0] == r:
                        truthy = pol
                    elif a[1] == 'is' and a[2][0] == r and \
                            a[2][1] == ('const', None):
                        truthy = not pol
                if truthy is False:
                    continue
                handed = [x for x in evs[i + 1:] if x.kind == 'call'
                          and x.calls(react) and any(a == r for a in x.args)]
                if not handed:
                    lost = (e, p)
    scan(S.run(rn), False)
    if not nreads:
        raise AnalysisError('_run: no read_packet call found', rn.node,
                            rel(rn.path))
    # the loop tells "nothing was read" from "a packet was read" by the truth
    # of the result: a packet object must never be false.  Packet and its
    # subclasses may not define __bool__ / __len__ (a packet with no fields
    # would then be dropped after having been consumed from the stream).
    truth_tested = False
    for p0 in S.run(rn):
        def conds_of(paths):
            for q in paths:
                for a, pol, _ in q.conds:
                    yield a
                for e in q.events:
                    if e.kind == 'loop':
                        for a in conds_of(e.paths):
                            yield a
        for a in conds_of([p0]):
            if a[1] == 'truth' and a[2][0][0] == 'call' and \
                    a[2][0][1][0] in ('attr', 'fn') and (
                        a[2][0][1][2] == 'read_packet'
                        if a[2][0][1][0] == 'attr'
                        else a[2][0][1][1].name == 'read_packet'):
                truth_tested = True
    if truth_tested:
        pk = db.get_class('minecraft.networking.packets.packet', 'Packet')
        for ci in [pk] + db.subclasses(pk):
            for nm in ('__bool__', '__len__', '__nonzero__'):
                m = db.own_method(ci, nm)
                if m is not None:
                    lost = lost or True
                    report.violation(
                        R, 'drop:falsy-packet:%s' % ci.name, m.path, m.node,
                        m.qualname, '%s defines %s, so a packet can be false; '
                        'the networking loop takes a false result of '
                        'read_packet for "nothing was read" and leaves the '
                        'batch: such a packet is consumed from the stream '
                        'and reaches no listener' % (ci.qualname, nm))
    if lost is True:
        return
    if lost is None:
        report.ok(R, 'on every iteration that read a packet, _react(packet) '
                  'follows before the iteration ends')
    else:
        e, p = lost
        report.violation(R, 'drop:path', rn.path, e.node, rn.qualname,
                         'a packet that was read (and so consumed from the '
                         'stream) can be discarded: the iteration [%s] ends '
                         '(%s) without _react(packet)' % (
                             p.cond_text(), p.outcome[0]))
