"""C11 -- in play, keep-alives and teleports are always answered; unknown
packets pass.  Per-arm obligations on PlayingReactor.react plus a three-way
agreement of version predicates decided by folding over all versions."""
import ast

from ..common import AnalysisError, rel
from ..callgraph import CallGraph
from ..connmodel import ConnModel, CONN
from ..cfg import cfg_of
from ..protocol import Proto, Raises, type_name
from ..fold import ClassVal, Env
from .. import shared, boolfn
from .c10 import find_calls, compression_arm

SB_PLAY = 'minecraft.networking.packets.serverbound.play'
CB_PLAY = 'minecraft.networking.packets.clientbound.play'


def run(report, db, tier):
    report.explanation = (
        'PlayingReactor.react is a stateless dispatch; each arm is checked '
        'for "exactly one reply carrying the incoming id" / "spawned on '
        'every path"; the version test of the teleport arm is compared, by '
        'folding over every supported version, with the presence of '
        'teleport_id in the clientbound layout and the registration of '
        'TeleportConfirmPacket.')
    cg = CallGraph(db)
    M = ConnModel(db, cg)
    P = Proto(db)
    pr = db.get_class(CONN, 'PlayingReactor')
    fi = db.own_method(pr, 'react')
    if fi is None:
        raise AnalysisError('PlayingReactor.react vanished')
    R7 = report.rule('R11.7', 'every compared packet_name exists in the '
                     'play table and the arm reads only fields of that '
                     'class, in every version')
    arms = shared.name_agreement(report, R7, db, P, pr, 'play', M)
    report.floor('play arms', len(arms), 4)
    R8 = report.rule('R11.8', 'every packet the play reactor writes has all '
                     'its fields set in every version where the write is '
                     'reachable')
    n = shared.field_completeness(report, R8, db, cg, P, M, fi)
    keep_alive(report, db, cg, M, P, fi, arms)
    position(report, db, cg, M, P, fi, arms)
    unknown_ids(report, db, cg, M, P, fi, arms)
    disconnect(report, db, cg, M, P, fi, arms)
    if not report.violations:
        report.floor('play write sites checked', n, 3)
    no_drop(report, db, cg, M)
    Rc = report.rule('R11.5', 'set-compression in play (protocol 47) sets '
                     'threshold and flag')

    class _S(object):
        def rule(s, rid, d):
            return Rc

        def ok(s, rid, what=None, n=1):
            report.ok(Rc, what)

        def violation(s, rid, *a, **k):
            report.violation(Rc, *a, **k)
    compression_arm(_S(), db, cg, M, fi, arms)


def writes_in(body):
    return find_calls(body, lambda c: isinstance(c.func, ast.Attribute)
                      and c.func.attr == 'write_packet')


def every_path_passes(g, M, fi, st, targets):
    tests = [n for n in g.reachable_nodes() if n.kind == 'test'
             and n.ast is st.test]
    tn = []
    for t in targets:
        tn += M.cfg_nodes_of(fi, t)
    return bool(tests) and bool(tn) and all(
        g.exists_path(t, lambda x: x is g.exit, avoid=lambda x: x in tn,
                      start_labels=('true',)) is None for t in tests)


def keep_alive(report, db, cg, M, P, fi, arms):
    R = report.rule('R11.1', 'keep-alive arm: exactly one reply, carrying '
                    'the incoming id, with the same id codec in both '
                    'directions in every version')
    if 'keep alive' not in arms:
        report.violation(R, 'keepalive:missing', fi.path, fi.node,
                         fi.qualname, 'keep-alives are never answered: the '
                         'server times the client out')
        return
    st, body = arms['keep alive']
    pk = fi.params[1]
    g = cfg_of(fi)
    ws = writes_in(body)
    loops = [x for s in body for x in ast.walk(s)
             if isinstance(x, (ast.For, ast.While))]
    if len(ws) != 1 or loops:
        report.violation(R, 'keepalive:count', fi.path, st, fi.qualname,
                         'a keep-alive is answered %s (must be exactly '
                         'once)' % ('in a loop' if loops else '%d times'
                                    % len(ws)))
        return
    if every_path_passes(g, M, fi, st, ws):
        report.ok(R, 'one write_packet on every path of the arm')
    else:
        report.violation(R, 'keepalive:skipped', fi.path, st, fi.qualname,
                         'a path through the keep-alive arm sends no reply')
    built = shared.constructed_packets(db, cg, P, fi)
    a = ws[0].args[0]
    ci = None
    idsrc = None
    if isinstance(a, ast.Name) and a.id in built:
        ci, kw, asn = built[a.id]
        for k in asn.value.keywords:
            if k.arg == 'keep_alive_id':
                idsrc = ast.unparse(k.value)
        for s in body:
            for x in ast.walk(s):
                if isinstance(x, ast.Assign) and isinstance(
                        x.targets[0], ast.Attribute) and \
                        ast.unparse(x.targets[0]) == '%s.keep_alive_id' % a.id:
                    idsrc = ast.unparse(x.value)
    elif isinstance(a, ast.Call):
        ent = db.resolve_dotted(fi.module, a.func)
        ci = ent if hasattr(ent, 'attrs') else None
        for k in a.keywords:
            if k.arg == 'keep_alive_id':
                idsrc = ast.unparse(k.value)
    sbk = db.get_class(SB_PLAY, 'KeepAlivePacket')
    cbk = db.get_class(CB_PLAY, 'KeepAlivePacket')
    if ci is not sbk:
        report.violation(R, 'keepalive:class', fi.path, ws[0], fi.qualname,
                         'the reply is a %s, not the serverbound keep-alive'
                         % getattr(ci, 'qualname', ci))
    elif idsrc == '%s.keep_alive_id' % pk:
        report.ok(R, 'reply.keep_alive_id = packet.keep_alive_id')
    else:
        report.violation(R, 'keepalive:id', fi.path, ws[0], fi.qualname,
                         'the reply carries %s instead of the incoming '
                         'keep_alive_id' % idsrc)
    # same codec both ways, every version
    bad = []
    for v in P.supported:
        d1 = P.definition(ClassVal(cbk), v)
        d2 = P.definition(ClassVal(sbk), v)
        t1 = [type_name(t) for e in d1 for k, t in e.items()
              if k == 'keep_alive_id'] if isinstance(d1, list) else None
        t2 = [type_name(t) for e in d2 for k, t in e.items()
              if k == 'keep_alive_id'] if isinstance(d2, list) else None
        if not t1 or t1 != t2:
            bad.append((v, t1, t2))
    if bad:
        v, t1, t2 = bad[0]
        report.violation(R, 'keepalive:codec', sbk.path, sbk.node,
                         sbk.qualname, 'the id is received as %s but echoed '
                         'as %s in %d version(s), first %s: ids beyond the '
                         'narrower type cannot be echoed' % (
                             t1, t2, len(bad), P.vname(v)))
    else:
        report.ok(R, 'keep_alive_id has one codec in both directions in '
                  'all %d supported versions' % len(P.supported))


def position(report, db, cg, M, P, fi, arms):
    R = report.rule('R11.2', 'position arm: spawned on every path; teleport '
                    'confirm with the same id from 107 on, position echo '
                    'before; the version test agrees with the layouts')
    name = 'player position and look'
    if name not in arms:
        report.violation(R, 'position:missing', fi.path, fi.node,
                         fi.qualname, 'position packets are never '
                         'acknowledged')
        return
    st, body = arms[name]
    pk = fi.params[1]
    g = cfg_of(fi)
    sp = [x for s in body for x in ast.walk(s) if isinstance(x, ast.Assign)
          and isinstance(x.targets[0], ast.Attribute)
          and x.targets[0].attr == 'spawned'
          and isinstance(x.value, ast.Constant) and x.value.value is True]
    if sp and every_path_passes(g, M, fi, st, sp):
        report.ok(R, 'connection.spawned = True on every path of the arm')
    else:
        report.violation(R, 'position:spawned', fi.path, st, fi.qualname,
                         'a path through the position arm does not mark the '
                         'client as spawned')
    ws = writes_in(body)
    if every_path_passes(g, M, fi, st, ws) and ws:
        report.ok(R, 'an acknowledgement is written on every path')
    else:
        report.violation(R, 'position:no-ack', fi.path, st, fi.qualname,
                         'a path through the position arm sends no '
                         'acknowledgement')
    built = shared.constructed_packets(db, cg, P, fi)
    tc = db.get_class(SB_PLAY, 'TeleportConfirmPacket')
    pl = db.get_class(SB_PLAY, 'PositionAndLookPacket')
    cbp = db.get_class(CB_PLAY + '.player_position_and_look_packet',
                       'PlayerPositionAndLookPacket')
    per_write = []
    for w in ws:
        a = w.args[0]
        ci = built[a.id][0] if isinstance(a, ast.Name) and a.id in built \
            else None
        wn = M.cfg_nodes_of(fi, w)
        conds = [shared.version_conditions(P, fi, g, n) for n in wn]
        per_write.append((w, ci, conds, a))
        # exactly one write per path: no path from this write to another
        for w2 in ws:
            if w2 is not w and any(g.exists_path(
                    n, lambda x: x in M.cfg_nodes_of(fi, w2)) for n in wn):
                report.violation(R, 'position:double-ack', fi.path, w2,
                                 fi.qualname, 'two acknowledgements can be '
                                 'written for one position packet')

    def holds(conds, v):
        return any(h(v) for h in conds)
    mism = []
    for v in P.supported:
        d = P.definition(ClassVal(cbp), v)
        has_tid = isinstance(d, list) and any('teleport_id' in e for e in d)
        t = P.table('serverbound', 'play', v)
        tc_reg = not isinstance(t, Raises) and ClassVal(tc) in t
        chosen = [ci for w, ci, conds, a in per_write if holds(conds, v)]
        if len(chosen) != 1:
            mism.append((v, 'writes %d packets' % len(chosen)))
            continue
        want = tc if has_tid else pl
        if has_tid != tc_reg:
            mism.append((v, 'teleport_id in the clientbound layout: %s, but '
                         'TeleportConfirmPacket registered: %s'
                         % (has_tid, tc_reg)))
        elif chosen[0] is not want:
            mism.append((v, 'answers with %s although the server %s a '
                         'teleport id' % (getattr(chosen[0], 'name', None),
                                          'sends' if has_tid
                                          else 'does not send')))
    if mism:
        v, why = mism[0]
        report.violation(R, 'position:version-test', fi.path, st,
                         fi.qualname, 'in %d supported version(s), first '
                         '%s, the arm %s' % (len(mism), P.vname(v), why))
    else:
        report.ok(R, 'arm test == teleport_id in layout == '
                  'TeleportConfirmPacket registered, for all %d supported '
                  'versions' % len(P.supported))
    # what is echoed
    for w, ci, conds, a in per_write:
        if not isinstance(a, ast.Name):
            continue
        vals = {k.arg: ast.unparse(k.value)
                for k in built[a.id][2].value.keywords if k.arg} \
            if a.id in built else {}
        for s in body:
            for x in ast.walk(s):
                if isinstance(x, ast.Assign) and isinstance(
                        x.targets[0], ast.Attribute) and isinstance(
                            x.targets[0].value, ast.Name) and \
                        x.targets[0].value.id == a.id:
                    vals[x.targets[0].attr] = ast.unparse(x.value)
        if ci is tc:
            if vals.get('teleport_id') == '%s.teleport_id' % pk:
                report.ok(R, 'teleport_confirm.teleport_id = '
                          'packet.teleport_id')
            else:
                report.violation(R, 'position:teleport-id', fi.path, w,
                                 fi.qualname, 'the confirmation carries %s, '
                                 'not the server\'s teleport id'
                                 % vals.get('teleport_id'))
        elif ci is pl:
            want = {'x': '%s.x' % pk, 'feet_y': '%s.y' % pk,
                    'z': '%s.z' % pk, 'yaw': '%s.yaw' % pk,
                    'pitch': '%s.pitch' % pk, 'on_ground': 'True'}
            if vals == want:
                report.ok(R, 'position echo copies x, y, z, yaw, pitch')
            else:
                diff = {k: vals.get(k) for k in want if vals.get(k)
                        != want[k]}
                report.violation(R, 'position:echo', fi.path, w,
                                 fi.qualname, 'the position echo differs '
                                 'from the server\'s values: %s' % diff)


def unknown_ids(report, db, cg, M, P, fi, arms):
    R = report.rule('R11.3', 'unknown ids become generic packets built from '
                    'the per-frame buffer; the reactor has no arm for them')
    rp = M.method(M.reactor, 'read_packet')
    g = cfg_of(rp)
    stream = rp.params[1]
    tests = [n for n in g.reachable_nodes() if n.kind == 'test'
             and isinstance(n.ast, ast.Compare)
             and isinstance(n.ast.ops[0], (ast.In, ast.NotIn))
             and 'clientbound_packets' in ast.unparse(n.ast)]
    if len(tests) != 1:
        raise AnalysisError('read_packet: id dispatch test not found',
                            rp.node, rel(rp.path))
    t = tests[0]
    unknown_label = 'false' if isinstance(t.ast.ops[0], ast.In) else 'true'
    start = [s for s, l in t.succ if l == unknown_label]
    seen = set()
    stack = list(start)
    arm = []
    while stack:
        n = stack.pop()
        if n in seen or n.ast is None:
            continue
        seen.add(n)
        arm.append(n)
        if isinstance(n.ast, ast.Return):
            continue
        stack.extend(s for s, l in n.succ if l != 'exc')
    txt = ' ; '.join(ast.unparse(n.ast) for n in sorted(arm,
                                                        key=lambda x: x.id))
    touches = [n for n in arm if any(
        isinstance(x, ast.Name) and x.id == stream for x in n.walk())]
    idvar = ast.unparse(t.ast.left)
    sets_id = any(isinstance(n.ast, ast.Assign) and any(
        isinstance(tt, ast.Attribute) and tt.attr == 'id'
        for tt in n.ast.targets) and ast.unparse(n.ast.value) == idvar
        for n in arm)
    builds = any(isinstance(n.ast, ast.Assign) and isinstance(
        n.ast.value, ast.Call) and ast.unparse(n.ast.value.func).endswith(
            'Packet') for n in arm)
    if touches:
        report.violation(R, 'unknown:stream', rp.path, touches[0].ast,
                         rp.qualname, 'the unknown-id arm reads from the '
                         'stream: it eats bytes of the next frame')
    elif builds and sets_id:
        report.ok(R, 'unknown id -> %s' % txt[:120])
    else:
        report.violation(R, 'unknown:generic', rp.path, t.ast, rp.qualname,
                         'an unknown id does not yield a generic Packet '
                         'carrying that id (%s)' % txt[:100])
    if 'base' in arms:
        report.violation(R, 'unknown:arm', fi.path, arms['base'][0],
                         fi.qualname, 'the play reactor reacts to generic '
                         'packets')
    else:
        report.ok(R, 'no arm matches the generic packet')


def disconnect(report, db, cg, M, P, fi, arms):
    R = report.rule('R11.4', 'server disconnect closes the connection; the '
                    'exit callback is called at one site, after _run '
                    'returned, guarded by not connected')
    if 'disconnect' not in arms:
        report.violation(R, 'disconnect:missing', fi.path, fi.node,
                         fi.qualname, 'a server disconnect packet is '
                         'ignored in play')
    else:
        st, body = arms['disconnect']
        dcs = find_calls(body, lambda c: isinstance(c.func, ast.Attribute)
                         and c.func.attr == 'disconnect')
        g = cfg_of(fi)
        if dcs and every_path_passes(g, M, fi, st, dcs):
            imm = any(k.arg == 'immediate' for c in dcs for k in c.keywords)
            report.ok(R, 'disconnect arm calls connection.disconnect()')
        else:
            report.violation(R, 'disconnect:no-close', fi.path, st,
                             fi.qualname, 'a path through the disconnect '
                             'arm leaves the connection open')
    hx = M.conn_method('_handle_exit')
    sites = cg.callers_of(hx)
    run = M.method(M.thread, 'run')
    if len(sites) == 1 and sites[0].caller is run:
        report.ok(R, '_handle_exit called once, from NetworkingThread.run')
    else:
        for cs in sites:
            if cs.caller is not run:
                report.violation(R, 'exit:site:%s' % cs.caller.qualname,
                                 cs.caller.path, cs.node,
                                 cs.caller.qualname, 'the exit callback is '
                                 'also triggered from %s: it can run twice'
                                 % cs.caller.qualname)
        if not sites:
            report.violation(R, 'exit:never', hx.path, hx.node, hx.qualname,
                             'the exit callback is never called')
    g = cfg_of(hx)
    calls = [n for n in g.reachable_nodes() if n.ast is not None and any(
        ast.unparse(c.func).endswith('.handle_exit') for c in n.calls())]
    me = hx.params[0]
    ref = ast.parse('not %s.connected and %s.handle_exit is not None'
                    % (me, me), mode='eval').body
    if len(calls) == 1:
        conds = boolfn.path_conditions(g, calls[0])
        parts = [e if t else ast.UnaryOp(op=ast.Not(), operand=e)
                 for e, t in conds]
        expr = parts[0] if len(parts) == 1 else ast.BoolOp(
            op=ast.And(), values=parts) if parts else ast.Constant(True)
        if boolfn.same_function(expr, ref):
            report.ok(R, 'callback guarded by not connected and handler '
                      'set')
        else:
            report.violation(R, 'exit:guard', hx.path, calls[0].ast,
                             hx.qualname, 'the exit callback runs under '
                             '[%s]; it must run exactly when the '
                             'connection ended without intending to '
                             'reconnect (not connected) and a callback is '
                             'set' % ast.unparse(expr))
    else:
        report.violation(R, 'exit:calls', hx.path, hx.node, hx.qualname,
                         'expected one invocation of handle_exit, found %d'
                         % len(calls))


def no_drop(report, db, cg, M):
    R = report.rule('R11.6', 'every packet read from the stream is handed '
                    'to _react before the thread reads again or leaves the '
                    'loop (no packet is consumed and dropped)')
    rn = M.method(M.thread, '_run')
    react = M.conn_method('_react')
    g = cfg_of(rn)
    live = g.reachable_nodes()
    reads = [n for n in live if isinstance(n.ast, ast.Assign) and any(
        any(m.name == 'read_packet' for m, _, _ in cg.callee_funcs(rn, c))
        for c in n.calls())]
    if len(reads) != 1 or not isinstance(reads[0].ast.targets[0], ast.Name):
        raise AnalysisError('_run: `packet = ...read_packet(...)` not found',
                            rn.node, rel(rn.path))
    rd = reads[0]
    pv = rd.ast.targets[0].id
    disp = [n for n in live if n.ast is not None and any(
        any(m is react for m, _, _ in cg.callee_funcs(rn, c))
        and [ast.unparse(a) for a in c.args] == [pv] for c in n.calls())]
    if not disp:
        report.violation(R, 'drop:no-dispatch', rn.path, rd.ast, rn.qualname,
                         'the packet read is never handed to _react')
        return
    env = {pv: True}
    seen = set()
    stack = [s for s, l in rd.succ if l != 'exc']
    lost = None
    while stack:
        n = stack.pop()
        if n in seen or n in disp:
            continue
        seen.add(n)
        if n is rd or n is g.exit or n is g.raise_exit:
            lost = n
            break
        decided = None
        if n.kind == 'test':
            ats = boolfn.atoms(n.ast)
            if ats and all(a in env for a in ats):
                decided = boolfn.evaluate(n.ast, env)
        for s, l in n.succ:
            if l == 'exc':
                continue
            if decided is not None and l in ('true', 'false') and \
                    (l == 'true') != decided:
                continue
            stack.append(s)
    if lost is None:
        report.ok(R, 'from `%s = read_packet(...)` every path with a packet '
                  'reaches _react(%s) first' % (pv, pv))
    else:
        report.violation(R, 'drop:path', rn.path, rd.ast, rn.qualname,
                         'a packet that was read (and so consumed from the '
                         'stream) can be discarded: there is a path from the '
                         'read to %s that does not pass _react(%s)'
                         % ('the next read' if lost is rd
                            else 'the end of _run', pv))
