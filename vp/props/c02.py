"""C02 -- primitive wire types encode and decode as the protocol prescribes.

Rules over minecraft/networking/types/basic.py (and the codec call sites of
the whole package): codec-table agreement, call arity through resolved
receivers, short-read discipline, prefix/payload agreement, interval
analysis of derived values, scaling inverse, dispatch."""
import ast
import json
import os
import struct

from ..common import AnalysisError, VERIF, rel
from ..fold import Folder, Env, Opaque, FoldRaise
from ..callgraph import CallGraph, arity_problem
from .. import terms, ranges

BASIC = 'minecraft.networking.types.basic'
CODEC_METHODS = ('read', 'send', 'read_with_context', 'send_with_context')


def load_ref():
    return json.load(open(os.path.join(VERIF, 'reference',
                                       'wire_types.json')))


def parents(fnode):
    par = {}
    for n in ast.walk(fnode):
        for c in ast.iter_child_nodes(n):
            par[id(c)] = n
    return par


def is_call_to(n, dotted):
    """n is a Call whose function text is `dotted` (e.g. struct.unpack)."""
    if not isinstance(n, ast.Call):
        return False
    try:
        return ast.unparse(n.func) == dotted
    except Exception:
        return False


def parse_fmt(fmt):
    """(big_endian_or_single_byte, code, size) of a one-item struct format;
    None when it is not a one-item format."""
    if not isinstance(fmt, str) or not fmt:
        return None
    order = ''
    body = fmt
    if fmt[0] in '@=<>!':
        order, body = fmt[0], fmt[1:]
    if len(body) != 1:
        return None
    try:
        size = struct.calcsize(fmt)
    except struct.error:
        return None
    big = order in ('>', '!') or (size == 1)
    return big, body, size


def run(report, db, tier):
    ref = load_ref()
    report.explanation = (
        'Each primitive codec of types/basic.py is reduced to its format '
        'string / byte count / prefix / scaling term by pattern extraction '
        'over the AST and compared with reference/wire_types.json and with '
        'its sibling (send vs read); codec call sites in the whole package '
        'are arity-checked through resolved receivers; derived integer '
        'arguments are bounded by interval analysis.')
    report.trusted_base = ['CPython ast', 'struct.calcsize of the checker\'s '
                           'own interpreter', 'reference/wire_types.json']
    F = Folder(db)
    cg = CallGraph(db)
    basic = db.modules.get(BASIC)
    if basic is None:
        raise AnalysisError('anchor module vanished: %s' % BASIC)
    type_ci = db.get_class(BASIC, 'Type')

    r1(report, db, F, basic, ref)
    r2(report, db, cg, type_ci)
    r3(report, db, cg, F)
    r4(report, db, F, basic, ref)
    r5(report, db, cg, F, ref)
    r6(report, db, F)
    r7(report, db, type_ci)
    r8(report, db, basic, ref)
    # VarInt / VarLong are wire types too: their exact-bytes and round-trip
    # clauses are decided by C03's loop analysis
    from ..common import borrow
    from . import c03
    borrow(report, 'R02.9', 'VarInt/VarLong: canonical little-endian base-128 '
           'bytes on send, the same number back on read (C03\'s rules)',
           lambda rid, c: True, lambda sub: c03.run(sub, db, tier))


# ---------------------------------------------------------------------------
def const_of(F, module):
    def c(node):
        try:
            v = F.eval(node, Env(module))
        except (AnalysisError, FoldRaise):
            return None
        return None if isinstance(v, Opaque) else v
    return c


def struct_read_shape(fi):
    """(fmt_expr, count_expr, stream_name) of
    `return struct.unpack(fmt, stream.read(n))[0]`."""
    val, effects, _ = terms.straight_line_value(fi)
    if effects:
        return None
    if not (isinstance(val, ast.Subscript) and isinstance(val.slice,
                                                          ast.Constant)
            and val.slice.value == 0 and is_call_to(val.value,
                                                    'struct.unpack')
            and len(val.value.args) == 2):
        return None
    fmt, rd = val.value.args
    if not (isinstance(rd, ast.Call) and isinstance(rd.func, ast.Attribute)
            and rd.func.attr == 'read' and isinstance(rd.func.value, ast.Name)
            and rd.func.value.id in fi.params and len(rd.args) == 1):
        return None
    return fmt, rd.args[0], rd.func.value.id


def struct_send_shape(fi):
    """(fmt_expr, value_expr, socket_name) of
    `socket.send(struct.pack(fmt, value))`."""
    val, effects, _ = terms.straight_line_value(fi)
    if len(effects) != 1:
        return None
    e = effects[0]
    if not (isinstance(e, ast.Call) and isinstance(e.func, ast.Attribute)
            and e.func.attr == 'send' and isinstance(e.func.value, ast.Name)
            and e.func.value.id in fi.params and len(e.args) == 1
            and is_call_to(e.args[0], 'struct.pack')
            and len(e.args[0].args) == 2):
        return None
    fmt, v = e.args[0].args
    return fmt, v, e.func.value.id


INT_CODES = {'b': (1, True), 'B': (1, False), 'h': (2, True),
             'H': (2, False), 'i': (4, True), 'q': (8, True),
             'Q': (8, False)}


def int_codec(report, R, db, name, spec, rd, sd):
    """The other way to spell an integer codec, decided on path summaries:
         read:  data = f.read(n); <refuse len(data) < n>;
                int.from_bytes(data, 'big', signed=S)
         send:  sock.send(value.to_bytes(n, 'big', signed=S))
    int.from_bytes takes any number of bytes, so -- unlike struct.unpack --
    a short read must be refused explicitly.  False when the methods are not
    of this family (the caller reports the unknown idiom)."""
    from ..callgraph import CallGraph
    from .. import shared
    from ..pathsum import struct as st_, is_const, show
    S = report.__dict__.get('_s2')
    if S is None:
        S = report.__dict__['_s2'] = shared.summariser(db, CallGraph(db))
    size, signed = INT_CODES[spec['code']]
    stream = ('sym', rd.all_params[0])
    sock = ('sym', sd.all_params[1])
    val = ('sym', sd.all_params[0])
    probs = []

    def int_method(t, meth):
        return t[0] == 'call' and t[1][0] == 'attr' and t[1][2] == meth

    def order_signed(t, npos):
        args, kw = list(t[2]), dict(t[3])
        order = args[npos] if len(args) > npos else kw.get('byteorder')
        sg = args[npos + 1] if len(args) > npos + 1 else kw.get(
            'signed', ('const', False))
        return order, sg
    # -- read
    seen = False
    for p in S.run(rd):
        if not p.returns:
            continue
        v = p.value
        if not (v is not None and int_method(v, 'from_bytes') and
                v[1][1] == ('builtin', 'int') and v[2]):
            return False
        seen = True
        data = v[2][0]
        if not (data[0] == 'call' and data[1] == ('attr', stream, 'read')
                and len(data[2]) == 1 and not data[3]):
            probs.append(('read', rd, 'decodes %s, not what one read() of '
                          'the stream gave' % show(data)[:60]))
            continue
        cnt = data[2][0]
        if cnt != ('const', size):
            probs.append(('read', rd, 'reads %s byte(s), the protocol '
                          'prescribes %d' % (show(cnt), size)))
        order, sg = order_signed(v, 1)
        if order != ('const', 'big'):
            probs.append(('read', rd, 'byte order %s, not big-endian'
                          % show(order or ('const', None))))
        if sg != ('const', signed):
            probs.append(('read', rd, 'signed=%s, the protocol prescribes '
                          '%s' % (show(sg), signed)))
        ln = ('op', 'len', (data,))
        whole = False
        for a, pol, _ in p.conds:
            if a[1] == '<' and st_(a[2][0]) == st_(ln) and \
                    is_const(a[2][1]) and not pol:
                whole = whole or a[2][1][1] == size
            elif a[1] == '==' and st_(ln) in (st_(a[2][0]), st_(a[2][1])) \
                    and pol and ('const', size) in a[2]:
                whole = True
            elif a[1] == '<=' and st_(a[2][1]) == st_(ln) and \
                    a[2][0] == ('const', size) and pol:
                whole = True
            elif a[1] == 'truth' and st_(a[2][0]) == st_(data) and pol \
                    and size == 1:
                whole = True     # not empty: at least the one byte
        if not whole:
            probs.append(('read', rd, 'returns a value although fewer than '
                          '%d byte(s) may have been read [%s]: '
                          'int.from_bytes takes any length, so the strict '
                          'prefix of an encoding decodes to a number instead '
                          'of raising' % (size, p.cond_text()[:80])))
    if not seen:
        return False
    # -- send
    sends = 0
    for p in S.run(sd):
        if not p.returns:
            continue
        outs = [e for e in p.calls() if e.method() == 'send' and (
            (e.fn[0] == 'attr' and st_(e.fn[1]) == sock) or
            (e.fn[0] == 'fn' and len(e.fn) > 2 and e.fn[2] is not None
             and st_(e.fn[2]) == sock))]
        if len(outs) != 1 or len(outs[0].args) != 1:
            return False
        b = outs[0].args[0]
        if not int_method(b, 'to_bytes'):
            return False
        sends += 1
        src = b[1][1]
        if st_(src) != val and not (
                src[0] == 'call' and src[1] == ('ext', 'operator.index')
                and len(src[2]) == 1 and st_(src[2][0]) == val):
            probs.append(('send', sd, 'encodes %s, not the value parameter'
                          % show(src)[:60]))
        args, kw = list(b[2]), dict(b[3])
        ln_ = args[0] if args else kw.get('length')
        if ln_ != ('const', size):
            probs.append(('send', sd, 'writes %s byte(s), the protocol '
                          'prescribes %d' % (show(ln_ or ('const', None)),
                                             size)))
        order, sg = order_signed(b, 1)
        if order != ('const', 'big'):
            probs.append(('send', sd, 'byte order %s, not big-endian'
                          % show(order or ('const', None))))
        if sg != ('const', signed):
            probs.append(('send', sd, 'signed=%s, the protocol prescribes '
                          '%s' % (show(sg), signed)))
    if not sends:
        return False
    seen_k = set()
    for side, fi, msg in probs:
        k = 'codec:%s.%s' % (name, side)
        if (k, msg) in seen_k:
            continue
        seen_k.add((k, msg))
        report.violation(R, k, fi.path, fi.node, fi.qualname, msg)
    if not probs:
        report.ok(R, '%s: %d byte(s), big-endian, signed=%s through '
                  'int.from_bytes / to_bytes, short reads refused'
                  % (name, size, signed))
    return True


def r1(report, db, F, basic, ref):
    R = report.rule('R02.1', 'struct codecs: send and read format strings '
                    'agree with each other, the reference table and the '
                    'byte count read')
    c = const_of(F, basic)
    n = 0
    for name, spec in sorted(ref['struct_types'].items()):
        ci = basic.classes.get(name)
        if ci is None:
            raise AnalysisError('wire type %s vanished from basic.py' % name)
        rd, sd = db.own_method(ci, 'read'), db.own_method(ci, 'send')
        if rd is None or sd is None:
            raise AnalysisError('%s lacks read/send' % name, ci.node,
                                rel(ci.path))
        rs, ss = struct_read_shape(rd), struct_send_shape(sd)
        if (rs is None or ss is None) and spec['code'] in INT_CODES:
            got = int_codec(report, R, db, name, spec, rd, sd)
            if got:
                n += 1
                continue
        if rs is None or ss is None:
            raise AnalysisError(
                'unrecognised codec idiom in %s.%s (expected struct.unpack('
                'fmt, f.read(n))[0] / sock.send(struct.pack(fmt, v)))'
                % (name, 'read' if rs is None else 'send'),
                (rd if rs is None else sd).node, rel(ci.path))
        n += 1
        rfmt, rcount = c(rs[0]), c(rs[1])
        sfmt = c(ss[0])
        pr, ps = parse_fmt(rfmt), parse_fmt(sfmt)
        probs = []
        if pr is None:
            probs.append(('read', rd, 'read format %r is not a single-item '
                          'struct format' % (rfmt,)))
        if ps is None:
            probs.append(('send', sd, 'send format %r is not a single-item '
                          'struct format' % (sfmt,)))
        if pr is not None:
            if not pr[0]:
                probs.append(('read', rd, 'read format %r is not big-endian'
                              % rfmt))
            if pr[1] != spec['code']:
                probs.append(('read', rd, 'read format %r, protocol '
                              'prescribes type code %r' % (rfmt,
                                                           spec['code'])))
            if rcount != pr[2]:
                probs.append(('read', rd, 'reads %r byte(s) but format %r '
                              'needs %d' % (rcount, rfmt, pr[2])))
            if pr[2] != spec['size']:
                probs.append(('read', rd, 'format %r is %d byte(s), '
                              'protocol prescribes %d' % (rfmt, pr[2],
                                                          spec['size'])))
        if ps is not None:
            if not ps[0]:
                probs.append(('send', sd, 'send format %r is not big-endian'
                              % sfmt))
            if ps[1] != spec['code']:
                probs.append(('send', sd, 'send format %r, protocol '
                              'prescribes type code %r' % (sfmt,
                                                           spec['code'])))
        # the value packed is the value parameter itself
        if not (isinstance(ss[1], ast.Name) and ss[1].id == sd.all_params[0]):
            probs.append(('send', sd, 'packs %s, not the value parameter'
                          % ast.unparse(ss[1])))
        if not probs:
            report.ok(R, '%s: send %r / read %r x %s byte(s)' % (
                name, sfmt, rfmt, rcount))
        for side, fi, msg in probs:
            report.violation(R, 'codec:%s.%s' % (name, side), fi.path,
                             fi.node, fi.qualname, msg)
    report.floor('struct-based wire types', n, 10)


# ---------------------------------------------------------------------------
def is_codec_method(db, m, type_ci):
    return m.cls is not None and m.name in CODEC_METHODS and \
        db.is_subclass(m.cls, type_ci)


def r2(report, db, cg, type_ci):
    R = report.rule('R02.2', 'every call that resolves to a wire-type codec '
                    'method passes the arguments that method takes')
    n_sites = 0
    n_other = 0
    flagged = set()
    for fi, sites in cg.sites.items():
        for cs in sites:
            f = cs.node.func
            if not (isinstance(f, ast.Attribute) and f.attr in CODEC_METHODS):
                continue
            codec = [(m, imp, rt) for m, imp, rt in cs.callees
                     if is_codec_method(db, m, type_ci)]
            if not codec:
                n_other += 1
                report.note('non-codec receivers of read/send',
                            '%s: %s' % (fi.qualname, ast.unparse(f)))
                continue
            n_sites += 1
            bad = []
            for m, imp, rt in codec:
                p = arity_problem(m, imp, cs.node)
                if p:
                    bad.append((m, p))
            if bad:
                key = 'arity:%s:%s' % (fi.qualname, ast.unparse(f))
                if key in flagged:
                    continue
                flagged.add(key)
                report.violation(
                    R, key, fi.path, cs.node, fi.qualname,
                    'call %s cannot bind: %s' % (
                        ast.unparse(cs.node)[:80], '; '.join(
                            '%s %s' % (m.qualname, p) for m, p in bad[:3])))
            else:
                report.ok(R, '%s: %s -> %s' % (
                    fi.qualname, ast.unparse(cs.node)[:60],
                    ','.join(sorted(set(m.qualname for m, _, _ in codec)))[:80]))
    report.note('codec call sites', n_sites)
    report.note('read/send calls on non-codec receivers', n_other)
    report.floor('codec call sites resolved', n_sites, 100)


# ---------------------------------------------------------------------------
def r3(report, db, cg, F):
    R = report.rule('R02.3', 'every sized raw read in codec code flows into '
                    'a consumer that fails on short input')
    from .. import shared
    from ..pathsum import struct, show, subterms, is_const
    S = shared.summariser(db, cg, implicit_raises=False)
    n = 0
    for fi in db.funcs:
        mod = fi.module.name
        if not (mod.startswith('minecraft.networking.types') or
                mod.startswith('minecraft.networking.packets')):
            continue
        if mod.endswith('packet_buffer'):
            continue
        raw = {}
        for cs in cg.sites.get(fi, []):
            f = cs.node.func
            if not (isinstance(f, ast.Attribute) and f.attr == 'read'):
                continue
            if cs.callees:
                continue            # a codec / in-repo reader, not a raw read
            recv = f.value
            if not (isinstance(recv, ast.Name) and recv.id in fi.params):
                continue
            if any(t[0] in ('cls', 'inst') for t in cs.recv_types):
                continue
            raw[id(cs.node)] = cs.node
        if not raw:
            continue
        n += len(raw)
        verdicts = {}
        for p in S.run(fi):
            evs = p.flat(('call',))
            for e in evs:
                if id(e.node) not in raw:
                    continue
                key = id(e.node)
                if not e.args and not e.kwargs:
                    verdicts.setdefault(key, True)
                    continue
                if not p.returns:
                    verdicts.setdefault(key, True)
                    continue
                chunk = e.res
                size = e.args[-1]
                # (a) handed to a consumer that fails on short input
                safe = False
                uses = 0
                for x in evs:
                    if x is e:
                        continue
                    args = list(x.args) + [v for _, v in x.kwargs]
                    if not any(chunk in list(subterms(a)) for a in args):
                        continue
                    uses += 1
                    if x.fn == ('ext', 'struct.unpack') and \
                            x.args[1:2] == (chunk,):
                        safe = True
                    elif x.fn == ('ext', 'uuid.UUID') and dict(
                            x.kwargs).get('bytes') == chunk:
                        safe = True
                # (b) the path has decided that the chunk is not short
                for a, pol, _ in p.conds:
                    ln = ('op', 'len', (chunk,))
                    if a[1] == '<' and a[2] == (ln, size) and not pol:
                        safe = True
                    elif a[1] == '<=' and a[2] == (size, ln) and pol:
                        safe = True
                    elif a[1] == '==' and set(a[2]) == {ln, size} and pol:
                        safe = True
                    elif a[1] == 'truth' and a[2][0] == chunk and pol and \
                            size == ('const', 1):
                        safe = True
                    elif a[1] == '<' and a[2][0] == ln and is_const(
                            a[2][1]) and a[2][1] == size and not pol:
                        safe = True
                if safe:
                    verdicts.setdefault(key, True)
                else:
                    verdicts[key] = 'is used on a returning path [%s] ' \
                        'without having been checked for its length' % (
                            p.cond_text()[:80] or 'always')
        for key, node in raw.items():
            v = verdicts.get(key)
            if v is True:
                report.ok(R, '%s: %s' % (fi.qualname, ast.unparse(node)))
            elif v is None:
                report.ok(R, '%s: %s (unreachable)' % (fi.qualname,
                                                       ast.unparse(node)))
            else:
                report.violation(
                    R, 'shortread:%s' % fi.qualname, fi.path, node,
                    fi.qualname,
                    'result of %s %s: a truncated stream yields a shorter '
                    'value instead of an error' % (ast.unparse(node), v))
    report.floor('raw stream reads in codec code', n, 10)


def enclosing_block(fnode, stmt):
    for n in ast.walk(fnode):
        for field in ('body', 'orelse', 'finalbody'):
            b = getattr(n, field, None)
            if isinstance(b, list) and stmt in b:
                return b
    return None


def uses(st, var):
    return any(isinstance(n, ast.Name) and n.id == var for n in ast.walk(st))


def tests_shortness(test, var):
    """len(var) < k / len(var) != k / len(var) == 0 / not var"""
    if isinstance(test, ast.UnaryOp) and isinstance(test.op, ast.Not) and \
            isinstance(test.operand, ast.Name) and test.operand.id == var:
        return True
    if isinstance(test, ast.Compare) and len(test.ops) == 1:
        l = test.left
        if isinstance(l, ast.Call) and isinstance(l.func, ast.Name) and \
                l.func.id == 'len' and len(l.args) == 1 and \
                isinstance(l.args[0], ast.Name) and l.args[0].id == var:
            return isinstance(test.ops[0], (ast.Lt, ast.NotEq, ast.Eq,
                                            ast.LtE))
    return False


def ends_in_raise(body):
    return bool(body) and isinstance(body[-1], ast.Raise)


# ---------------------------------------------------------------------------
def r4(report, db, F, basic, ref):
    R = report.rule('R02.4', 'length-prefixed codecs: the prefix is len() of '
                    'the very bytes sent next; the reader requests exactly '
                    'the decoded length, with the same prefix type')
    n = 0
    for name, spec in sorted(ref['prefixed'].items()):
        ci = basic.classes.get(name)
        if ci is None:
            raise AnalysisError('wire type %s vanished' % name)
        rd, sd = db.own_method(ci, 'read'), db.own_method(ci, 'send')
        n += 1
        if rd is None or sd is None:
            # shared code parametrised by the class (a mixin, a base class):
            # decided on the path summaries made for this very class
            prefixed_ps(report, R, db, ci, name, spec)
            continue
        # ---- send
        val, effects, env = terms.straight_line_value(sd)
        sock = sd.all_params[1] if len(sd.params) > 1 else None
        ok = False
        msg = 'unrecognised shape'
        if len(effects) == 2:
            e1, e2 = effects
            pre = prefix_send(e1)
            pay = payload_send(e2, sock)
            if pre is None or pay is None:
                raise AnalysisError('unrecognised prefixed-send idiom in '
                                    '%s.send' % name, sd.node, rel(sd.path))
            ptype, lenarg = pre
            msgs = []
            if ptype != spec['prefix']:
                msgs.append('length is written as %s, protocol prescribes %s'
                            % (ptype, spec['prefix']))
            if lenarg is None:
                msgs.append('prefix is not len() of a value: %s'
                            % ast.unparse(e1.args[0]))
            elif ast.dump(lenarg) != ast.dump(pay):
                msgs.append('prefix is len(%s) but the payload sent is %s'
                            % (ast.unparse(lenarg), ast.unparse(pay)))
            if spec['payload'] == 'utf-8':
                enc = encoding_of(pay, 'encode')
                if enc is None or enc.lower().replace('-', '') != 'utf8':
                    msgs.append('payload is not the UTF-8 encoding of the '
                                'value (%s)' % ast.unparse(pay))
                elif not (isinstance(pay.func.value, ast.Name) and
                          pay.func.value.id == sd.all_params[0]):
                    msgs.append('encodes %s, not the value parameter'
                                % ast.unparse(pay.func.value))
            else:
                if not (isinstance(pay, ast.Name) and pay.id == sd.all_params[0]):
                    msgs.append('payload sent is %s, not the value parameter'
                                % ast.unparse(pay))
            if msgs:
                for mm in msgs:
                    report.violation(R, 'prefix:%s.send' % name, sd.path,
                                     sd.node, sd.qualname, mm)
            else:
                report.ok(R, '%s.send: %s(len(x)) then x' % (name, ptype))
        else:
            raise AnalysisError('unrecognised prefixed-send idiom in %s.send '
                                '(%d effects)' % (name, len(effects)),
                                sd.node, rel(sd.path))
        # ---- read
        val, effects, env = terms.straight_line_value(rd)
        reads = [x for x in ast.walk(val) if isinstance(x, ast.Call)
                 and isinstance(x.func, ast.Attribute)
                 and x.func.attr == 'read' and isinstance(x.func.value,
                                                          ast.Name)
                 and x.func.value.id == rd.all_params[0]]
        if len(reads) != 1 or effects:
            raise AnalysisError('unrecognised prefixed-read idiom in %s.read'
                                % name, rd.node, rel(rd.path))
        raw = reads[0]
        msgs = []
        if len(raw.args) != 1:
            msgs.append('raw read has no length argument')
        else:
            la = raw.args[0]
            pt = codec_read_type(la, rd.all_params[0])
            if pt is None:
                msgs.append('requested length %s is not a decoded prefix'
                            % ast.unparse(la))
            elif pt != spec['prefix']:
                msgs.append('length is read as %s, protocol prescribes %s'
                            % (pt, spec['prefix']))
        if spec['payload'] == 'utf-8':
            enc = None
            for x in ast.walk(val):
                e = encoding_of(x, 'decode')
                if e is not None:
                    enc = e
            if enc is None or enc.lower().replace('-', '') != 'utf8':
                msgs.append('bytes are not decoded as UTF-8')
        if msgs:
            for mm in msgs:
                report.violation(R, 'prefix:%s.read' % name, rd.path,
                                 rd.node, rd.qualname, mm)
        else:
            report.ok(R, '%s.read: n = %s.read; read(n)' % (name,
                                                           spec['prefix']))
    # PrefixedArray
    ci = basic.classes.get('PrefixedArray')
    if ci is None:
        raise AnalysisError('PrefixedArray vanished')
    n += 1
    check_prefixed_array(report, R, db, ci)
    report.floor('length-prefixed codecs', n, 4)


def prefixed_ps(report, R, db, ci, name, spec):
    """R02.4 on path summaries, for codec methods the class inherits: the
    class-level constants (which prefix type) resolve through its MRO."""
    from ..callgraph import CallGraph
    from .. import shared
    from ..pathsum import struct as st_, show, subterms
    S = report.__dict__.get('_s2')
    if S is None:
        S = report.__dict__['_s2'] = shared.summariser(db, CallGraph(db))
    rd, sd = db.find_method(ci, 'read'), db.find_method(ci, 'send')
    if rd is None or sd is None:
        raise AnalysisError('%s lacks read/send' % name, ci.node,
                            rel(ci.path))

    def pars(fi):
        ps = fi.all_params
        return ps[1:] if fi.kind in ('class', 'instance') else ps

    def codec_of(e):
        """class name of the wire type whose read/send the event calls"""
        if e.fn[0] == 'fn' and e.fn[1].cls is not None:
            return e.fn[1].cls.name
        if e.fn[0] == 'attr' and e.fn[1][0] == 'cls':
            return e.fn[1][1].name
        return None
    # -- send
    vname, sname = pars(sd)[:2]
    val, sock = ('sym', vname), ('sym', sname)
    msgs = []
    nsend = 0
    for p in S.run(sd, exact_self=ci):
        if not p.returns:
            continue
        nsend += 1
        evs = [e for e in p.flat(('call',)) if e.method() in (
            'send', 'send_with_context')]
        raw = [e for e in evs if (e.fn[0] == 'attr' and st_(e.fn[1]) == sock)
               or (e.fn[0] == 'fn' and len(e.fn) > 2 and e.fn[2] is not None
                   and st_(e.fn[2]) == sock and codec_of(e) in (
                       None, 'PacketBuffer'))]
        pre = [e for e in evs if e not in raw]
        if len(raw) != 1 or len(pre) != 1 or evs.index(pre[0]) > \
                evs.index(raw[0]):
            msgs.append(('send', 'a path writes %d prefix(es) and %d '
                         'payload(s) [%s]' % (len(pre), len(raw),
                                              p.cond_text()[:60])))
            continue
        pay = raw[0].args[-1]
        if codec_of(pre[0]) != spec['prefix']:
            msgs.append(('send', 'length is written as %s, protocol '
                         'prescribes %s' % (codec_of(pre[0]),
                                            spec['prefix'])))
        ln = pre[0].args[0] if pre[0].args else None
        if ln is None or st_(ln) != ('op', 'len', (st_(pay),)):
            msgs.append(('send', 'prefix is %s but the payload sent is %s'
                         % (show(ln) if ln else None, show(pay))))
        if spec['payload'] == 'utf-8':
            if not (pay[0] == 'call' and pay[1][0] == 'attr' and
                    pay[1][2] == 'encode' and st_(pay[1][1]) == val and
                    [x for x in pay[2]] in ([('const', 'utf-8')],
                                            [('const', 'utf8')], [])):
                msgs.append(('send', 'payload is not the UTF-8 encoding of '
                             'the value (%s)' % show(pay)))
        elif st_(pay) != val:
            msgs.append(('send', 'payload sent is %s, not the value '
                         'parameter' % show(pay)))
    if not nsend:
        raise AnalysisError('%s.send: no returning path' % name, sd.node,
                            rel(sd.path))
    # -- read
    stream = ('sym', pars(rd)[0])
    nread = 0
    for p in S.run(rd, exact_self=ci):
        if not p.returns:
            continue
        reads = [e for e in p.flat(('call',)) if e.method() in (
            'read', 'read_with_context')]
        raw = [e for e in reads if e.fn[0] == 'attr' and
               st_(e.fn[1]) == stream]
        pre = [e for e in reads if e not in raw]
        if any(a[1] == 'is' and a[2][1] == ('const', None) and pol and
               any(st_(a[2][0]) == st_(e.res) for e in pre)
               for a, pol, _ in p.conds):
            continue    # a decoded length is a number, never None
        nread += 1
        if len(raw) != 1 or len(pre) != 1 or reads.index(pre[0]) > \
                reads.index(raw[0]):
            msgs.append(('read', 'a path reads %d prefix(es) and %d '
                         'payload(s) [%s]' % (len(pre), len(raw),
                                              p.cond_text()[:60])))
            continue
        if codec_of(pre[0]) != spec['prefix']:
            msgs.append(('read', 'length is read as %s, protocol prescribes '
                         '%s' % (codec_of(pre[0]), spec['prefix'])))
        if [st_(a) for a in raw[0].args] != [st_(pre[0].res)]:
            msgs.append(('read', 'the raw read asks for %s, not for the '
                         'decoded length [%s]' % (
                             [show(a) for a in raw[0].args],
                             p.cond_text()[:80])))
        if p.value is None or not any(st_(t) == st_(raw[0].res)
                                      for t in subterms(p.value)):
            msgs.append(('read', 'what is returned (%s) does not come from '
                         'the bytes read' % (show(p.value)[:50]
                                             if p.value else None)))
    if not nread:
        raise AnalysisError('%s.read: no returning path' % name, rd.node,
                            rel(rd.path))
    seen = set()
    for side, mm in msgs:
        if (side, mm) in seen:
            continue
        seen.add((side, mm))
        fi = sd if side == 'send' else rd
        report.violation(R, 'prefix:%s.%s' % (name, side), fi.path, fi.node,
                         fi.qualname, '%s: %s' % (name, mm))
    if not msgs:
        report.ok(R, '%s: %s(len(x)) then x; n = %s.read, read(n) '
                  '(inherited code, summarised for this class)'
                  % (name, spec['prefix'], spec['prefix']))


def prefix_send(e):
    """`L.send(len(X), sock)` -> (L name, X) ; X None when not a len()."""
    if not (isinstance(e, ast.Call) and isinstance(e.func, ast.Attribute)
            and e.func.attr == 'send' and len(e.args) == 2):
        return None
    try:
        lname = ast.unparse(e.func.value)
    except Exception:
        return None
    a = e.args[0]
    if isinstance(a, ast.Call) and isinstance(a.func, ast.Name) and \
            a.func.id == 'len' and len(a.args) == 1:
        return lname, a.args[0]
    return lname, None


def payload_send(e, sock):
    """`sock.send(P)` with P = X or struct.pack(str(len(X)) + 's', X)."""
    if not (isinstance(e, ast.Call) and isinstance(e.func, ast.Attribute)
            and e.func.attr == 'send' and isinstance(e.func.value, ast.Name)
            and e.func.value.id == sock and len(e.args) == 1):
        return None
    p = e.args[0]
    if is_call_to(p, 'struct.pack') and len(p.args) == 2:
        return p.args[1]
    return p


def encoding_of(x, meth):
    if isinstance(x, ast.Call) and isinstance(x.func, ast.Attribute) and \
            x.func.attr == meth:
        if x.args and isinstance(x.args[0], ast.Constant):
            return x.args[0].value
        for kw in x.keywords:
            if kw.arg == 'encoding' and isinstance(kw.value, ast.Constant):
                return kw.value.value
        if not x.args and not x.keywords:
            return 'utf-8'
    return None


def codec_read_type(e, stream):
    if isinstance(e, ast.Call) and isinstance(e.func, ast.Attribute) and \
            e.func.attr == 'read' and len(e.args) == 1 and \
            isinstance(e.args[0], ast.Name) and e.args[0].id == stream:
        return ast.unparse(e.func.value)
    return None


def check_prefixed_array(report, R, db, ci):
    """send: length_type.send(len(v)) then one element write per element of
    v, in order; read: n = length_type.read, then n element reads.  Read off
    the path summaries of PrefixedArray.send / read (its private helpers
    inlined, whatever they are called)."""
    from ..callgraph import CallGraph
    from .. import shared
    from ..pathsum import struct, show, subterms
    cg = CallGraph(db)
    S = shared.summariser(db, cg, implicit_raises=False)
    S.inline_pred = lambda t: t.cls is ci
    sd, rd = db.own_method(ci, 'send'), db.own_method(ci, 'read')
    if sd is None or rd is None:
        raise AnalysisError('PrefixedArray.send/read vanished', ci.node,
                            rel(ci.path))
    me = ('sym', sd.all_params[0])
    val, sock = ('sym', sd.all_params[1]), ('sym', sd.all_params[2])
    lt = ('attr', me, 'length_type')
    et = ('attr', me, 'element_type')
    ok = False
    why = ''
    for p in S.run(sd):
        if not p.returns:
            continue
        evs = [e for e in p.events if e.kind in ('call', 'loop')]
        pre = [e for e in evs if e.kind == 'call' and e.fn[0] == 'attr'
               and struct(e.fn[1]) == lt and e.fn[2] == 'send']
        loops = [e for e in evs if e.kind == 'loop']
        ok = len(pre) == 1 and len(loops) == 1 and \
            evs.index(pre[0]) < evs.index(loops[0]) and \
            [struct(a) for a in pre[0].args] == [('op', 'len', (val,)),
                                                 sock] and \
            struct(loops[0].ctx) == val
        if ok:
            for q in loops[0].paths:
                calls = q.flat(('call',))
                if len(calls) != 1 or not (
                        calls[0].fn[0] == 'attr'
                        and struct(calls[0].fn[1]) == et
                        and calls[0].fn[2] == 'send'
                        and calls[0].args[0][0] == 'elem'
                        and struct(calls[0].args[1]) == sock):
                    ok = False
                    why = 'the loop body is %s' % [repr(c) for c in calls]
        else:
            why = 'effects: %s' % [repr(e) for e in evs][:4]
    if ok:
        report.ok(R, 'PrefixedArray.send: length_type(len(v)) then one '
                  'element write per element of v')
    else:
        report.violation(R, 'prefix:PrefixedArray.__send', sd.path,
                         sd.node, sd.qualname,
                         'does not write len(value) with length_type followed '
                         'by exactly one element write per element of value '
                         '(%s)' % why)
    me = ('sym', rd.all_params[0])
    stream = ('sym', rd.all_params[1])
    lt = ('attr', me, 'length_type')
    et = ('attr', me, 'element_type')
    ok = False
    for p in S.run(rd):
        if not p.returns:
            continue
        evs = [e for e in p.events if e.kind in ('call', 'loop')]
        pre = [e for e in evs if e.kind == 'call' and e.fn[0] == 'attr'
               and struct(e.fn[1]) == lt and e.fn[2] == 'read']
        loops = [e for e in evs if e.kind == 'loop']
        if len(pre) != 1 or len(loops) != 1 or \
                [struct(a) for a in pre[0].args] != [stream]:
            ok = False
            continue
        n_ = pre[0].res
        lp = loops[0]
        if lp.ctx != ('op', 'range', (n_,)):
            ok = False
            continue
        ok = True
        for q in lp.paths:
            calls = q.flat(('call',))
            reads = [c for c in calls if c.fn[0] == 'attr'
                     and struct(c.fn[1]) == et and c.fn[2] == 'read'
                     and [struct(a) for a in c.args] == [stream]]
            if len(reads) != 1 or len([c for c in calls
                                       if c.fn[2:3] != ('append',)]) != 1:
                ok = False
        # the result collects exactly the element reads
    if ok:
        report.ok(R, 'PrefixedArray.read: n = length_type.read; n element '
                  'reads')
    else:
        report.violation(R, 'prefix:PrefixedArray.__read', rd.path,
                         rd.node, rd.qualname,
                         'does not read the length with length_type and then '
                         'exactly that many elements')


# ---------------------------------------------------------------------------
def r5(report, db, cg, F, ref):
    R = report.rule('R02.5', 'a derived argument of a fixed-width integer '
                    'codec, when bounded by its own operators, lies in the '
                    'codec range')
    rng = {k: v['range'] for k, v in ref['struct_types'].items()
           if 'range' in v}
    n = 0
    nb = 0
    for fi, sites in cg.sites.items():
        for cs in sites:
            f = cs.node.func
            if not (isinstance(f, ast.Attribute) and f.attr == 'send'
                    and len(cs.node.args) >= 1):
                continue
            targets = set()
            for m, imp, rt in cs.callees:
                if m.cls is not None and m.cls.module.name == BASIC and \
                        m.cls.name in rng and m.name == 'send':
                    targets.add(m.cls.name)
            if len(targets) != 1:
                continue
            tname = targets.pop()
            n += 1
            arg = cs.node.args[0]
            env = single_assign_env(fi)
            arg2 = terms.substitute(arg, env)
            iv = ranges.eval_interval(arg2, consts=const_of(F, fi.module))
            if not iv.bounded:
                continue
            nb += 1
            lo, hi = rng[tname]
            if iv.within(lo, hi):
                report.ok(R, '%s: %s.send(%s) in %r' % (
                    fi.qualname, tname, ast.unparse(arg)[:50], iv))
            else:
                report.violation(
                    R, 'range:%s:%s' % (fi.qualname, tname), fi.path,
                    cs.node, fi.qualname,
                    '%s can take values in %r but %s encodes only [%d, %d] '
                    '(struct.error at the upper end)' % (
                        ast.unparse(arg), iv, tname, lo, hi))
    report.note('fixed-width integer send sites', n)
    report.note('of which bounded by their own operators', nb)
    report.floor('fixed-width integer send sites', n, 12)
    report.floor('bounded derived arguments', nb, 1)


def single_assign_env(fi):
    """Locals assigned exactly once by a plain `name = expr` at the top level
    of the function body (safe to substitute)."""
    counts = {}
    vals = {}
    for n in ast.walk(fi.node):
        if isinstance(n, (ast.Assign, ast.AugAssign, ast.For, ast.With,
                          ast.NamedExpr)):
            tgts = []
            if isinstance(n, ast.Assign):
                tgts = n.targets
            elif isinstance(n, ast.AugAssign):
                tgts = [n.target]
            elif isinstance(n, ast.For):
                tgts = [n.target]
            for t in tgts:
                for x in ast.walk(t):
                    if isinstance(x, ast.Name):
                        counts[x.id] = counts.get(x.id, 0) + 1
                        if isinstance(n, ast.Assign) and t is x and \
                                n in fi.node.body:
                            vals[x.id] = n.value
    return {k: v for k, v in vals.items() if counts.get(k) == 1
            and k not in fi.params}


# ---------------------------------------------------------------------------
def r6(report, db, F):
    R = report.rule('R02.6', 'scaling codecs: the factor applied on send is '
                    'the inverse of the factor applied on read')
    pairs = [
        (BASIC, 'FixedPoint'), (BASIC, 'Angle'),
        ('minecraft.networking.packets.clientbound.play.sound_effect_packet',
         'SoundEffectPacket.EffectPosition'),
    ]
    n = 0
    for mod, qn in pairs:
        ci = db.get_class(mod, qn)
        rd, sd = db.own_method(ci, 'read'), db.own_method(ci, 'send')
        if rd is None or sd is None:
            raise AnalysisError('%s lacks read/send' % qn)
        mr = read_scaling(rd)
        ms = send_scaling(sd)
        if mr is None or ms is None:
            raise AnalysisError('unrecognised scaling idiom in %s.%s' % (
                qn, 'read' if mr is None else 'send'),
                (rd if mr is None else sd).node, rel(ci.path))
        n += 1
        prod = mr.mul(ms)
        if prod is not None and prod.coef == 1 and not prod.syms:
            report.ok(R, '%s: read x%s %s, send x%s %s' % (
                qn, mr.coef, mr.syms, ms.coef, ms.syms))
        else:
            report.violation(
                R, 'scaling:%s' % qn, sd.path, sd.node, sd.qualname,
                'read applies factor %s%s, send applies %s%s: not inverse'
                % (mr.coef, mr.syms or '', ms.coef, ms.syms or ''))
    # Angle.send wraps twice: the angle into one turn before scaling, the
    # step count into the carrier after rounding; each modulus must be the
    # constant of the scaling next to it (v % D / D, round(K * ..) % K)
    ang = db.get_class(BASIC, 'Angle')
    asend = db.own_method(ang, 'send')
    wraps = []

    def cst(x):
        x = fold_name(db, asend, x)
        return x.value if isinstance(x, ast.Constant) and isinstance(
            x.value, (int, float)) and not isinstance(x.value, bool) \
            else None
    for node in ast.walk(asend.node):
        if isinstance(node, ast.BinOp) and isinstance(node.op, ast.Div) and \
                isinstance(node.left, ast.BinOp) and isinstance(
                    node.left.op, ast.Mod):
            a, b = cst(node.left.right), cst(node.right)
            if a is not None and b is not None:
                wraps.append(('turn', a, b, node))
        if isinstance(node, ast.BinOp) and isinstance(node.op, ast.Mod) and \
                isinstance(node.left, ast.Call) and isinstance(
                    node.left.func, ast.Name) and node.left.func.id in (
                        'round', 'int') and node.left.args and isinstance(
                            node.left.args[0], ast.BinOp) and isinstance(
                                node.left.args[0].op, ast.Mult):
            m = node.left.args[0]
            k = cst(m.left) if cst(m.left) is not None else cst(m.right)
            c = cst(node.right)
            if k is not None and c is not None:
                wraps.append(('steps', c, k, node))
    for kind, a, b, node in wraps:
        n += 0
        if a == b:
            report.ok(R, 'Angle.send wraps the %s modulo %r, the constant '
                      'it scales by' % ('angle' if kind == 'turn'
                                        else 'step count', a))
        else:
            report.violation(
                R, 'scaling:Angle:wrap:%s' % kind, asend.path, node,
                asend.qualname, 'Angle.send wraps the %s modulo %r but '
                'scales by %r: %s' % (
                    'angle' if kind == 'turn' else 'step count', a, b,
                    'angles between the two are sent as if they were past a '
                    'full turn' if kind == 'turn' else
                    'the top step counts are folded onto the wrong steps'))
    # the factor itself: FixedPoint(T, n) divides by 2**n for *every* n the
    # constructor can be given (0 included), and by 2**5 when n is omitted
    from ..fold import ClassVal, FoldRaise
    fp = db.get_class(BASIC, 'FixedPoint')
    integer = ClassVal(db.get_class(BASIC, 'Integer'))
    init = db.own_method(fp, '__init__')
    from ..fold import Env
    badn = []
    cases = [((integer,), {}, 32)] + \
        [((integer, k), {}, 2 ** k) for k in range(0, 33)] + \
        [((integer,), {'fractional_bits': k}, 2 ** k) for k in (0, 1, 12)]
    for args, kw, want in cases:
        try:
            inst = F.instantiate(ClassVal(fp), list(args), dict(kw), fp.node,
                                 Env(fp.module))
            got = F.getattr(inst, 'denominator', fp.node, fp.module)
        except FoldRaise as e:
            got = 'raises %s' % e.exc_type
        if got != want:
            badn.append((args[1:] or kw or 'default', got, want))
    n += 1
    if badn:
        report.violation(
            R, 'scaling:FixedPoint:denominator', fp.path,
            init.node if init is not None else fp.node,
            'FixedPoint.__init__', 'FixedPoint(Integer, %s).denominator '
            'folds to %r, the format prescribes %r (%d of %d constructor '
            'cases differ)' % (badn[0][0], badn[0][1], badn[0][2], len(badn),
                               len(cases)))
    else:
        report.ok(R, 'FixedPoint(T, n).denominator = 2**n for n = 0..32, '
                  '32 by default (%d constructor cases folded)' % len(cases))
    # Pitch: value /= k and value *= k under the same version predicate
    pci = db.get_class(pairs[2][0], 'SoundEffectPacket.Pitch')
    rd = db.own_method(pci, 'read_with_context')
    sd = db.own_method(pci, 'send_with_context')
    if rd is None or sd is None:
        raise AnalysisError('SoundEffectPacket.Pitch codec vanished')
    n += 1
    # per path: under which version decisions which factor reaches the value
    # that is returned (read) / handed to the wire type (send)
    from .. import shared as _sh
    from ..callgraph import CallGraph as _CG
    from ..pathsum import struct as _st, show as _show
    S = _sh.summariser(db, _CG(db), implicit_raises=False)

    def factor(t, base_ok):
        """(op, constant) applied to a base value, or ('id', 1)"""
        while t[0] == 'op' and t[1] in ('int', 'float') and len(t[2]) == 1:
            t = t[2][0]
        if t[0] == 'op' and t[1] in ('/', '*') and len(t[2]) == 2 and \
                t[2][1][0] == 'const' and base_ok(t[2][0]):
            return (t[1], t[2][1][1])
        if base_ok(t):
            return ('id', 1)
        return None

    def vkey(p):
        return tuple(sorted((_sh.version_atom(a), pol) for a, pol, _ in
                            p.conds if _sh.version_atom(a) is not None))
    rmap, smap = {}, {}
    for p in S.run(rd):
        if p.returns:
            rmap[vkey(p)] = factor(
                p.value, lambda b: b[0] == 'call' and any(
                    isinstance(x, tuple) for x in b))
    sval = ('sym', sd.all_params[0])
    for p in S.run(sd):
        sends = [e for e in p.flat(('call',)) if e.method() == 'send'
                 and e.args]
        if len(sends) == 1:
            smap[vkey(p)] = factor(sends[0].args[0],
                                   lambda b: _st(b) == sval)
    inv = {'/': '*', '*': '/', 'id': 'id'}
    okp = bool(rmap) and set(rmap) == set(smap) and all(
        rmap[k] is not None and smap[k] is not None
        and inv[rmap[k][0]] == smap[k][0] and rmap[k][1] == smap[k][1]
        for k in rmap) and any(v[0] != 'id' for v in rmap.values())
    if okp:
        report.ok(R, 'Pitch: on every path the factor applied on read is '
                  'undone on send under the same version decisions (%d '
                  'version arms)' % len(rmap))
    else:
        report.violation(R, 'scaling:SoundEffectPacket.Pitch', sd.path,
                         sd.node, sd.qualname,
                         'per version arm, read applies %s but send applies '
                         '%s: not inverse of each other' % (
                             sorted((str(k), v) for k, v in rmap.items()),
                             sorted((str(k), v) for k, v in smap.items())))
    report.floor('scaling codec pairs', n, 5)


def fold_name(db, fi, x):
    """a module-level constant named in an expression, as its literal"""
    if isinstance(x, ast.Name):
        try:
            ent = db.resolve_dotted(fi.module, x)
        except AnalysisError:
            return x
        if isinstance(ent, tuple) and ent[0] == 'value' and isinstance(
                ent[1], ast.Constant):
            return ent[1]
    return x


def sym_of(n):
    if isinstance(n, ast.Attribute) and isinstance(n.value, ast.Name) and \
            n.value.id == 'self':
        return 'self.' + n.attr
    return None


def read_scaling(fi):
    try:
        val, effects, _ = terms.straight_line_value(fi)
    except AnalysisError:
        return None

    def is_input(n):
        return isinstance(n, ast.Call) and isinstance(n.func, ast.Attribute) \
            and n.func.attr == 'read'
    # unwrap Vector(*(expr for i in range(3))) style
    for x in ast.walk(val):
        if isinstance(x, ast.GeneratorExp):
            val = x.elt
            break
    return ranges.scaling(val, is_input, sym_of)


def send_scaling(fi):
    vparam = fi.all_params[1] if fi.kind in ('instance', 'class') else \
        fi.all_params[0]
    inner = None
    loopvar = None
    for n in ast.walk(fi.node):
        if isinstance(n, ast.For) and isinstance(n.iter, ast.Name) and \
                n.iter.id == vparam and isinstance(n.target, ast.Name):
            loopvar = n.target.id
    for n in ast.walk(fi.node):
        if isinstance(n, ast.Call) and isinstance(n.func, ast.Attribute) and \
                n.func.attr == 'send' and n.args:
            inner = n.args[0]
            break
    if inner is None:
        return None
    names = {vparam, loopvar}

    def is_input(n):
        return isinstance(n, ast.Name) and n.id in names
    return ranges.scaling(inner, is_input, sym_of)


def aug_scalings(fi):
    out = []
    for n in ast.walk(fi.node):
        if isinstance(n, ast.If):
            for st in n.body:
                if isinstance(st, ast.AugAssign) and isinstance(
                        st.op, (ast.Mult, ast.Div)) and \
                        isinstance(st.value, ast.Constant):
                    out.append((ast.unparse(n.test), type(st.op).__name__,
                                st.value.value))
    return out


# ---------------------------------------------------------------------------
def r7(report, db, type_ci):
    R = report.rule('R02.7', 'context-aware dispatch forwards to read/send '
                    'with the context dropped; every wire type overrides one '
                    'of each pair')
    rwc = db.own_method(type_ci, 'read_with_context')
    swc = db.own_method(type_ci, 'send_with_context')
    base_r = db.own_method(type_ci, 'read')
    base_s = db.own_method(type_ci, 'send')
    if None in (rwc, swc, base_r, base_s):
        raise AnalysisError('Type dispatch methods vanished', type_ci.node,
                            rel(type_ci.path))
    for fi, meth, nargs in ((rwc, 'read', 1), (swc, 'send', 2)):
        val, effects, _ = terms.straight_line_value(fi)
        ok = (isinstance(val, ast.Call) and isinstance(val.func,
                                                       ast.Attribute)
              and val.func.attr == meth
              and isinstance(val.func.value, ast.Name)
              and val.func.value.id == fi.all_params[0]
              and len(val.args) == nargs and not val.keywords
              and [getattr(a, 'id', None) for a in val.args] ==
              fi.params[1:1 + nargs])
        if ok:
            report.ok(R, 'Type.%s -> %s' % (fi.name, ast.unparse(val)))
        else:
            report.violation(R, 'dispatch:Type.%s' % fi.name, fi.path,
                             fi.node, fi.qualname,
                             'does not forward to %s(%s) of the receiver'
                             % (meth, ', '.join(fi.params[1:1 + nargs])))
    n = 0
    for ci in db.subclasses(type_ci):
        n += 1
        for a, b, base_a, base_b in (('read', 'read_with_context', base_r,
                                      rwc),
                                     ('send', 'send_with_context', base_s,
                                      swc)):
            ma, mb = db.find_method(ci, a), db.find_method(ci, b)
            if ma is base_a and mb is base_b:
                report.violation(R, 'abstract:%s.%s' % (ci.qualname, a),
                                 ci.path, ci.node, ci.qualname,
                                 'overrides neither %s nor %s: any use '
                                 'raises NotImplementedError' % (a, b))
            else:
                report.ok(R)
    report.floor("wire type classes", n, 27)


# ---------------------------------------------------------------------------
def r8(report, db, basic, ref):
    R = report.rule('R02.8', 'UUID: 16 raw bytes, big-endian field order, on '
                    'both sides')
    ci = basic.classes.get('UUID')
    if ci is None:
        raise AnalysisError('UUID wire type vanished')
    rd, sd = db.own_method(ci, 'read'), db.own_method(ci, 'send')
    val, eff, _ = terms.straight_line_value(rd)
    calls = [x for x in ast.walk(val) if is_call_to(x, 'uuid.UUID')]
    if len(calls) != 1:
        raise AnalysisError('unrecognised UUID.read idiom', rd.node,
                            rel(rd.path))
    kws = {k.arg: k.value for k in calls[0].keywords}
    raw = kws.get(ref['uuid']['field'])
    if raw is None or calls[0].args:
        report.violation(R, 'uuid:read', rd.path, rd.node, rd.qualname,
                         'UUID is not built from the `bytes` field '
                         '(big-endian order): %s' % ast.unparse(calls[0]))
    elif not (isinstance(raw, ast.Call) and len(raw.args) == 1 and
              isinstance(raw.args[0], ast.Constant) and
              raw.args[0].value == ref['uuid']['size']):
        report.violation(R, 'uuid:read-size', rd.path, rd.node, rd.qualname,
                         'does not read exactly 16 bytes: %s'
                         % ast.unparse(raw))
    else:
        report.ok(R, 'UUID.read: uuid.UUID(bytes=read(16))')
    val, eff, _ = terms.straight_line_value(sd)
    okk = False
    if len(eff) == 1 and isinstance(eff[0], ast.Call) and eff[0].args:
        a = eff[0].args[0]
        if isinstance(a, ast.Attribute) and a.attr == 'bytes' and \
                is_call_to(a.value, 'uuid.UUID'):
            okk = True
    if okk:
        report.ok(R, 'UUID.send: uuid.UUID(v).bytes')
    else:
        report.violation(R, 'uuid:send', sd.path, sd.node, sd.qualname,
                         'does not send the `bytes` field of the UUID')
