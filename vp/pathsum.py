"""E11 -- path-sensitive effect summaries (abstract interpretation over a
term domain).

A function is walked along every structured path (if / conditional
expression / short-circuit operators fork; try/except follows explicit raises
into their handlers and, optionally, forks an "this call raised" path per
handler; loops over literal sequences are unrolled, other loops are
summarised once with their written variables havocked).  Along a path the
walker keeps

  * the values of locals and of the attributes it has seen stored, as *terms*
    over the parameters (so `x = self.a; f(x)` and `f(self.a)` are the same
    call, and a value built through three temporaries or a keyword
    constructor is the same term),
  * the branch decisions taken, split into atomic literals in a normal form
    (`a != b` is `not a == b`, `len(q) == 0` is `not q`, `x > y` is `y < x`),
  * the ordered list of *effects*: calls that are not inlined, attribute and
    item stores, context-manager entry/exit, loops, yields,
  * the outcome: return value, raised exception, or falling off the end.

In-repo callees chosen by the rule are inlined (bounded depth, no
recursion); property getters, constructors of in-repo classes and local
closures are always inlined.  Nothing is executed and no constraint is
solved: conditions are only compared syntactically, after normalisation, with
the decisions already on the path.

Rules are then statements about the set of path summaries ("on every path
that returns normally, the stores to self.* come after the call of the error
check", "the only paths that reach close() have interrupt == False in their
condition"), which do not depend on how the source spells the path."""
import ast
import copy
import itertools

from .common import AnalysisError, rel
from .srcdb import ClassInfo, FuncInfo, Module, External

BOT = ('bot',)
PURE_BUILTINS = {
    'len', 'str', 'int', 'bool', 'float', 'repr', 'min', 'max', 'sorted',
    'tuple', 'list', 'dict', 'set', 'frozenset', 'range', 'enumerate', 'zip',
    'format', 'hex', 'abs', 'ord', 'chr', 'bytes', 'bytearray', 'type',
    'isinstance', 'issubclass', 'hasattr', 'id', 'hash', 'callable', 'any',
    'all', 'sum', 'reversed', 'iter', 'map', 'filter', 'divmod', 'round',
    'object', 'memoryview', 'slice', 'vars', 'dir'}
# pure builtins that refuse some arguments (and what they raise, when that is
# one class): inside a try block the refusing path is followed
RAISING_BUILTINS = {'hash': 'TypeError', 'int': None, 'float': None,
                    'ord': 'TypeError', 'chr': None}
NOT_NONE = ('obj', 'tuple', 'list', 'dict', 'set', 'fn', 'cls', 'partial',
            'methodcaller', 'attrgetter', 'itemgetter', 'ntcls', 'nt', 'ext',
            'mod', 'gen')
RE_METHODS = {'match', 'search', 'fullmatch', 'sub', 'subn', 'split',
              'findall', 'finditer'}
MUTATORS = {'append', 'add', 'update', 'extend', 'insert', 'pop', 'remove',
            'clear', 'setdefault', 'appendleft', 'popleft', 'discard',
            'popitem', 'sort', 'reverse', 'extendleft', 'rotate'}
BOOLEAN_OPS = {'==', '!=', 'is', 'isnot', 'in', 'notin', '<', '<=', '>', '>=',
               'not', 'isinstance', 'issubclass', 'hasattr', 'callable',
               'bool', 'truth', 'any', 'all'}


def _const_tuple(a):
    """python tuple of a constant tuple term (None: not one)"""
    if a[0] == 'const' and isinstance(a[1], tuple):
        return a[1]
    if a[0] == 'tuple' and all(x[0] == 'const' for x in a[1]):
        return tuple(x[1] for x in a[1])
    return None


def none_or_truthy(t):
    """values that are either None or an object that is always true:
    the result of re.match / search / fullmatch"""
    return t[0] == 'call' and t[1][0] == 'ext' and t[1][1] in (
        're.match', 're.search', 're.fullmatch')


def never_none(t):
    """library values that are never None: the text forms of a fresh UUID
    (uuid.uuid4().hex, str(uuid.uuid4())), the result of str() / len() /
    bytes() / int()"""
    if t[0] == 'attr' and t[2] in ('hex', 'bytes', 'int', 'urn') and \
            t[1][0] == 'call' and t[1][1][0] == 'ext' and \
            t[1][1][1].startswith('uuid.uuid'):
        return True
    if t[0] == 'op' and t[1] in ('str', 'len', 'bytes', 'int', 'repr',
                                 'concat', 'format', 'type'):
        return True
    return False


def is_boolean(t):
    """the term can only be True or False"""
    return (t[0] == 'op' and t[1] in BOOLEAN_OPS) or (
        t[0] == 'const' and isinstance(t[1], bool))


CONST_STR_METHODS = {
    'upper', 'lower', 'strip', 'lstrip', 'rstrip', 'title', 'capitalize',
    'encode', 'replace', 'startswith', 'endswith', 'split', 'rsplit',
    'partition', 'rpartition', 'zfill', 'ljust', 'rjust', 'swapcase',
    'isdigit', 'isalpha', 'find', 'index', 'count', 'removeprefix',
    'removesuffix', 'casefold'}
BUILTIN_EXC = {
    'BaseException': None, 'Exception': 'BaseException',
    'ArithmeticError': 'Exception', 'LookupError': 'Exception',
    'AssertionError': 'Exception', 'AttributeError': 'Exception',
    'EOFError': 'Exception', 'OSError': 'Exception', 'IOError': 'Exception',
    'EnvironmentError': 'Exception', 'ImportError': 'Exception',
    'IndexError': 'LookupError', 'KeyError': 'LookupError',
    'NameError': 'Exception', 'RuntimeError': 'Exception',
    'NotImplementedError': 'RuntimeError', 'StopIteration': 'Exception',
    'TypeError': 'Exception', 'ValueError': 'Exception',
    'UnicodeError': 'ValueError', 'UnicodeDecodeError': 'UnicodeError',
    'ZeroDivisionError': 'ArithmeticError', 'OverflowError':
    'ArithmeticError', 'KeyboardInterrupt': 'BaseException',
    'SystemExit': 'BaseException', 'GeneratorExit': 'BaseException',
    'ConnectionError': 'OSError', 'TimeoutError': 'OSError',
    'BrokenPipeError': 'ConnectionError', 'struct.error': 'Exception',
    'socket.error': 'Exception', 'socket.timeout': 'OSError',
    'zlib.error': 'Exception'}
OS_ALIASES = {'IOError', 'EnvironmentError', 'socket.error', 'OSError'}


# ---------------------------------------------------------------------------
# terms
def sym(n):
    return ('sym', n)


def const(v):
    try:
        hash(v)
    except TypeError:
        v = repr(v)
    return ('const', v)


NONE = ('const', None)
TRUE = ('const', True)
FALSE = ('const', False)


def op(name, *args):
    return ('op', name, tuple(args))


def is_const(t):
    return isinstance(t, tuple) and t and t[0] == 'const'


def struct(t):
    """The term with allocation / call identities erased (structure only)."""
    if not isinstance(t, tuple) or not t:
        return t
    k = t[0]
    if k == 'call':
        return ('call', struct(t[1]), struct(t[2]), struct(t[3]), None)
    if k == 'obj':
        return ('obj', None, t[2], t[3])
    if k in ('elem', 'phi', 'exc'):
        return (k, struct(t[1]), None)
    if k == 'fn':
        return ('fn', t[1], struct(t[2]))
    if k == 'closure':
        return t[:2]
    return tuple(struct(x) if isinstance(x, tuple) else x for x in t)


def subterms(t):
    """t and every term inside it (argument tuples are entered but not
    yielded)."""
    if isinstance(t, tuple):
        if t and isinstance(t[0], str):
            yield t
        for x in t:
            if isinstance(x, tuple):
                for y in subterms(x):
                    yield y


def show(t, _depth=0):
    if not isinstance(t, tuple) or not t:
        return repr(t)
    k = t[0]
    if k == 'call' and _depth >= 2:
        return '%s(..)#%s' % (show(t[1], _depth + 1), t[4])
    if k == 'sym':
        return t[1]
    if k == 'const':
        return repr(t[1])
    if k == 'attr':
        return '%s.%s' % (show(t[1]), t[2])
    if k == 'call':
        a = [show(x, _depth + 1) for x in t[2]] + [
            '%s=%s' % (n, show(v, _depth + 1)) for n, v in t[3]]
        return '%s(%s)' % (show(t[1], _depth + 1), ', '.join(a))
    if k == 'obj':
        return '<%s#%s>' % (t[2], t[1])
    if k in ('tuple', 'list', 'set'):
        o, c = {'tuple': '()', 'list': '[]', 'set': '{}'}[k]
        return o + ', '.join(show(x) for x in t[1]) + c
    if k == 'dict':
        return '{%s}' % ', '.join('%s: %s' % (show(a), show(b))
                                  for a, b in t[1])
    if k == 'op':
        n, a = t[1], t[2]
        if n == 'not':
            return 'not ' + show(a[0])
        if n == 'truth':
            return show(a[0])
        if n == 'index':
            return '%s[%s]' % (show(a[0]), show(a[1]))
        if n == 'concat':
            return ' ++ '.join(show(x) for x in a)
        if len(a) == 2:
            return '(%s %s %s)' % (show(a[0]), n, show(a[1]))
        return '%s(%s)' % (n, ', '.join(show(x) for x in a))
    if k == 'fn':
        q = getattr(t[1], 'qualname', '?')
        if isinstance(t[2], tuple) and t[2] and t[2][0] == 'closure':
            return q
        return ('%s.' % show(t[2]) if t[2] is not None else '') + q
    if k == 'cls':
        return t[1].qualname
    if k == 'ext':
        return t[1]
    if k == 'mod':
        return t[1]
    if k == 'glob':
        return '%s' % t[2]
    if k == 'builtin':
        return t[1]
    if k == 'elem':
        return 'elem(%s)' % show(t[1])
    if k == 'phi':
        return '%s*' % t[1]
    if k == 'exc':
        return '<caught %s>' % (t[1],)
    if k == 'bot':
        return '_|_'
    if k == 'unbound':
        return '<unbound local %s>' % t[1]
    return repr(t)


# ---------------------------------------------------------------------------
class Ev(object):
    """One effect on a path."""
    __slots__ = ('kind', 'node', 'fi', 'held', 'loops', 'nconds', 'fn',
                 'args', 'kwargs', 'res', 'targets', 'base', 'attr', 'key',
                 'value', 'ctx', 'paths', 'intry', 'pre', 'phis', 'raised')

    def __init__(self, kind, node, fi, st, **kw):
        self.kind = kind
        self.raised = False     # the call did not return (raised instead)
        self.node = node
        self.fi = fi
        self.held = tuple(st.held)
        self.loops = tuple(st.loops)
        self.nconds = len(st.conds)
        self.intry = st.try_depth
        for s in ('fn', 'args', 'kwargs', 'res', 'targets', 'base', 'attr',
                  'key', 'value', 'ctx', 'paths', 'pre', 'phis'):
            setattr(self, s, kw.get(s))

    def calls(self, fi):
        return self.kind == 'call' and any(t is fi for t in self.targets
                                           or ())

    def method(self):
        """name of the called attribute, for `recv.name(...)` calls"""
        if self.kind == 'call' and self.fn[0] == 'attr':
            return self.fn[2]
        if self.kind == 'call' and self.fn[0] == 'fn':
            return self.fn[1].name
        return None

    def __repr__(self):
        if self.kind == 'call':
            a = [show(x) for x in self.args] + [
                '%s=%s' % (k, show(v)) for k, v in self.kwargs]
            return 'call %s(%s)' % (show(self.fn), ', '.join(a))
        if self.kind == 'store':
            return 'store %s.%s = %s' % (show(self.base), self.attr,
                                         show(self.value))
        if self.kind == 'setitem':
            return 'setitem %s[%s] = %s' % (show(self.base), show(self.key),
                                            show(self.value))
        if self.kind == 'delitem':
            return 'delitem %s[%s]' % (show(self.base), show(self.key))
        if self.kind in ('enter', 'exit'):
            return '%s %s' % (self.kind, show(self.ctx))
        if self.kind == 'loop':
            return 'loop over %s (%d body paths)' % (show(self.ctx),
                                                     len(self.paths))
        if self.kind == 'yield':
            return 'yield %s' % show(self.value)
        return self.kind


import operator as _opr
_LIT_BINOPS = {ast.Add: _opr.add, ast.Sub: _opr.sub, ast.Mult: _opr.mul,
               ast.FloorDiv: _opr.floordiv, ast.Mod: _opr.mod,
               ast.Pow: _opr.pow, ast.LShift: _opr.lshift,
               ast.RShift: _opr.rshift, ast.BitOr: _opr.or_,
               ast.BitAnd: _opr.and_, ast.BitXor: _opr.xor}


class St(object):
    __slots__ = ('frames', 'heap', 'conds', 'events', 'held', 'loops',
                 'outcome', 'try_depth', 'notes', 'cond_held', 'yielders')

    def __init__(self):
        self.frames = [{}]
        self.heap = {}
        self.conds = []         # (atom term, polarity, ast node)
        self.events = []
        self.held = []
        self.loops = []
        self.outcome = None
        self.try_depth = 0
        self.notes = []
        self.cond_held = []     # locks held when each decision was taken
        self.yielders = []      # for-loops consuming generators being run

    @property
    def env(self):
        return self.frames[-1]

    def fork(self):
        s = St()
        s.frames = [dict(f) for f in self.frames]
        s.heap = dict(self.heap)
        s.conds = list(self.conds)
        s.events = list(self.events)
        s.held = list(self.held)
        s.loops = list(self.loops)
        s.outcome = self.outcome
        s.try_depth = self.try_depth
        s.notes = list(self.notes)
        s.cond_held = list(self.cond_held)
        s.yielders = list(self.yielders)
        return s


class Path(object):
    """Summary of one path."""

    def __init__(self, st):
        self.conds = st.conds
        self.events = st.events
        self.outcome = st.outcome or ('fall',)
        self.env = st.frames[0]
        self.heap = st.heap
        self.notes = st.notes
        self.cond_held = st.cond_held

    # outcome helpers ------------------------------------------------------
    @property
    def returns(self):
        return self.outcome[0] in ('return', 'fall')

    @property
    def raises(self):
        return self.outcome[0] == 'raise'

    @property
    def value(self):
        if self.outcome[0] == 'return':
            return self.outcome[1]
        if self.outcome[0] == 'fall':
            return NONE
        return None

    def flat(self, kinds=None):
        """Events in order, descending into loop bodies (each body path's
        events follow the loop event)."""
        out = []

        def rec(evs):
            for e in evs:
                if kinds is None or e.kind in kinds:
                    out.append(e)
                if e.kind == 'loop':
                    for p in e.paths:
                        rec(p.events)
        rec(self.events)
        return out

    def calls(self, pred=None):
        return [e for e in self.flat(('call',)) if pred is None or pred(e)]

    def stores(self, attr=None):
        return [e for e in self.flat(('store',))
                if attr is None or e.attr == attr]

    def conds_at(self, ev):
        return self.conds[:ev.nconds]

    def cond_text(self, upto=None):
        cs = self.conds if upto is None else self.conds[:upto]
        return ' and '.join(('' if p else 'not ') + show(a)
                            for a, p, _ in cs) or 'always'

    def has_cond(self, pred, polarity=None):
        return any(pred(a) and (polarity is None or p == polarity)
                   for a, p, _ in self.conds)

    def __repr__(self):
        return '<path [%s] %d events -> %s>' % (
            self.cond_text(), len(self.events),
            self.outcome[0] + (' ' + show(self.outcome[1])
                               if len(self.outcome) > 1 and isinstance(
                                   self.outcome[1], tuple) else ''))


# ---------------------------------------------------------------------------
class Budget(Exception):
    pass


RUNS = {}       # function -> number of path summaries (for the evidence)


class PathSum(object):
    def __init__(self, db, cg, inline=(), opaque=(), max_paths=6000,
                 implicit_raises=True, max_depth=5, unroll=8,
                 inline_pred=None):
        self.db = db
        self.cg = cg
        self.inline = set(inline)
        self.opaque = set(opaque)
        self.inline_pred = inline_pred
        self.max_paths = max_paths
        self.implicit = implicit_raises
        self.unbound_raises = True
        self.max_depth = max_depth
        self.unroll = unroll
        self.uid = itertools.count(1)
        self.stack = []
        self.nstates = 0

    def err(self, msg, node, fi):
        return AnalysisError('pathsum(%s): %s' % (fi.qualname, msg), node,
                             rel(fi.path))

    # -- entry -------------------------------------------------------------
    def run(self, fi, args=None, self_term=None, heap=None, exact_self=None):
        """Path summaries of fi called with symbolic arguments (default: one
        symbol per parameter); `heap` pre-sets attribute values.  exact_self:
        the receiver is an instance of exactly this class (a class-level
        constant then resolves through *its* MRO, whatever subclasses or
        superclasses define under the same name)."""
        self.exact_self = (exact_self, fi.params[0]) if exact_self is not \
            None and fi.params else None
        try:
            return self._run(fi, args, self_term, heap)
        finally:
            self.exact_self = None

    def _run(self, fi, args=None, self_term=None, heap=None):
        st = St()
        if heap:
            st.heap.update(heap)
        a = fi.node.args
        params = [x.arg for x in a.posonlyargs + a.args]
        env = st.env
        env['<frame>'] = next(self.uid)
        for i, p in enumerate(params):
            if args is not None and p in args:
                env[p] = args[p]
            elif i == 0 and self_term is not None and fi.cls is not None:
                env[p] = self_term
            else:
                env[p] = sym(p)
        ndef = len(a.defaults)
        for x in a.kwonlyargs:
            env[x.arg] = args[x.arg] if args and x.arg in args else sym(x.arg)
        if a.vararg:
            env[a.vararg.arg] = sym('*' + a.vararg.arg)
        if a.kwarg:
            env[a.kwarg.arg] = sym('**' + a.kwarg.arg)
        self.stack = [fi]
        try:
            outs = self.block(fi.body, [st], fi)
        except Budget:
            raise self.err('path budget (%d) exhausted' % self.max_paths,
                           fi.node, fi)
        except RecursionError:
            raise self.err('expression too deep', fi.node, fi)
        paths = []
        for s in outs:
            if s.outcome is not None and s.outcome[0] in ('break',
                                                          'continue'):
                raise self.err('break/continue outside a loop', fi.node, fi)
            paths.append(Path(s))
        RUNS['%s:%s' % (fi.module.name.split('.')[-1], fi.qualname)] = \
            len(paths)
        return paths

    def run_then(self, fi, cont, args=None):
        """Path summaries of a continuation: fi runs with symbolic
        arguments; for each path that returns, cont(self, state, value) ->
        [(state, term)] goes on from there (closures made by fi still see
        its frame).  The summaries hold only what the continuation did."""
        st = St()
        a = fi.node.args
        env = st.env
        env['<frame>'] = next(self.uid)
        for p in [x.arg for x in a.posonlyargs + a.args + a.kwonlyargs]:
            env[p] = args[p] if args and p in args else sym(p)
        if a.vararg:
            env[a.vararg.arg] = (args or {}).get(
                a.vararg.arg, sym('*' + a.vararg.arg))
        if a.kwarg:
            env[a.kwarg.arg] = (args or {}).get(
                a.kwarg.arg, sym('**' + a.kwarg.arg))
        self.stack = [fi]
        try:
            outs = self.block(fi.body, [st], fi)
            paths = []
            for s in outs:
                if s.outcome is None or s.outcome[0] != 'return':
                    continue
                v = s.outcome[1]
                s.outcome = None
                s.events = []
                s.conds = []
                s.cond_held = []
                for s2, t in cont(self, s, v):
                    if s2.outcome is None:
                        s2.outcome = ('return', t, fi.node)
                    paths.append(Path(s2))
        except Budget:
            raise self.err('path budget (%d) exhausted' % self.max_paths,
                           fi.node, fi)
        return paths

    # -- statements ----------------------------------------------------------
    def block(self, stmts, states, fi):
        for n in stmts:
            nxt = []
            for s in states:
                if s.outcome is not None:
                    nxt.append(s)
                else:
                    nxt.extend(self.stmt(n, s, fi))
            states = nxt
            self.nstates = max(self.nstates, len(states))
            if len(states) > self.max_paths:
                raise Budget()
        return states

    def stmt(self, n, st, fi):
        if isinstance(n, ast.Expr):
            if isinstance(n.value, ast.Constant):
                return [st]
            if isinstance(n.value, (ast.Yield, ast.YieldFrom)):
                v = n.value.value
                outs = self.ev(v, st, fi) if v is not None else [(st, NONE)]
                res = []
                for s, t in outs:
                    if s.outcome is None and s.yielders and isinstance(
                            n.value, ast.Yield):
                        res.extend(self.yield_to(t, s))
                        continue
                    self.emit(s, Ev('yield', n, fi, s, value=t))
                    res.append(s)
                return res
            return [s for s, _ in self.ev(n.value, st, fi)]
        if isinstance(n, ast.Assign):
            out = []
            for s, v in self.ev(n.value, st, fi):
                ss = [s]
                for t in n.targets:
                    nx = []
                    for s2 in ss:
                        nx.extend(self.assign(t, v, s2, fi, n))
                    ss = nx
                out.extend(ss)
            return out
        if isinstance(n, ast.AnnAssign):
            if n.value is None:
                return [st]
            out = []
            for s, v in self.ev(n.value, st, fi):
                out.extend(self.assign(n.target, v, s, fi, n))
            return out
        if isinstance(n, ast.AugAssign):
            load = self._as_load(n.target)
            out = []
            for s, cur in self.ev(load, st, fi):
                for s2, v in self.ev(n.value, s, fi):
                    nv = self.binop(type(n.op).__name__, cur, v)
                    out.extend(self.assign(n.target, nv, s2, fi, n))
            return out
        if isinstance(n, ast.If):
            out = []
            for s, truth in self.branch(n.test, st, fi):
                if s.outcome is not None:
                    out.append(s)
                    continue
                out.extend(self.block(n.body if truth else n.orelse, [s], fi))
            return out
        if isinstance(n, ast.Return):
            if n.value is None:
                st.outcome = ('return', NONE, n)
                return [st]
            out = []
            for s, v in self.ev(n.value, st, fi):
                if s.outcome is None:
                    if v[0] == 'op' and is_boolean(v):
                        # a bool whose truth the path knows is that constant
                        a, pol = self.atom(v)
                        d = self.decide(a, s)
                        if d is not None:
                            v = const(d == pol)
                    s.outcome = ('return', v, n)
                out.append(s)
            return out
        if isinstance(n, ast.Raise):
            if n.exc is None:
                cur = st.env.get('<exc>', ('exc', None, next(self.uid)))
                st.outcome = ('raise', cur, n)
                return [st]
            out = []
            for s, v in self.ev(n.exc, st, fi):
                if s.outcome is not None:
                    out.append(s)
                    continue
                if v[0] == 'cls':
                    # `raise E` instantiates E()
                    for s2, o in self.construct(v[1], [], {}, s, fi, n):
                        if s2.outcome is None:
                            s2.outcome = ('raise', o, n)
                        out.append(s2)
                    continue
                if v[0] in ('ext', 'builtin'):
                    v = ('call', v, (), (), next(self.uid))
                s.outcome = ('raise', v, n)
                out.append(s)
            return out
        if isinstance(n, ast.Pass):
            return [st]
        if isinstance(n, (ast.Break, ast.Continue)):
            st.outcome = ('break',) if isinstance(n, ast.Break) \
                else ('continue',)
            return [st]
        if isinstance(n, (ast.For, ast.While)):
            return self.loop(n, st, fi)
        if isinstance(n, ast.Try):
            return self.try_(n, st, fi)
        if isinstance(n, ast.With):
            return self.with_(n, st, fi)
        if isinstance(n, ast.Assert):
            out = []
            for s, truth in self.branch(n.test, st, fi):
                if s.outcome is None and not truth:
                    s.outcome = ('raise', ('call', ('builtin',
                                                    'AssertionError'), (),
                                           (), next(self.uid)), n)
                out.append(s)
            return out
        if isinstance(n, ast.Delete):
            ss = [st]
            for t in n.targets:
                nx = []
                for s in ss:
                    if isinstance(t, ast.Subscript):
                        for s2, b in self.ev(t.value, s, fi):
                            for s3, k in self.ev(t.slice, s2, fi):
                                ev = Ev('delitem', n, fi, s3, base=b, key=k)
                                if self.implicit and s3.try_depth > 0 and \
                                        s3.outcome is None:
                                    # del d[k] inside a try: the key may be
                                    # missing
                                    r = s3.fork()
                                    rev = copy.copy(ev)
                                    rev.raised = True
                                    r.events.append(rev)
                                    r.outcome = ('raise', (
                                        'call', ('builtin', 'KeyError'),
                                        (k,), (), next(self.uid)), n,
                                        'lookup')
                                    nx.append(r)
                                self.emit(s3, ev)
                                nx.append(s3)
                    elif isinstance(t, ast.Attribute):
                        for s2, b in self.ev(t.value, s, fi):
                            self.emit(s2, Ev('store', n, fi, s2, base=b,
                                             attr=t.attr,
                                             value=('deleted',)))
                            s2.heap[(b, t.attr)] = ('deleted',)
                            nx.append(s2)
                    else:
                        if isinstance(t, ast.Name):
                            s.env.pop(t.id, None)
                        nx.append(s)
                ss = nx
            return ss
        if isinstance(n, (ast.FunctionDef, ast.AsyncFunctionDef)):
            sub = self._nested_func(n, fi)
            cid = next(self.uid)
            st.env[n.name] = ('fn', sub, ('closure', id(n), cid))
            # the function object remembers the frame it was made in
            st.notes.append(('closure', n.name, dict(st.env), cid,
                             st.env.get('<frame>')))
            return [st]
        if isinstance(n, ast.ClassDef):
            st.env[n.name] = sym('<local class %s>' % n.name)
            return [st]
        if isinstance(n, (ast.Import, ast.ImportFrom)):
            for a in n.names:
                nm = (a.asname or a.name).split('.')[0]
                st.env[nm] = ('ext', a.name if isinstance(n, ast.Import)
                              else '%s.%s' % (n.module, a.name))
            return [st]
        if isinstance(n, (ast.Global, ast.Nonlocal)):
            return [st]
        raise self.err('unsupported statement %s' % type(n).__name__, n, fi)

    def yield_to(self, value, st):
        """The generator being run yields `value`: the body of the loop
        that consumes it runs now, in the consumer's frame."""
        h = st.yielders[-1]
        n, cfi, idx = h['node'], h['fi'], h['frame']
        saved_frames = st.frames[idx + 1:]
        saved_y = st.yielders
        st.frames = st.frames[:idx + 1]
        st.yielders = st.yielders[:-1]
        outs = []
        for s2 in self.assign(n.target, value, st, cfi, n):
            outs.extend(self.block(n.body, [s2], cfi))
        res = []
        for o in outs:
            o.frames = o.frames[:idx + 1] + [dict(f) for f in saved_frames]
            o.yielders = list(saved_y)
            oc = o.outcome
            if oc is None or oc[0] == 'continue':
                o.outcome = None
            elif oc[0] == 'break':
                o.outcome = ('genbreak', id(n))
            elif oc[0] in ('return', 'raise'):
                o.outcome = ('genleave', id(n), oc)
            res.append(o)
        return res

    def iterate_generator(self, n, st, gen, fi):
        """for <target> in <generator object>: run the generator's body;
        each yield runs the loop body (see yield_to)."""
        target, args, kwargs = gen[1], list(gen[2]), dict(gen[3])
        st.yielders.append(dict(node=n, fi=fi, frame=len(st.frames) - 1))
        res = self.invoke(target, args, kwargs, st, fi, n)
        out = []
        for s2, _ in res:
            if s2.yielders and s2.yielders[-1]['node'] is n:
                s2.yielders.pop()
            oc = s2.outcome
            if oc is not None and oc[0] == 'genbreak' and oc[1] == id(n):
                s2.outcome = None
                out.append(s2)
            elif oc is not None and oc[0] == 'genleave' and oc[1] == id(n):
                s2.outcome = oc[2]
                out.append(s2)
            elif oc is None:
                if n.orelse:
                    out.extend(self.block(n.orelse, [s2], fi))
                else:
                    out.append(s2)
            else:
                out.append(s2)
        return out

    @staticmethod
    def _as_load(t):
        import copy
        t2 = copy.deepcopy(t)
        for x in ast.walk(t2):
            if hasattr(x, 'ctx'):
                x.ctx = ast.Load()
        return t2

    def _nested_func(self, node, fi):
        for f in self.db.funcs:
            if f.node is node:
                return f
        return FuncInfo(getattr(node, 'name', '<lambda>'), node, fi.module,
                        cls=None, kind='function', outer=fi)

    def emit(self, st, ev):
        if st.outcome is None:
            st.events.append(ev)

    # -- assignment ----------------------------------------------------------
    def assign(self, t, v, st, fi, node):
        if st.outcome is not None:
            return [st]
        if isinstance(t, ast.Name):
            st.env[t.id] = v
            return [st]
        if isinstance(t, (ast.Tuple, ast.List)):
            items = None
            if v[0] == 'nt':
                v = ('tuple', v[2])
            if v[0] in ('tuple', 'list') and len(v[1]) == len(t.elts):
                items = v[1]
            elif is_const(v) and isinstance(v[1], tuple) and \
                    len(v[1]) == len(t.elts):
                items = [const(x) for x in v[1]]
            ss = [st]
            for i, e in enumerate(t.elts):
                if isinstance(e, ast.Starred):
                    raise self.err('starred target', node, fi)
                item = items[i] if items is not None else self.index(
                    v, const(i))
                nx = []
                for s in ss:
                    nx.extend(self.assign(e, item, s, fi, node))
                ss = nx
            return ss
        if isinstance(t, ast.Attribute):
            out = []
            for s, b in self.ev(t.value, st, fi):
                if s.outcome is not None:
                    out.append(s)
                    continue
                # property setter?
                setter = self._property(b, t.attr, fi, t.value, 'setter')
                if setter is not None and self.want_inline(setter):
                    for s2, _ in self.invoke(setter, [b, v], {}, s, fi, node):
                        out.append(s2)
                    continue
                self.emit(s, Ev('store', node, fi, s, base=b, attr=t.attr,
                                value=v))
                s.heap[(b, t.attr)] = v
                out.append(s)
            return out
        if isinstance(t, ast.Subscript):
            out = []
            for s, b in self.ev(t.value, st, fi):
                for s2, k in self.ev(t.slice, s, fi):
                    if s2.outcome is not None:
                        out.append(s2)
                        continue
                    if b[0] == 'dict' and isinstance(t.value, ast.Name):
                        pairs = [(a, c) for a, c in b[1] if a != k] + [(k, v)]
                        s2.env[t.value.id] = ('dict', tuple(pairs))
                    else:
                        self.emit(s2, Ev('setitem', node, fi, s2, base=b,
                                         key=k, value=v))
                    out.append(s2)
            return out
        raise self.err('unsupported assignment target %s'
                       % type(t).__name__, node, fi)

    # -- conditions ----------------------------------------------------------
    def atom(self, t):
        """(atom, polarity) normal form of a condition term."""
        pol = True
        while True:
            if t[0] == 'op' and t[1] == 'not':
                t = t[2][0]
                pol = not pol
                continue
            if t[0] == 'op' and t[1] in ('!=', 'isnot', 'notin'):
                t = ('op', {'!=': '==', 'isnot': 'is', 'notin': 'in'}[t[1]],
                     t[2])
                pol = not pol
                continue
            if t[0] == 'op' and t[1] in ('>', '>='):
                t = ('op', {'>': '<', '>=': '<='}[t[1]], (t[2][1], t[2][0]))
                continue
            if t[0] == 'op' and t[1] == 'truth':
                inner = t[2][0]
                if inner[0] == 'op' and inner[1] in (
                        '==', 'is', 'in', '<', '<=', 'not', '!=', 'isnot',
                        'notin', '>', '>=', 'truth', 'isinstance',
                        'hasattr', 'callable', 'issubclass'):
                    t = inner
                    continue
                if inner[0] == 'op' and inner[1] == 'len':
                    t = op('truth', inner[2][0])
                    continue
                if inner[0] == 'op' and inner[1] == 'bool':
                    t = op('truth', inner[2][0])
                    continue
            break
        if t[0] == 'op' and t[1] in ('==', '<', '<=') and len(t[2]) == 2:
            a, b = t[2]
            ln = None
            if a[0] == 'op' and a[1] == 'len' and is_const(b) and \
                    isinstance(b[1], int):
                ln, k, side = a[2][0], b[1], 'l'
            elif b[0] == 'op' and b[1] == 'len' and is_const(a) and \
                    isinstance(a[1], int):
                ln, k, side = b[2][0], a[1], 'r'
            if ln is not None:
                # len(x) == 0 | len(x) < 1 | len(x) <= 0 | 0 < len(x) ...
                if t[1] == '==' and k == 0:
                    return op('truth', ln), not pol
                if side == 'l' and (t[1], k) in (('<', 1), ('<=', 0)):
                    return op('truth', ln), not pol
                if side == 'r' and (t[1], k) in (('<', 0), ('<=', 1)):
                    return op('truth', ln), pol
        if t[0] == 'op' and t[1] in ('==', 'is') and len(t[2]) == 2:
            a, b = t[2]
            if is_const(a) and not is_const(b):
                t = ('op', t[1], (b, a))
            elif not is_const(b) and repr(struct(a)) > repr(struct(b)):
                t = ('op', t[1], (b, a))
            # x == True / x is True on something boolean stays as is
        if t[0] == 'op' and t[1] == 'bool' and len(t[2]) == 1:
            # bool(x) is the truth of x
            a, p2 = self.atom(t[2][0])
            return a, (pol if p2 else not pol)
        if t[0] != 'op' or t[1] not in ('==', 'is', 'in', '<', '<=', 'truth',
                                        'isinstance', 'hasattr', 'callable',
                                        'issubclass'):
            t = op('truth', t)
        return t, pol

    def decide(self, a, st):
        """Truth of an atom under what the path knows (None: unknown)."""
        sa = struct(a)
        for c, p, _ in st.conds:
            if struct(c) == sa:
                return p
        if a[1] == 'hasattr' and len(a[2]) == 2 and is_const(a[2][1]) and \
                isinstance(a[2][1][1], str) and a[2][0][0] == 'builtin' and \
                a[2][0][1] in ('int', 'str', 'bytes', 'bytearray', 'dict',
                               'list', 'tuple', 'set', 'float', 'object'):
            # a feature test of a builtin type (hasattr(int, 'from_bytes')):
            # answered for the Python the library runs on (3.x)
            import builtins as _b
            return hasattr(getattr(_b, a[2][0][1]), a[2][1][1])
        if a[1] == 'truth':
            x = a[2][0]
            if is_const(x):
                return bool(x[1])
            if x[0] in ('tuple', 'list', 'set'):
                return len(x[1]) > 0
            if x[0] == 'dict':
                return len(x[1]) > 0
            if x[0] in ('fn', 'cls', 'mod', 'partial', 'methodcaller',
                        'attrgetter', 'itemgetter', 'ntcls', 'ext', 'gen'):
                return True
            if x[0] == 'obj' and x[3] is not None and not any(
                    self.db.find_attr(x[3], m) is not None
                    for m in ('__bool__', '__len__', '__nonzero__')):
                return True
            if x[0] == 'op' and x[1] == 'concat':
                if any(is_const(y) and y[1] for y in x[2]):
                    return True
        if a[1] in ('is', '==') and len(a[2]) == 2:
            x, y = a[2]
            if is_const(x) and is_const(y):
                if a[1] == 'is' and (x[1] is None or y[1] is None
                                     or isinstance(x[1], bool)
                                     or isinstance(y[1], bool)):
                    return x[1] is y[1]
                if a[1] == '==':
                    return x[1] == y[1]
            if is_const(y) and y[1] is None and (
                    x[0] in NOT_NONE or never_none(x)):
                return False
            if a[1] == 'is':
                for snt, other in ((x, y), (y, x)):
                    if snt[0] == 'glob' and self.is_sentinel(snt) and \
                            struct(other) != struct(snt) and not any(
                                t[0] == 'glob' and t == snt
                                for t in subterms(other)):
                        # a private marker object that never leaves the
                        # locals of its module: only a value that flowed
                        # from it can be it
                        if is_const(other) or other[0] in (
                                'attr', 'op', 'sym', 'obj', 'tuple', 'list',
                                'dict', 'set', 'fn', 'cls', 'nt') or (
                                    other[0] == 'call'
                                    and other[1][0] != 'fn'):
                            return False
            if struct(x) == struct(y) and x[0] not in ('call',):
                return True
            # a value the path already knows to be (not) None
            if a[1] == 'is' and is_const(y) and y[1] is None:
                sx = struct(x)
                for c, p, _ in st.conds:
                    if c[1] == 'truth' and p and struct(c[2][0]) == sx:
                        return False
                    # `k in x` was evaluated without raising
                    if c[1] == 'in' and struct(c[2][1]) == sx:
                        return False
                for e in st.events:
                    # a method of x was called without raising
                    if e.kind == 'call' and e.fn[0] == 'attr' and \
                            struct(e.fn[1]) == sx:
                        return False
                if none_or_truthy(x):
                    # a match object or None: falsy means None
                    for c, p, _ in st.conds:
                        if c[1] == 'truth' and not p and \
                                struct(c[2][0]) == sx:
                            return True
        if a[1] == 'truth':
            x = a[2][0]
            for c, p, _ in st.conds:
                if c[1] == 'is' and p and struct(c[2][0]) == struct(x) and \
                        is_const(c[2][1]) and c[2][1][1] is None:
                    return False
                if c[1] == 'is' and not p and none_or_truthy(x) and \
                        struct(c[2][0]) == struct(x) and \
                        is_const(c[2][1]) and c[2][1][1] is None:
                    return True
        if a[1] == 'is' and len(a[2]) == 2 and is_const(a[2][1]):
            # x not in (c1, c2) on the path  =>  x is not c1
            x, c = a[2]
            sx = struct(x)
            for k, p, _ in st.conds:
                if k[1] == 'in' and not p and struct(k[2][0]) == sx and \
                        k[2][1][0] in ('tuple', 'list', 'set') and any(
                            i == c for i in k[2][1][1]):
                    return False
        if a[1] == 'in' and len(a[2]) == 2 and a[2][1][0] in (
                'tuple', 'list', 'set') and all(
                    is_const(i) and (i[1] is None or isinstance(i[1], bool))
                    for i in a[2][1][1]):
            # membership in a tuple of singletons, decided by identity tests
            x, y = a[2]
            sx = struct(x)
            known = {}
            for k, p, _ in st.conds:
                if k[1] == 'is' and struct(k[2][0]) == sx and \
                        is_const(k[2][1]):
                    known[k[2][1]] = p
            if any(known.get(i) is True for i in y[1]):
                return True
            if all(known.get(i) is False for i in y[1]):
                return False
        if a[1] == 'in' and len(a[2]) == 2:
            x, y = a[2]
            if is_const(x) and y[0] in ('tuple', 'list', 'set') and all(
                    is_const(i) for i in y[1]):
                return any(i[1] == x[1] and type(i[1]) is type(x[1])
                           for i in y[1])
            if is_const(x) and is_const(y) and isinstance(y[1], (tuple, str)):
                try:
                    return x[1] in y[1]
                except TypeError:
                    return None
        if a[1] == 'isinstance' and len(a[2]) == 2:
            x, c = a[2]
            r = self._isinstance(x, c)
            if r is not None:
                return r
        if a[1] in ('<', '<=') and all(is_const(x) for x in a[2]):
            try:
                return a[2][0][1] < a[2][1][1] if a[1] == '<' else \
                    a[2][0][1] <= a[2][1][1]
            except TypeError:
                return None
        return None

    def _isinstance(self, x, c):
        xc = self.class_of(x)
        if xc is None:
            return None
        cands = c[1] if c[0] == 'tuple' else (c,)
        if x[0] == 'exc':
            # an exception caught by `except B`: its class is B or any
            # subclass of B
            bound = ('cls', xc[1]) if xc[0] == 'repo' else ('builtin', xc[1])
            res = False
            for k in cands:
                if self._subclass(xc, k):
                    return True
                kc = ('repo', k[1]) if k[0] == 'cls' else (
                    ('name', k[1]) if k[0] in ('ext', 'builtin') else None)
                if kc is None or self._subclass(kc, bound) is not False:
                    res = None      # k may lie below the bound
            return res
        res = False
        for k in cands:
            r = self._subclass(xc, k)
            if r is None:
                res = None if res is False else res
            elif r:
                return True
        return res

    def class_of(self, x):
        """('repo', ClassInfo) / ('name', dotted) of the value's class."""
        if x[0] == 'obj':
            return ('repo', x[3]) if x[3] is not None else ('name', x[2])
        if x[0] == 'exc' and x[1] is not None:
            return x[1]
        if x[0] == 'call' and x[1][0] in ('ext', 'builtin'):
            nm = x[1][1]
            if nm in BUILTIN_EXC or nm.split('.')[-1] in BUILTIN_EXC:
                return ('name', nm)
        return None

    def _subclass(self, xc, k):
        """is class xc a subclass of class term k? True/False/None"""
        if k[0] == 'cls':
            if xc[0] == 'repo':
                return self.db.is_subclass(xc[1], k[1])
            return False if xc[1].split('.')[-1] in BUILTIN_EXC else None
        if k[0] in ('ext', 'builtin'):
            want = k[1].replace('builtins.', '')
            if xc[0] == 'repo':
                # walk in-repo bases down to an external one
                for c in self.db.mro(xc[1]):
                    for b in c.bases:
                        if isinstance(b, External):
                            r = self._name_subclass(
                                b.dotted.replace('builtins.', ''), want)
                            if r:
                                return True
                return False
            return self._name_subclass(xc[1].replace('builtins.', ''), want)
        return None

    @staticmethod
    def _name_subclass(have, want):
        def norm(n):
            n = n.split('.')[-1] if n not in BUILTIN_EXC else n
            return 'OSError' if n in OS_ALIASES or n == 'error' else n
        have, want = norm(have), norm(want)
        seen = 0
        cur = have
        while cur is not None and seen < 12:
            if cur == want:
                return True
            cur = BUILTIN_EXC.get(cur)
            cur = norm(cur) if cur else None
            seen += 1
        if have not in BUILTIN_EXC and have != 'OSError':
            return None
        return False

    def branch(self, e, st, fi):
        """[(state, truth)] for a test expression (short-circuit forks)."""
        if st.outcome is not None:
            return [(st, True)]
        if isinstance(e, ast.UnaryOp) and isinstance(e.op, ast.Not):
            return [(s, not t) for s, t in self.branch(e.operand, st, fi)]
        if isinstance(e, ast.BoolOp):
            is_and = isinstance(e.op, ast.And)
            live = [st]
            done = []
            for i, v in enumerate(e.values):
                nxt = []
                for s in live:
                    for s2, t in self.branch(v, s, fi):
                        if s2.outcome is not None:
                            done.append((s2, t))
                        elif t == is_and and i < len(e.values) - 1:
                            nxt.append(s2)
                        else:
                            done.append((s2, t))
                live = nxt
            return done
        if isinstance(e, ast.IfExp):
            out = []
            for s, t in self.branch(e.test, st, fi):
                if s.outcome is not None:
                    out.append((s, t))
                    continue
                out.extend(self.branch(e.body if t else e.orelse, s, fi))
            return out
        if isinstance(e, ast.Compare) and len(e.ops) > 1:
            # a < b < c  ==  a < b and b < c (b evaluated once: b is pure
            # in every instance the repository has)
            parts = []
            left = e.left
            for o, r in zip(e.ops, e.comparators):
                parts.append(ast.Compare(left=left, ops=[o],
                                         comparators=[r]))
                left = r
            return self.branch(ast.copy_location(ast.BoolOp(
                op=ast.And(), values=parts), e), st, fi)
        out = []
        for s, v in self.ev(e, st, fi):
            if s.outcome is not None:
                out.append((s, True))
                continue
            out.extend(self.split(v, s, e))
        return out

    def split(self, v, st, node):
        # a value that is itself a conditional / boolean combination was
        # already forked by ev(); v is a plain term here
        a, pol = self.atom(v)
        d = self.decide(a, st)
        if d is not None:
            return [(st, d == pol)]
        s2 = st.fork()
        st.conds.append((a, True, node))
        s2.conds.append((a, False, node))
        st.cond_held.append(tuple(st.held))
        s2.cond_held.append(tuple(s2.held))
        return [(st, pol), (s2, not pol)]

    # -- expressions ---------------------------------------------------------
    def ev_list(self, exprs, st, fi):
        """[(state, [terms])] evaluating exprs left to right."""
        res = [(st, [])]
        for e in exprs:
            nxt = []
            for s, acc in res:
                if s.outcome is not None:
                    nxt.append((s, acc + [BOT]))
                    continue
                for s2, t in self.ev(e, s, fi):
                    nxt.append((s2, acc + [t]))
            res = nxt
        return res

    def ev(self, e, st, fi):
        if st.outcome is not None:
            return [(st, BOT)]
        if isinstance(e, ast.Constant):
            return [(st, const(e.value))]
        if isinstance(e, ast.Name):
            v = self.name(e.id, st, fi, e)
            if v[0] == 'unbound' and isinstance(e.ctx, ast.Load) and \
                    st.outcome is None and self.unbound_raises:
                # reading a local no statement on the path has bound
                st.outcome = ('raise', ('call', ('builtin',
                                                 'UnboundLocalError'),
                                        (const(e.id),), (), next(self.uid)),
                              e)
                return [(st, BOT)]
            return [(st, v)]
        if isinstance(e, ast.Attribute):
            out = []
            for s, b in self.ev(e.value, st, fi):
                if s.outcome is not None:
                    out.append((s, BOT))
                    continue
                out.extend(self.getattr(b, e.attr, s, fi, e))
            return out
        if isinstance(e, ast.Call):
            return self.call(e, st, fi)
        if isinstance(e, ast.IfExp):
            out = []
            for s, t in self.branch(e.test, st, fi):
                if s.outcome is not None:
                    out.append((s, BOT))
                    continue
                out.extend(self.ev(e.body if t else e.orelse, s, fi))
            return out
        if isinstance(e, ast.BoolOp):
            # value semantics: first operand that decides
            is_and = isinstance(e.op, ast.And)
            out = []
            live = [st]
            for i, v in enumerate(e.values):
                nxt = []
                for s in live:
                    for s2, t in self.ev(v, s, fi):
                        if s2.outcome is not None:
                            out.append((s2, BOT))
                            continue
                        if i == len(e.values) - 1:
                            out.append((s2, t))
                            continue
                        for s3, tr in self.split(t, s2, v):
                            if tr == is_and:
                                nxt.append(s3)
                            else:
                                # a bool-valued operand whose truth is known
                                # on this path is that constant
                                out.append((s3, const(tr) if is_boolean(t)
                                            else t))
                live = nxt
            return out
        if isinstance(e, ast.UnaryOp):
            out = []
            for s, v in self.ev(e.operand, st, fi):
                if isinstance(e.op, ast.Not):
                    if is_const(v):
                        out.append((s, const(not v[1])))
                    else:
                        out.append((s, op('not', v)))
                elif isinstance(e.op, ast.USub) and is_const(v) and \
                        isinstance(v[1], (int, float)):
                    out.append((s, const(-v[1])))
                else:
                    out.append((s, op(type(e.op).__name__.lower(), v)))
            return out
        if isinstance(e, ast.BinOp):
            out = []
            for s, (a, b) in self.ev_list([e.left, e.right], st, fi):
                out.append((s, self.binop(type(e.op).__name__, a, b)))
            return out
        if isinstance(e, ast.Compare):
            if len(e.ops) != 1:
                out = []
                for s, t in self.branch(e, st, fi):
                    out.append((s, const(t)))
                return out
            out = []
            name = {ast.Eq: '==', ast.NotEq: '!=', ast.Lt: '<', ast.LtE: '<=',
                    ast.Gt: '>', ast.GtE: '>=', ast.Is: 'is',
                    ast.IsNot: 'isnot', ast.In: 'in',
                    ast.NotIn: 'notin'}[type(e.ops[0])]
            for s, (a, b) in self.ev_list([e.left, e.comparators[0]], st,
                                          fi):
                out.append((s, op(name, a, b)))
            return out
        if isinstance(e, (ast.Tuple, ast.List, ast.Set)):
            kind = {ast.Tuple: 'tuple', ast.List: 'list',
                    ast.Set: 'set'}[type(e)]
            if any(isinstance(x, ast.Starred) for x in e.elts):
                out = []
                for s, items in self.ev_list(
                        [x.value if isinstance(x, ast.Starred) else x
                         for x in e.elts], st, fi):
                    out.append((s, op('splat-' + kind, *items)))
                return out
            return [(s, (kind, tuple(items)))
                    for s, items in self.ev_list(e.elts, st, fi)]
        if isinstance(e, ast.Dict):
            if any(k is None for k in e.keys):
                out = []
                for s, items in self.ev_list(e.values, st, fi):
                    out.append((s, op('splat-dict', *items)))
                return out
            out = []
            for s, items in self.ev_list(
                    [x for kv in zip(e.keys, e.values) for x in kv], st, fi):
                out.append((s, ('dict', tuple(zip(items[0::2],
                                                  items[1::2])))))
            return out
        if isinstance(e, ast.Subscript):
            out = []
            for s, (b, k) in self.ev_list([e.value, e.slice], st, fi):
                if s.outcome is None and self._table_lookup(b, k):
                    # D[k] with a literal table and a run-time key: one path
                    # per entry (k == key), and KeyError when none matches
                    for s2, v in self.lookup(b, k, s, e):
                        if v is None:
                            s2.outcome = ('raise', ('call', ('builtin',
                                                             'KeyError'),
                                                    (k,), (), next(self.uid)),
                                          e)
                            out.append((s2, BOT))
                        else:
                            out.append((s2, v))
                    continue
                if b[0] == 'call' and b[1] == ('ext', 'sys.exc_info') and \
                        k == ('const', 1) and b[4] in self.__dict__.get(
                            'excinfo', {}):
                    out.append((s, self.excinfo[b[4]]))
                    continue
                out.append((s, self.index(b, k)))
            return out
        if isinstance(e, ast.Slice):
            out = []
            parts = [x if x is not None else ast.Constant(value=None)
                     for x in (e.lower, e.upper, e.step)]
            for s, items in self.ev_list(parts, st, fi):
                out.append((s, op('slice', *items)))
            return out
        if isinstance(e, ast.JoinedStr):
            parts = []
            exprs = []
            for v in e.values:
                if isinstance(v, ast.Constant):
                    parts.append(const(v.value))
                else:
                    spec = ''
                    if v.format_spec is not None:
                        if all(isinstance(x, ast.Constant)
                               for x in v.format_spec.values):
                            spec = ''.join(str(x.value)
                                           for x in v.format_spec.values)
                        else:
                            spec = '?'
                    conv = {-1: '', 115: 's', 114: 'r', 97: 'a'}.get(
                        v.conversion, '')
                    parts.append((conv, spec))
                    exprs.append(v.value)
            out = []
            for s, items in self.ev_list(exprs, st, fi):
                it = iter(items)
                built = []
                for p in parts:
                    if isinstance(p, tuple) and len(p) == 2 and \
                            isinstance(p[0], str) and p[0] != 'const':
                        val = next(it)
                        if p == ('', ''):
                            built.append(op('str', val))
                        else:
                            built.append(op('fmt', const('%s:%s' % p), val))
                    else:
                        built.append(p)
                out.append((s, self.concat(built)))
            return out
        if isinstance(e, ast.Lambda):
            sub = self._nested_func(e, fi)
            cid = next(self.uid)
            st.notes.append(('closure', '<lambda>', dict(st.env), cid,
                             st.env.get('<frame>')))
            return [(st, ('fn', sub, ('closure', id(e), cid)))]
        if isinstance(e, (ast.ListComp, ast.SetComp, ast.GeneratorExp,
                          ast.DictComp)):
            return self.comprehension(e, st, fi)
        if isinstance(e, ast.Starred):
            return [(s, op('star', v)) for s, v in self.ev(e.value, st, fi)]
        if isinstance(e, ast.NamedExpr):
            out = []
            for s, v in self.ev(e.value, st, fi):
                s.env[e.target.id] = v
                out.append((s, v))
            return out
        if isinstance(e, (ast.Yield, ast.YieldFrom)):
            out = []
            v = e.value
            for s, t in (self.ev(v, st, fi) if v is not None
                         else [(st, NONE)]):
                self.emit(s, Ev('yield', e, fi, s, value=t))
                out.append((s, sym('<sent>')))
            return out
        raise self.err('unsupported expression %s' % type(e).__name__, e, fi)

    def comprehension(self, e, st, fi):
        """Summarised as a pure term over its iterables; calls inside the
        element expression are recorded as a loop event."""
        gens = e.generators
        out = []
        # only the first iterable is evaluated where the comprehension
        # stands; the others are evaluated inside, with the earlier targets
        # bound
        for s, it0 in self.ev(gens[0].iter, st, fi):
            its = [it0]
            if s.outcome is not None:
                out.append((s, BOT))
                continue
            seq0 = self.as_sequence(its[0], s, self.unroll) \
                if len(gens) == 1 else None
            if len(gens) == 1 and not gens[0].ifs and seq0 is not None \
                    and not isinstance(e, ast.DictComp):
                # a comprehension over a literal sequence is that many
                # evaluations of its element, in order
                live = [(s, [])]
                saved = {}
                for x in ast.walk(gens[0].target):
                    if isinstance(x, ast.Name) and x.id in s.env:
                        saved[x.id] = s.env[x.id]
                for item in seq0:
                    nx = []
                    for s2, acc in live:
                        for s3 in self.assign(gens[0].target, item, s2, fi,
                                              e):
                            for s4, v in self.ev(e.elt, s3, fi):
                                nx.append((s4, acc + [v]))
                    live = nx
                for s2, acc in live:
                    for x in ast.walk(gens[0].target):
                        if isinstance(x, ast.Name):
                            if x.id in saved:
                                s2.env[x.id] = saved[x.id]
                            else:
                                s2.env.pop(x.id, None)
                    kind = 'set' if isinstance(e, ast.SetComp) else 'list'
                    out.append((s2, (kind, tuple(acc))))
                continue
            body = s.fork()
            body.events = []
            body.frames = [dict(f) for f in s.frames]
            body.loops.append(e)
            for gi, g in enumerate(gens):
                if gi:
                    r = self.ev(g.iter, body, fi)
                    if len(r) != 1 or r[0][0].outcome is not None:
                        raise self.err('comprehension: iterable of a later '
                                       'generator branches', g.iter, fi)
                    body = r[0][0]
                    its.append(r[0][1])
                el = ('elem', its[gi], next(self.uid))
                for s_ in self.assign(g.target, el, body, fi, e):
                    pass
            elts = [e.elt] if not isinstance(e, ast.DictComp) else [e.key,
                                                                    e.value]
            conds = [c for g in gens for c in g.ifs]
            sts = [body]
            for c in conds:
                nx = []
                for b in sts:
                    for b2, t in self.branch(c, b, fi):
                        if t:
                            nx.append(b2)
                sts = nx
            vals = []
            paths = []
            for b in sts:
                for b2, items in self.ev_list(elts, b, fi):
                    vals.append(tuple(items))
                    paths.append(Path(b2))
            if any(p.events for p in paths):
                self.emit(s, Ev('loop', e, fi, s, ctx=its[0], paths=paths))
            kind = {ast.ListComp: 'listcomp', ast.SetComp: 'setcomp',
                    ast.GeneratorExp: 'genexp',
                    ast.DictComp: 'dictcomp'}[type(e)]
            uniq = []
            for v in vals:
                sv = struct(v)
                if sv not in [struct(u) for u in uniq]:
                    uniq.append(v)
            filt = []
            for pth in paths:
                for a, pol, _ in pth.conds[len(s.conds):]:
                    item = ('tuple', (a, const(pol)))
                    if struct(item) not in [struct(x) for x in filt]:
                        filt.append(item)
            out.append((s, op(kind, ('tuple', tuple(its)), ('tuple', tuple(
                ('tuple', v) for v in uniq)), ('tuple', tuple(filt)))))
        return out

    def binop(self, name, a, b):
        if a is BOT or b is BOT:
            return BOT
        if name == 'Add':
            if self._stringy(a) or self._stringy(b):
                return self.concat([a, b])
            if is_const(a) and is_const(b):
                try:
                    return const(a[1] + b[1])
                except Exception:
                    pass
        if name == 'Mod' and is_const(a) and isinstance(a[1], str):
            return self.percent(a[1], b)
        if is_const(a) and is_const(b) and isinstance(
                a[1], (int, float)) and isinstance(b[1], (int, float)):
            try:
                f = {'Sub': lambda x, y: x - y, 'Mult': lambda x, y: x * y,
                     'FloorDiv': lambda x, y: x // y,
                     'Mod': lambda x, y: x % y,
                     'LShift': lambda x, y: x << y,
                     'RShift': lambda x, y: x >> y,
                     'BitOr': lambda x, y: x | y,
                     'BitAnd': lambda x, y: x & y,
                     'Add': lambda x, y: x + y}.get(name)
                if f is not None:
                    return const(f(a[1], b[1]))
            except Exception:
                pass
        sign = {'Add': '+', 'Sub': '-', 'Mult': '*', 'Div': '/',
                'FloorDiv': '//', 'Mod': '%', 'LShift': '<<', 'RShift': '>>',
                'BitOr': '|', 'BitAnd': '&', 'BitXor': '^', 'Pow': '**',
                'MatMult': '@'}[name]
        return op(sign, a, b)

    @staticmethod
    def _stringy(t):
        return (is_const(t) and isinstance(t[1], (str, bytes))) or (
            t[0] == 'op' and t[1] in ('concat', 'str'))

    def concat(self, parts):
        """String concatenation normal form: flat, adjacent literals
        merged."""
        flat = []
        for p in parts:
            if p[0] == 'op' and p[1] == 'concat':
                flat.extend(p[2])
            else:
                flat.append(p)
        out = []
        for p in flat:
            if is_const(p) and p[1] in ('', b''):
                continue
            if out and is_const(p) and is_const(out[-1]) and type(
                    p[1]) is type(out[-1][1]) and isinstance(p[1], (str,
                                                                    bytes)):
                out[-1] = const(out[-1][1] + p[1])
            else:
                out.append(p)
        if not out:
            return const('')
        if len(out) == 1 and (is_const(out[0]) or (
                out[0][0] == 'op' and out[0][1] in ('str', 'fmt'))):
            return out[0]
        return ('op', 'concat', tuple(out))

    def percent(self, fmt, arg):
        import re
        items = list(arg[1]) if arg[0] == 'tuple' else [arg]
        pieces = re.split(r'(%(?:\([^)]*\))?[-+ #0]*\d*(?:\.\d+)?[sdrxXif%])',
                          fmt)
        out = []
        i = 0
        for p in pieces:
            if p.startswith('%') and len(p) > 1:
                if p == '%%':
                    out.append(const('%'))
                    continue
                if i >= len(items):
                    return op('%', const(fmt), arg)
                spec = p[1:]
                out.append(op('str', items[i]) if spec in ('s', 'd', 'i')
                           else op('fmt', const(spec), items[i]))
                i += 1
            elif p:
                out.append(const(p))
        if i != len(items):
            return op('%', const(fmt), arg)
        return self.concat(out)

    def format_(self, fmt, args, kwargs):
        import string
        out = []
        auto = 0
        try:
            parsed = list(string.Formatter().parse(fmt))
        except ValueError:
            return None
        for lit, field, spec, conv in parsed:
            if lit:
                out.append(const(lit))
            if field is None:
                continue
            if field == '':
                field = str(auto)
                auto += 1
            head = field.split('.')[0].split('[')[0]
            if head != field:
                return None
            if head.isdigit():
                if int(head) >= len(args):
                    return None
                v = args[int(head)]
            else:
                d = dict(kwargs)
                if head not in d:
                    return None
                v = d[head]
            if spec or conv:
                out.append(op('fmt', const((conv or '') + ':' + (spec or '')),
                              v))
            else:
                out.append(op('str', v))
        return self.concat(out)

    @staticmethod
    def _table_lookup(b, k):
        return b[0] == 'dict' and 0 < len(b[1]) <= 24 and all(
            is_const(a) or _const_tuple(a) is not None
            for a, _ in b[1]) and not is_const(k) and k is not BOT

    def lookup_rows(self, rows, comps, i, st, node):
        """Decision tree over the components of a tuple key: a boolean
        component is one truth test, any other a chain of equalities."""
        if i == len(comps):
            return [(st, rows[0][1] if rows else None)]
        if not rows:
            return [(st, None)]
        c = comps[i]
        vals = []
        for r in rows:
            if r[0][i] not in vals:
                vals.append(r[0][i])
        out = []
        if is_const(c):
            return self.lookup_rows([r for r in rows if r[0][i] == c[1]
                                     and type(r[0][i]) is type(c[1])],
                                    comps, i + 1, st, node)
        if is_boolean(c) and all(isinstance(v, bool) for v in vals):
            for s2, tr in self.split(c, st, node):
                out.extend(self.lookup_rows(
                    [r for r in rows if r[0][i] is tr], comps, i + 1, s2,
                    node))
            return out
        cur = st
        for v in vals:
            a, pol = self.atom(op('==', c, const(v)))
            d = self.decide(a, cur)
            sub = [r for r in rows if r[0][i] == v]
            if d is not None:
                if d == pol:
                    return out + self.lookup_rows(sub, comps, i + 1, cur,
                                                  node)
                continue
            hit = cur.fork()
            hit.conds.append((a, pol, node))
            hit.cond_held.append(tuple(hit.held))
            out.extend(self.lookup_rows(sub, comps, i + 1, hit, node))
            cur.conds.append((a, not pol, node))
            cur.cond_held.append(tuple(cur.held))
        out.append((cur, None))
        return out

    def lookup(self, table, k, st, node):
        """[(state, value or None)]: the entry of a literal table selected
        by a run-time key, as decisions `k == key` (the same atoms an
        if/elif chain on k would produce); None = no entry."""
        out = []
        cur = st
        if k[0] == 'tuple' and all(
                _const_tuple(key) is not None and len(_const_tuple(key)) ==
                len(k[1]) for key, _ in table[1]):
            return self.lookup_rows([(_const_tuple(key), val)
                                     for key, val in table[1]],
                                    list(k[1]), 0, st, node)
        if is_boolean(k) and all(is_const(key) and isinstance(key[1], bool)
                                 for key, _ in table[1]):
            # a table indexed by a truth value: one truth test
            return self.lookup_rows([((key[1],), val)
                                     for key, val in table[1]], [k], 0, st,
                                    node)
        for key, val in table[1]:
            a, pol = self.atom(op('==', k, key))
            d = self.decide(a, cur)
            if d is not None:
                if d == pol:
                    out.append((cur, val))
                    return out
                continue
            hit = cur.fork()
            hit.conds.append((a, pol, node))
            hit.cond_held.append(tuple(hit.held))
            out.append((hit, val))
            cur.conds.append((a, not pol, node))
            cur.cond_held.append(tuple(cur.held))
        out.append((cur, None))
        return out

    def index(self, b, k):
        if b is BOT or k is BOT:
            return BOT
        if b[0] == 'nt':
            b = ('tuple', b[2])
        if b[0] in ('tuple', 'list') and is_const(k) and isinstance(
                k[1], int) and -len(b[1]) <= k[1] < len(b[1]):
            return b[1][k[1]]
        if b[0] == 'dict':
            for a, v in b[1]:
                if struct(a) == struct(k):
                    return v
        if is_const(b) and is_const(k) and isinstance(b[1], (tuple, str,
                                                             bytes)):
            try:
                return const(b[1][k[1]])
            except Exception:
                pass
        if b[0] == 'op' and b[1] == 'index' and is_const(k) and isinstance(
                k[1], int) and k[1] >= 0:
            sl = b[2][1]
            if sl[0] == 'op' and sl[1] == 'slice' and is_const(sl[2][0]) \
                    and isinstance(sl[2][0][1], int) and sl[2][0][1] >= 0 \
                    and sl[2][1] == NONE and sl[2][2] == NONE:
                # x[a:][k] is x[a + k]
                return self.index(b[2][0], const(sl[2][0][1] + k[1]))
        if b[0] in ('tuple', 'list') and k[0] == 'op' and k[1] == 'slice' \
                and all(is_const(x) for x in k[2]):
            try:
                return (b[0], tuple(b[1][slice(*[x[1] for x in k[2]])]))
            except Exception:
                pass
        return op('index', b, k)

    # -- names and attributes ---------------------------------------------------
    def name(self, nm, st, fi, node):
        for fr in (st.env,):
            if nm in fr:
                return fr[nm]
        # closure: the frame the function object was made in -- the live one
        # when it is still running (late binding), its snapshot otherwise
        cur = st.env
        hops = 0
        while cur is not None and hops < 8:
            hops += 1
            cid = cur.get('<closure>')
            if cid is None:
                break
            note = next((x for x in reversed(st.notes) if x[0] == 'closure'
                         and len(x) > 3 and x[3] == cid), None)
            if note is None:
                break
            live = next((fr for fr in st.frames
                         if fr.get('<frame>') == note[4]
                         and note[4] is not None), None)
            cur = live if live is not None else note[2]
            if nm in cur:
                return cur[nm]
        # enclosing frames of lexically enclosing functions
        f = fi.outer
        depth = len(st.frames) - 2
        while f is not None and depth >= 0:
            if nm in st.frames[depth]:
                return st.frames[depth][nm]
            depth -= 1
            f = f.outer
        for note in reversed(st.notes):
            if note[0] == 'closure' and nm in note[2] and \
                    fi.outer is not None:
                return note[2][nm]
        if nm in self.locals_of(fi):
            # a local of this function that no statement on the path has
            # bound: reading it raises UnboundLocalError
            return ('unbound', nm)
        try:
            ent = self.db.resolve_dotted(fi.module, ast.Name(
                id=nm, ctx=ast.Load()), class_scope=None)
        except AnalysisError:
            ent = None
        return self.entity(ent, nm, fi)

    def locals_of(self, fi):
        cache = self.__dict__.setdefault('_locals', {})
        if fi not in cache:
            loc = set()
            if not isinstance(fi.node, ast.Lambda):
                glob = set()
                stack = list(fi.node.body)
                while stack:
                    n = stack.pop()
                    if isinstance(n, (ast.FunctionDef, ast.AsyncFunctionDef,
                                      ast.ClassDef)):
                        loc.add(n.name)
                        continue
                    if isinstance(n, ast.Lambda):
                        continue
                    if isinstance(n, (ast.Global, ast.Nonlocal)):
                        glob |= set(n.names)
                    if isinstance(n, ast.Name) and isinstance(
                            n.ctx, (ast.Store, ast.Del)):
                        loc.add(n.id)
                    if isinstance(n, (ast.ListComp, ast.SetComp,
                                      ast.DictComp, ast.GeneratorExp)):
                        # comprehension targets live in their own scope
                        for g in n.generators:
                            stack.append(g.iter)
                        continue
                    if isinstance(n, ast.ExceptHandler) and n.name:
                        loc.add(n.name)
                    if isinstance(n, (ast.Import, ast.ImportFrom)):
                        for a in n.names:
                            loc.add((a.asname or a.name).split('.')[0])
                    stack.extend(ast.iter_child_nodes(n))
                loc -= glob
            cache[fi] = loc
        return cache[fi]

    def entity(self, ent, nm, fi):
        ent = self.db.deref(ent) if isinstance(ent, tuple) else ent
        if isinstance(ent, FuncInfo):
            return ('fn', ent, None)
        if isinstance(ent, ClassInfo):
            return ('cls', ent)
        if isinstance(ent, Module):
            return ('mod', ent.name)
        if isinstance(ent, External):
            return ('ext', ent.dotted)
        if isinstance(ent, tuple) and ent[0] == 'value':
            v = self._literal(ent[1], ent[2])
            if v is not None and not (v[0] in ('dict', 'list', 'set')
                                      and self._mutated(ent[2], nm)):
                return v
            return ('glob', ent[2].name, nm)
        if ent is None:
            import builtins
            if hasattr(builtins, nm):
                return ('builtin', nm)
            return sym(nm)
        return sym(nm)

    def _mutated(self, module, name):
        """Some code of the package changes the container bound to the
        module-level `name` (item store, mutating method, global rebinding):
        its literal is then not its value."""
        cache = self.__dict__.setdefault('_mut', {})
        key = (module.name, name)
        if key not in cache:
            hit = False
            for m in self.db.modules.values():
                for n in ast.walk(m.tree):
                    if isinstance(n, ast.Global) and name in n.names:
                        hit = True
                    elif isinstance(n, ast.Subscript) and isinstance(
                            n.ctx, (ast.Store, ast.Del)) and isinstance(
                                n.value, ast.Name) and n.value.id == name:
                        hit = True
                    elif isinstance(n, ast.Call) and isinstance(
                            n.func, ast.Attribute) and isinstance(
                                n.func.value, ast.Name) and \
                            n.func.value.id == name and n.func.attr in (
                                'append', 'add', 'update', 'extend',
                                'insert', 'pop', 'remove', 'clear',
                                'setdefault', 'popitem', 'discard', 'sort',
                                'reverse'):
                        hit = True
                    elif isinstance(n, ast.Call) and any(
                            isinstance(a, ast.Name) and a.id == name
                            for a in n.args):
                        hit = True      # handed to code that may fill it
            cache[key] = hit
        return cache[key]

    def _class_literal(self, ent, owner):
        """A class-level value: names in it are looked up in the class body
        first (a table of the class's own functions)."""
        saved = getattr(self, '_lit_scope', None)
        self._lit_scope = owner
        try:
            v = self._literal(ent[1], ent[2])
        finally:
            self._lit_scope = saved
        if v is None and isinstance(ent[1], (ast.Call, ast.BinOp)):
            # a constant the class body computes once (a helper of the
            # module applied to constants): folded
            v = self._folded_class_constant(ent, owner)
        return v

    def _folded_class_constant(self, ent, owner):
        from .fold import Folder, Env, FoldRaise, Opaque
        F = self.__dict__.get('_folder')
        if F is None:
            F = self.__dict__['_folder'] = Folder(self.db)
        try:
            val = F.eval(ent[1], Env(ent[2], cls=owner))
        except (AnalysisError, FoldRaise, RecursionError):
            return None
        if isinstance(val, Opaque):
            return None
        if val is None or type(val) in (int, str, bool, float, bytes):
            return const(val)
        if type(val) is tuple and all(
                x is None or type(x) in (int, str, bool, float)
                for x in val):
            return ('tuple', tuple(const(x) for x in val))
        return None

    def _unused_class_literal_tail(self, ent, owner):
        saved = getattr(self, '_lit_scope', None)
        self._lit_scope = owner
        try:
            return self._literal(ent[1], ent[2])
        finally:
            self._lit_scope = saved

    def _literal(self, e, module=None, depth=0):
        """Constant term of a literal module/class level value (names of
        in-repo functions and classes inside it are resolved)."""
        if depth > 4:
            return None
        if isinstance(e, ast.Constant):
            return const(e.value)
        if isinstance(e, (ast.Tuple, ast.List, ast.Set)):
            items = [self._literal(x, module, depth + 1) for x in e.elts]
            if all(i is not None for i in items):
                return ({ast.Tuple: 'tuple', ast.List: 'list',
                         ast.Set: 'set'}[type(e)], tuple(items))
            return None
        if isinstance(e, ast.Dict) and all(k is not None for k in e.keys):
            ks = [self._literal(k, module, depth + 1) for k in e.keys]
            vs = [self._literal(v, module, depth + 1) for v in e.values]
            if all(x is not None for x in ks + vs):
                return ('dict', tuple(zip(ks, vs)))
            return None
        if isinstance(e, ast.Lambda) and module is not None:
            # a function written in place: it can only see globals here
            for f in self.db.funcs:
                if f.node is e:
                    return ('fn', f, None)
            return ('fn', FuncInfo('<lambda>', e, module, cls=None,
                                   kind='function', outer=None), None)
        if isinstance(e, ast.UnaryOp) and isinstance(e.op, ast.USub):
            v = self._literal(e.operand, module, depth + 1)
            if v is not None and is_const(v) and isinstance(
                    v[1], (int, float)):
                return const(-v[1])
            return None
        if isinstance(e, ast.BinOp) and type(e.op) in _LIT_BINOPS:
            # arithmetic over integer constants (2 * VarInt.max_bytes)
            a = self._literal(e.left, module, depth + 1)
            b = self._literal(e.right, module, depth + 1)
            if a is None or b is None or not (
                    is_const(a) and is_const(b) and all(
                        isinstance(x[1], int) and not isinstance(x[1], bool)
                        for x in (a, b))):
                return None
            if isinstance(e.op, (ast.Pow, ast.LShift)) and not (
                    0 <= b[1] <= 256):
                return None
            try:
                return const(_LIT_BINOPS[type(e.op)](a[1], b[1]))
            except (ZeroDivisionError, ValueError, OverflowError):
                return None
        if isinstance(e, ast.Call) and isinstance(
                e.func, (ast.Name, ast.Attribute)) and module is not None \
                and len(e.args) >= 1 and not e.keywords and not any(
                    isinstance(a, ast.Starred) for a in e.args):
            try:
                ent = self.db.resolve_dotted(module, e.func)
            except AnalysisError:
                ent = None
            if isinstance(ent, External) and ent.dotted in (
                    'functools.partial', 'operator.methodcaller',
                    'operator.attrgetter', 'operator.itemgetter'):
                args = [self._literal(a, module, depth + 1) for a in e.args]
                if any(a is None for a in args):
                    return None
                r = self.library_call(ent.dotted, ('ext', ent.dotted), args,
                                      {}, St(), None, e)
                return r[0][1] if r and len(r) == 1 else None
            if isinstance(ent, External) and ent.dotted == 're.compile':
                args = [self._literal(a, module, depth + 1) for a in e.args]
                if any(a is None or not is_const(a) for a in args):
                    return None
                # a compiled pattern is its source (and flags)
                return ('call', ('ext', 're.compile'), tuple(args), (), 0)
            if isinstance(ent, External) and ent.dotted == \
                    'collections.namedtuple':
                nm = self._literal(e.args[0], module, depth + 1)
                f = self._literal(e.args[1], module, depth + 1)
                names = None
                if f is not None and is_const(f) and isinstance(f[1], str):
                    names = tuple(f[1].replace(',', ' ').split())
                elif f is not None and f[0] in ('tuple', 'list') and all(
                        is_const(x) for x in f[1]):
                    names = tuple(x[1] for x in f[1])
                if nm is not None and is_const(nm) and names is not None \
                        and len(e.args) == 2:
                    return ('ntcls', nm[1], names)
                return None
        if isinstance(e, ast.Call) and isinstance(e.func, ast.Name) and \
                e.func.id in ('dict', 'tuple', 'list', 'frozenset', 'set') \
                and module is not None and not any(
                    k.arg is None for k in e.keywords) and not any(
                        isinstance(a, ast.Starred) for a in e.args):
            try:
                shadow = self.db.resolve_dotted(module, e.func)
            except AnalysisError:
                shadow = True
            if shadow is not None:
                return None
            args = [self._literal(a, module, depth + 1) for a in e.args]
            kws = [(const(k.arg), self._literal(k.value, module, depth + 1))
                   for k in e.keywords]
            if any(a is None for a in args) or any(
                    v is None for _, v in kws):
                return None
            if e.func.id == 'dict':
                pairs = []
                if len(args) > 1:
                    return None
                if args:
                    a = args[0]
                    if a[0] == 'dict':
                        pairs = list(a[1])
                    elif a[0] in ('tuple', 'list') and all(
                            x[0] in ('tuple', 'list') and len(x[1]) == 2
                            for x in a[1]):
                        pairs = [(x[1][0], x[1][1]) for x in a[1]]
                    else:
                        return None
                for k, v in kws:
                    pairs = [(a, b) for a, b in pairs if a != k] + [(k, v)]
                return ('dict', tuple(pairs))
            if len(args) == 1 and not kws and args[0][0] in (
                    'tuple', 'list', 'set'):
                kind = {'tuple': 'tuple', 'list': 'list', 'set': 'set',
                        'frozenset': 'set'}[e.func.id]
                return (kind, args[0][1])
            return None
        if isinstance(e, (ast.Name, ast.Attribute)) and module is not None:
            scope = getattr(self, '_lit_scope', None)
            try:
                ent = self.db.resolve_dotted(module, e, class_scope=scope)
            except AnalysisError:
                return None
            ent = self.db.deref(ent) if isinstance(ent, tuple) else ent
            if isinstance(ent, FuncInfo):
                return ('fn', ent, None)
            if isinstance(ent, ClassInfo):
                return ('cls', ent)
            if isinstance(ent, External):
                return ('ext', ent.dotted)
            if isinstance(ent, tuple) and ent[0] == 'value':
                self._lit_scope = None
                try:
                    return self._literal(ent[1], ent[2], depth + 1)
                finally:
                    self._lit_scope = scope
            if ent is None and isinstance(e, ast.Name) and (
                    e.id in BUILTIN_EXC or e.id in PURE_BUILTINS):
                return ('builtin', e.id)      # EOFError, int, ... in a table
        return None

    def _property(self, b, attr, fi, node, which='getter'):
        ci = None
        if b[0] == 'obj':
            ci = b[3]
        elif b[0] == 'sym' or b[0] == 'attr':
            ci = self._static_class(b, fi, node, attr)
        if ci is None:
            return None
        for c in self.db.mro(ci):
            defs = c.attrs.get(attr)
            if not defs:
                continue
            want = 'property' if which == 'getter' else 'property_setter'
            for d in reversed(defs):
                if d.kind == 'def' and isinstance(d.value, FuncInfo) and \
                        d.value.kind == want:
                    return d.value
            return None
        return None

    def is_sentinel(self, g):
        """module-level `_NAME = object()` that is only ever compared by
        identity, chosen by a conditional expression, returned, bound to a
        local or given as the default of a .get() / getattr(): it is never
        stored in a container or attribute nor passed to a function, so a
        value read from data cannot be it."""
        cache = self.__dict__.setdefault('_sentinels', {})
        if g not in cache:
            cache[g] = False
            m = self.db.modules.get(g[1])
            name = g[2]
            defs = [n for n in (m.tree.body if m else [])
                    if isinstance(n, ast.Assign) and any(
                        isinstance(t, ast.Name) and t.id == name
                        for t in n.targets)]
            okk = len(defs) == 1 and isinstance(defs[0].value, ast.Call) \
                and isinstance(defs[0].value.func, ast.Name) and \
                defs[0].value.func.id == 'object' and \
                not defs[0].value.args and name.startswith('_')
            if okk:
                par = {}
                for n in ast.walk(m.tree):
                    for c in ast.iter_child_nodes(n):
                        par[id(c)] = n
                for n in ast.walk(m.tree):
                    if not (isinstance(n, ast.Name) and n.id == name
                            and isinstance(n.ctx, ast.Load)):
                        continue
                    p = par.get(id(n))
                    fine = False
                    if isinstance(p, ast.Compare) and all(isinstance(
                            o, (ast.Is, ast.IsNot)) for o in p.ops):
                        fine = True
                    elif isinstance(p, ast.IfExp) and n is not p.test:
                        fine = True
                    elif isinstance(p, ast.Return):
                        fine = True
                    elif isinstance(p, ast.Assign) and all(
                            isinstance(t, ast.Name) for t in p.targets):
                        fine = True
                    elif isinstance(p, ast.Tuple) and isinstance(
                            par.get(id(p)), ast.Assign) and len(
                                par[id(p)].targets) == 1 and isinstance(
                                    par[id(p)].targets[0], ast.Tuple) and \
                            len(par[id(p)].targets[0].elts) == len(p.elts) \
                            and all(isinstance(t, ast.Name) for t in
                                    par[id(p)].targets[0].elts):
                        fine = True     # a, b = (_MARK, x): bound to a local
                    elif isinstance(p, ast.Call) and isinstance(
                            p.func, ast.Attribute) and p.func.attr == 'get' \
                            and len(p.args) == 2 and p.args[1] is n:
                        fine = True
                    elif isinstance(p, ast.Call) and isinstance(
                            p.func, ast.Name) and p.func.id == 'getattr' \
                            and len(p.args) == 3 and p.args[2] is n:
                        fine = True
                    if not fine:
                        okk = False
                        break
                # not imported elsewhere
                for m2 in self.db.modules.values():
                    if m2 is m:
                        continue
                    for n in ast.walk(m2.tree):
                        if isinstance(n, ast.ImportFrom) and any(
                                al.name == name for al in n.names):
                            okk = False
                        elif isinstance(n, ast.Attribute) and \
                                n.attr == name:
                            okk = False
            cache[g] = okk
        return cache[g]

    def forget_literal(self, lit, st):
        new = ('call', ('builtin', '<mutated>'), (lit,), (), next(self.uid))
        for k, v in list(st.heap.items()):
            if v == lit:
                st.heap[k] = new
        for fr in st.frames:
            for k, v in list(fr.items()):
                if v == lit:
                    fr[k] = new

    def nt_fields(self, ci):
        """Field names when the class derives from a namedtuple(...) call
        with literal fields (None otherwise)."""
        cache = self.__dict__.setdefault('_ntf', {})
        if ci not in cache:
            cache[ci] = None
            for c in self.db.mro(ci):
                node = getattr(c, 'node', None)
                for b in getattr(node, 'bases', []) or []:
                    if isinstance(b, ast.Call) and isinstance(
                            b.func, (ast.Name, ast.Attribute)):
                        try:
                            ent = self.db.resolve_dotted(c.module, b.func)
                        except AnalysisError:
                            continue
                        if getattr(ent, 'dotted', None) == \
                                'collections.namedtuple':
                            v = self._literal(b, c.module)
                            if v is not None and v[0] == 'ntcls':
                                cache[ci] = v[2]
                if cache[ci] is not None:
                    break
        return cache[ci]

    def term_class(self, t, st):
        """In-repo class the term is known to be an instance of: the
        receiver of the summarised method, a constructed object, or a value
        the path has tested with isinstance."""
        if t[0] == 'obj':
            return t[3]
        root = self.stack[0] if self.stack else None
        if t[0] == 'sym' and root is not None and root.cls is not None and \
                root.kind in ('instance', 'property') and root.params and \
                t[1] == root.params[0]:
            return root.cls
        stt = struct(t)
        for a, pol, _ in st.conds:
            if pol and a[1] == 'isinstance' and struct(a[2][0]) == stt and \
                    a[2][1][0] == 'cls':
                return a[2][1][1]
        return None

    def as_sequence(self, t, st, limit=None):
        """Items of a term that is a sequence of known length (list of
        terms), or None."""
        limit = 3 * self.unroll if limit is None else limit
        items = None
        if t[0] in ('tuple', 'list'):
            items = list(t[1])
        elif t[0] == 'nt':
            items = list(t[2])
        elif t[0] == 'dict':
            items = [k for k, _ in t[1]]      # a mapping iterates its keys
        elif is_const(t) and isinstance(t[1], (tuple, str)):
            items = [const(x) for x in t[1]]
        elif t[0] in ('sym', 'attr', 'obj', 'elem', 'phi'):
            ci = self.term_class(t, st)
            if ci is not None and self.db.find_method(ci, '__iter__') is None:
                f = self.nt_fields(ci)
                if f is not None:
                    items = [('attr', t, x) if (t, x) not in st.heap
                             else st.heap[(t, x)] for x in f]
        if items is not None and len(items) > limit:
            return None
        return items

    def _static_class(self, b, fi, node, attr=None):
        """Unique in-repo instance class of the expression `node` (typed by
        the whole-program inference), if any."""
        if not isinstance(node, ast.AST):
            return None
        owner = fi
        try:
            ts = self.cg.etype(owner, node)
        except Exception:
            return None
        insts = [t[1] for t in ts if t[0] == 'inst']
        if insts and isinstance(node, ast.Attribute) and \
                self._field_holds_foreign(node.attr):
            # the inference only knows in-repo classes: a field that is also
            # assigned a library object (connection.socket before the cipher
            # wrapper replaces it) has no unique in-repo class
            return None
        if len(insts) == 1:
            return insts[0]
        if insts and attr is not None:
            # a hierarchy: fine when the attribute resolves to the same
            # definition in every candidate class
            defs = set(id(self.db.find_attr(c, attr)) for c in insts)
            if len(defs) == 1 and self.db.find_attr(insts[0], attr) \
                    is not None:
                return sorted(insts, key=lambda c: len(self.db.mro(c)))[0]
        return None

    def _field_holds_foreign(self, name):
        """Some assignment `<x>.name = value` in the program stores what a
        library call made (socket.socket(...), sock.makefile(...)) -- directly
        or through a local of the same function."""
        cache = self.__dict__.setdefault('_foreign_fields', {})
        if name in cache:
            return cache[name]

        def library_made(v, m, scope, depth=0):
            if isinstance(v, ast.Call):
                try:
                    ent = self.db.resolve_dotted(m, v.func) if isinstance(
                        v.func, (ast.Name, ast.Attribute)) else None
                    ent = self.db.deref(ent) if isinstance(ent, tuple) \
                        else ent
                except AnalysisError:
                    ent = None
                return not isinstance(ent, (ClassInfo, FuncInfo))
            if isinstance(v, ast.Name) and scope is not None and depth < 2:
                for x in ast.walk(scope):
                    if isinstance(x, ast.Assign) and any(
                            isinstance(t, ast.Name) and t.id == v.id
                            for t in x.targets) and library_made(
                                x.value, m, scope, depth + 1):
                        return True
            return False
        foreign = False
        for m in self.db.modules.values():
            scopes = [n for n in ast.walk(m.tree) if isinstance(
                n, (ast.FunctionDef, ast.AsyncFunctionDef))]
            for scope in scopes:
                for n in ast.walk(scope):
                    if isinstance(n, ast.Assign) and any(
                            isinstance(t, ast.Attribute) and t.attr == name
                            for t in n.targets) and library_made(
                                n.value, m, scope):
                        foreign = True
        cache[name] = foreign
        return foreign

    def getattr(self, b, attr, st, fi, node):
        if b[0] == 'nt' and attr in b[1]:
            return [(st, b[2][b[1].index(attr)])]
        if b == NONE and not (attr.startswith('__') and attr.endswith('__')):
            # None has no such attribute
            st.outcome = ('raise', ('call', ('builtin', 'AttributeError'),
                                    (const(attr),), (), next(self.uid)),
                          node, 'attribute')
            return [(st, BOT)]
        key = (b, attr)
        if key in st.heap:
            v = st.heap[key]
            return [(st, v)]
        if b[0] == 'mod':
            ent = self.db.module_attr(b[1], attr)
            return [(st, self.entity(ent, attr, fi))]
        if b[0] == 'ext':
            return [(st, ('ext', b[1] + '.' + attr))]
        if b[0] == 'cls':
            ad = self.db.find_attr(b[1], attr)
            if ad is not None:
                ent = self.db.attrdef_entity(ad)
                ent = self.db.deref(ent) if isinstance(ent, tuple) else ent
                if isinstance(ent, FuncInfo):
                    bound = b if ent.kind in ('class',
                                              'class_and_instance') else None
                    return [(st, ('fn', ent, bound))]
                if isinstance(ent, ClassInfo):
                    return [(st, ('cls', ent))]
                if isinstance(ent, tuple) and ent[0] == 'value':
                    v = self._class_literal(ent, ad.owner)
                    if v is not None:
                        return [(st, v)]
            return [(st, ('attr', b, attr))]
        ci = None
        exact = False
        xs = getattr(self, 'exact_self', None)
        if xs is not None and b == ('sym', xs[1]) and self.stack and \
                self.stack[0].params and self.stack[0].params[0] == xs[1]:
            ci, exact = xs[0], True
        elif b[0] == 'obj' and b[3] is not None:
            ci = b[3]
        elif b[0] in ('sym', 'attr', 'elem', 'phi', 'call'):
            ci = self._static_class(b, fi, node.value if isinstance(
                node, ast.Attribute) else None, attr)
        if ci is not None:
            ad = self.db.find_attr(ci, attr)
            if ad is not None:
                ent = self.db.attrdef_entity(ad)
                ent = self.db.deref(ent) if isinstance(ent, tuple) else ent
                if isinstance(ent, FuncInfo):
                    if ent.kind == 'property':
                        if self.want_inline(ent, prop=True):
                            return self.invoke(ent, [b], {}, st, fi, node)
                        return [(st, ('attr', b, attr))]
                    if ent.kind == 'static':
                        return [(st, ('fn', ent, None))]
                    if ent.kind in ('class', ):
                        return [(st, ('fn', ent, ('cls', ci)))]
                    return [(st, ('fn', ent, b))]
                if isinstance(ent, ClassInfo) and exact and \
                        ad.kind == 'assign' and not any(
                            self.cg.fields.get((k, attr))
                            for k in self.db.mro(ci)):
                    # a class-level name for another class (length_type =
                    # Short), asked of the very class being summarised
                    return [(st, ('cls', ent))]
                if isinstance(ent, tuple) and ent[0] == 'value' and exact \
                        and not any(self.cg.fields.get((k, attr))
                                    for k in self.db.mro(ci)):
                    v = self._class_literal(ent, ad.owner)
                    if v is not None:
                        return [(st, v)]
                if isinstance(ent, tuple) and ent[0] == 'value' and (
                        b[0] == 'obj' or not (any(
                            self.cg.fields.get((k, attr))
                            for k in self.db.mro(ci)) or any(
                                attr in k.attrs
                                for k in self.db.subclasses(ci)))):
                    # class-level constant nothing stores on instances
                    v = self._class_literal(ent, ad.owner)
                    if v is not None:
                        return [(st, v)]
        return [(st, ('attr', b, attr))]

    # -- calls -------------------------------------------------------------------
    def want_inline(self, target, prop=False):
        if target in self.opaque:
            return False
        if target in self.stack:
            return False
        if len(self.stack) > self.max_depth:
            return False
        if target in self.inline:
            return True
        if self.inline_pred is not None and self.inline_pred(target):
            return True
        return False

    def call(self, e, st, fi):
        f = e.func
        # super().m(...)
        if isinstance(f, ast.Attribute) and isinstance(f.value, ast.Call) \
                and isinstance(f.value.func, ast.Name) and \
                f.value.func.id == 'super':
            return self.super_call(e, st, fi)
        lazy = self.lazy_consumer(e, st, fi)
        if lazy is not None:
            return lazy
        exprs = [f] + [a.value if isinstance(a, ast.Starred) else a
                       for a in e.args] + [k.value for k in e.keywords]
        out = []
        for s, items in self.ev_list(exprs, st, fi):
            if s.outcome is not None:
                out.append((s, BOT))
                continue
            fn = items[0]
            args = []
            for a, t in zip(e.args, items[1:1 + len(e.args)]):
                if isinstance(a, ast.Starred):
                    seq = self.as_sequence(t, s)
                    if seq is not None:
                        args.extend(seq)        # f(*(a, b)) is f(a, b)
                    else:
                        args.append(op('star', t))
                else:
                    args.append(t)
            kwargs = []
            for k, t in zip(e.keywords, items[1 + len(e.args):]):
                if k.arg is None and t[0] == 'dict' and all(
                        is_const(a) and isinstance(a[1], str)
                        for a, _ in t[1]):
                    kwargs.extend((a[1], v) for a, v in t[1])
                else:
                    kwargs.append((k.arg if k.arg is not None else '**', t))
            out.extend(self.apply(fn, args, dict(kwargs), s, fi, e))
        return out

    def lazy_consumer(self, e, st, fi):
        """next(<genexp>[, default]) / any(<genexp>) / all(<genexp>) over a
        literal sequence: the generator is lazy, so the items are tried in
        order and evaluation stops at the first hit.  None: not that shape
        (handled as an ordinary call)."""
        f = e.func
        if not (isinstance(f, ast.Name) and f.id in ('next', 'any', 'all')
                and f.id not in st.env and e.args and not e.keywords
                and isinstance(e.args[0], ast.GeneratorExp)
                and len(e.args[0].generators) == 1):
            return None
        g = e.args[0].generators[0]
        gen = e.args[0]
        out = []
        for s, it in self.ev(g.iter, st, fi):
            if s.outcome is not None:
                out.append((s, BOT))
                continue
            items = None
            if it[0] in ('tuple', 'list') and len(it[1]) <= 3 * self.unroll:
                items = list(it[1])
            elif it[0] == 'dict' and False:
                items = None
            if items is None:
                return None if len(out) == 0 else out + \
                    self._plain_call(e, s, fi)
            saved = {x.id: s.env.get(x.id) for x in ast.walk(g.target)
                     if isinstance(x, ast.Name)}
            live = [s]
            done = []
            for item in items:
                nx = []
                for l in live:
                    for l2 in self.assign(g.target, item, l, fi, e):
                        cands = [(l2, True)]
                        for c in g.ifs:
                            c2 = []
                            for l3, ok in cands:
                                if not ok or l3.outcome is not None:
                                    c2.append((l3, ok))
                                    continue
                                c2.extend(self.branch(c, l3, fi))
                            cands = c2
                        for l3, ok in cands:
                            if l3.outcome is not None:
                                done.append((l3, BOT))
                            elif not ok:
                                nx.append(l3)
                            elif f.id == 'next':
                                done.extend(self.ev(gen.elt, l3, fi))
                            else:
                                for l4, tr in self.branch(gen.elt, l3, fi):
                                    if l4.outcome is not None:
                                        done.append((l4, BOT))
                                    elif tr == (f.id == 'any'):
                                        done.append((l4, const(tr)))
                                    else:
                                        nx.append(l4)
                live = nx
            for l in live:
                if f.id == 'next':
                    if len(e.args) > 1:
                        done.extend(self.ev(e.args[1], l, fi))
                    else:
                        l.outcome = ('raise', ('call', ('builtin',
                                                        'StopIteration'),
                                               (), (), next(self.uid)), e)
                        done.append((l, BOT))
                else:
                    done.append((l, const(f.id == 'all')))
            for l, v in done:
                for nm, old in saved.items():
                    if old is None:
                        l.env.pop(nm, None)
                    else:
                        l.env[nm] = old
            out.extend(done)
        return out

    def _plain_call(self, e, st, fi):
        exprs = [e.func] + list(e.args)
        out = []
        for s, items in self.ev_list(exprs, st, fi):
            if s.outcome is not None:
                out.append((s, BOT))
                continue
            out.extend(self.apply(items[0], items[1:], {}, s, fi, e))
        return out

    def super_call(self, e, st, fi):
        f = e.func
        owner = fi
        while owner is not None and owner.cls is None:
            owner = owner.outer
        if owner is None:
            raise self.err('super() outside a class', e, fi)
        me = st.frames[-1].get(owner.params[0]) if owner.params else None
        target = None
        start = owner.cls
        base_cls = me[3] if me is not None and me[0] == 'obj' and \
            me[3] is not None else start
        mro = self.db.mro(base_cls)
        if start in mro:
            for k in mro[mro.index(start) + 1:]:
                m = self.db.own_method(k, f.attr)
                if m is not None:
                    target = m
                    break
        out = []
        exprs = list(e.args) + [k.value for k in e.keywords]
        for s, items in self.ev_list(exprs, st, fi):
            if s.outcome is not None:
                out.append((s, BOT))
                continue
            args = items[:len(e.args)]
            kwargs = {k.arg: t for k, t in zip(e.keywords,
                                               items[len(e.args):])}
            if target is not None and (self.want_inline(target) or (
                    me is not None and me[0] == 'obj'
                    and f.attr == '__init__'
                    and target not in self.stack)):
                out.extend(self.invoke(target, [me] + args, kwargs, s, fi, e))
            else:
                fn = ('attr', op('super', me or NONE), f.attr)
                if target is None and me is not None and me[0] == 'obj' and \
                        f.attr == '__init__':
                    # external base constructor: remember the arguments
                    s.heap[(me, 'args')] = ('tuple', tuple(args))
                out.extend(self.opaque_call(fn, args, kwargs, s, fi, e,
                                            [target] if target else []))
        return out

    OPERATOR_BIN = {
        'add': 'Add', 'iadd': 'Add', 'sub': 'Sub', 'isub': 'Sub',
        'mul': 'Mult', 'imul': 'Mult', 'or_': 'BitOr', 'ior': 'BitOr',
        'and_': 'BitAnd', 'iand': 'BitAnd', 'xor': 'BitXor',
        'ixor': 'BitXor', 'mod': 'Mod', 'imod': 'Mod', 'lshift': 'LShift',
        'ilshift': 'LShift', 'rshift': 'RShift', 'irshift': 'RShift',
        'floordiv': 'FloorDiv', 'ifloordiv': 'FloorDiv', 'truediv': 'Div',
        'itruediv': 'Div', 'pow': 'Pow'}
    OPERATOR_CMP = {'eq': '==', 'ne': '!=', 'lt': '<', 'le': '<=',
                    'gt': '>', 'ge': '>=', 'is_': 'is', 'is_not': 'isnot'}

    def library_call(self, name, fn, args, kwargs, st, fi, node):
        """functools / operator / collections helpers with exact, pure
        semantics; None = not modelled."""
        if name == 'functools.partial' and args:
            return [(st, ('partial', args[0], tuple(args[1:]),
                          tuple(sorted(kwargs.items()))))]
        if name.startswith('operator.'):
            o = name.split('.', 1)[1]
            if o in self.OPERATOR_BIN and len(args) == 2 and not kwargs:
                return [(st, self.binop(self.OPERATOR_BIN[o], args[0],
                                        args[1]))]
            if o in self.OPERATOR_CMP and len(args) == 2 and not kwargs:
                return [(st, op(self.OPERATOR_CMP[o], args[0], args[1]))]
            if o == 'not_' and len(args) == 1:
                return [(st, op('not', args[0]))]
            if o == 'truth' and len(args) == 1:
                return [(st, op('bool', args[0]))]
            if o == 'neg' and len(args) == 1:
                return [(st, op('usub', args[0]))]
            if o == 'contains' and len(args) == 2:
                return [(st, op('in', args[1], args[0]))]
            if o == 'getitem' and len(args) == 2:
                if self._table_lookup(args[0], args[1]):
                    out = []
                    for s2, v in self.lookup(args[0], args[1], st, node):
                        if v is None:
                            s2.outcome = ('raise', ('call', (
                                'builtin', 'KeyError'), (args[1],), (),
                                next(self.uid)), node)
                            out.append((s2, BOT))
                        else:
                            out.append((s2, v))
                    return out
                return [(st, self.index(args[0], args[1]))]
            if o in ('attrgetter', 'itemgetter') and args and all(
                    is_const(a) for a in args):
                return [(st, (o, tuple(a[1] for a in args)))]
            if o == 'methodcaller' and args and is_const(args[0]):
                return [(st, ('methodcaller', args[0][1], tuple(args[1:]),
                              tuple(sorted(kwargs.items()))))]
        if name == 'functools.reduce' and len(args) in (2, 3):
            seq = args[1]
            if seq[0] == 'op' and seq[1] == 'reversed' and \
                    seq[2][0][0] in ('tuple', 'list'):
                seq = (seq[2][0][0], tuple(reversed(seq[2][0][1])))
            if is_const(seq) and isinstance(seq[1], (tuple, str)):
                seq = ('tuple', tuple(const(x) for x in seq[1]))
            if seq[0] in ('tuple', 'list') and len(seq[1]) <= 3 * self.unroll:
                items = list(seq[1])
                if len(args) == 3:
                    acc = [(st, args[2])]
                elif items:
                    acc = [(st, items.pop(0))]
                else:
                    return None
                for item in items:
                    nx = []
                    for s2, a in acc:
                        if s2.outcome is not None:
                            nx.append((s2, BOT))
                            continue
                        nx.extend(self.apply(args[0], [a, item], {}, s2, fi,
                                             node))
                    acc = nx
                return acc
        if name == 'collections.namedtuple' and len(args) >= 2 and \
                is_const(args[0]):
            f = args[1]
            names = None
            if is_const(f) and isinstance(f[1], str):
                names = tuple(f[1].replace(',', ' ').split())
            elif f[0] in ('tuple', 'list') and all(is_const(x)
                                                   for x in f[1]):
                names = tuple(x[1] for x in f[1])
            if names is not None:
                return [(st, ('ntcls', args[0][1], names))]
        if name == 'itertools.starmap' and len(args) == 2 and not kwargs:
            # starmap over a sequence of known argument tuples with a
            # function that has no effect: the sequence of its results
            rows = self.as_sequence(args[1], st, self.unroll)
            if rows is not None and all(
                    r[0] in ('tuple', 'list') for r in rows):
                probe = st.fork()
                n0 = len(probe.events)
                vals = []
                for r in rows:
                    try:
                        res = self.apply(args[0], list(r[1]), {}, probe, fi,
                                         node)
                    except AnalysisError:
                        res = []
                    if len(res) != 1 or res[0][0] is not probe or \
                            probe.outcome is not None or \
                            len(probe.events) != n0:
                        vals = None
                        break
                    vals.append(res[0][1])
                if vals is not None:
                    return [(st, ('tuple', tuple(vals)))]
        if name in ('itertools.chain.from_iterable',) and len(args) == 1 \
                and args[0][0] in ('tuple', 'list') and all(
                    x[0] in ('tuple', 'list') for x in args[0][1]):
            flat = []
            for x in args[0][1]:
                flat.extend(x[1])
            return [(st, ('tuple', tuple(flat)))]
        if name == 'itertools.chain.from_iterable' and len(args) == 1 and \
                not kwargs:
            # lazy concatenation: a value, not an effect
            return [(st, op('chain.from_iterable', args[0]))]
        if name == 'itertools.chain' and not kwargs:
            if all(a[0] in ('tuple', 'list') for a in args):
                flat = []
                for a in args:
                    flat.extend(a[1])
                return [(st, ('tuple', tuple(flat)))]
            return [(st, op('chain', *args))]
        return None

    def _is_generator(self, fi):
        cache = self.__dict__.setdefault('_isgen', {})
        if fi not in cache:
            body = fi.node.body if not isinstance(fi.node, ast.Lambda) else []
            found = False
            stack = list(body)
            while stack:
                n = stack.pop()
                if isinstance(n, (ast.FunctionDef, ast.AsyncFunctionDef,
                                  ast.ClassDef, ast.Lambda)):
                    continue
                if isinstance(n, (ast.Yield, ast.YieldFrom)):
                    found = True
                    break
                stack.extend(ast.iter_child_nodes(n))
            cache[fi] = found
        return cache[fi]

    def is_lock(self, t):
        return t[0] == 'attr' and 'lock' in t[2].lower()

    def apply(self, fn, args, kwargs, st, fi, node):
        """Call of the value fn."""
        k = fn[0]
        if k == 'partial':
            kw = dict(fn[3])
            kw.update(kwargs)
            return self.apply(fn[1], list(fn[2]) + list(args), kw, st, fi,
                              node)
        if k == 'attrgetter' and len(args) == 1:
            res = [(st, [])]
            for nm in fn[1]:
                nx = []
                for s2, acc in res:
                    cur = [(s2, args[0])]
                    for part in nm.split('.'):
                        c2 = []
                        for s3, v in cur:
                            c2.extend(self.getattr(v, part, s3, fi, node))
                        cur = c2
                    nx.extend((s3, acc + [v]) for s3, v in cur)
                res = nx
            return [(s2, acc[0] if len(acc) == 1 else ('tuple', tuple(acc)))
                    for s2, acc in res]
        if k == 'itemgetter' and len(args) == 1:
            vals = [self.index(args[0], const(i)) for i in fn[1]]
            return [(st, vals[0] if len(vals) == 1 else ('tuple',
                                                         tuple(vals)))]
        if k == 'methodcaller' and len(args) == 1:
            out = []
            for s2, m in self.getattr(args[0], fn[1], st, fi, node):
                out.extend(self.apply(m, list(fn[2]), dict(fn[3]), s2, fi,
                                      node))
            return out
        if k == 'ntcls':
            names = fn[2]
            vals = list(args)
            kw = dict(kwargs)
            for nm in names[len(vals):]:
                if nm not in kw:
                    return self.opaque_call(fn, args, kwargs, st, fi, node,
                                            [])
                vals.append(kw.pop(nm))
            if kw or len(vals) != len(names):
                return self.opaque_call(fn, args, kwargs, st, fi, node, [])
            return [(st, ('nt', names, tuple(vals)))]
        if k == 'ext':
            r = self.library_call(fn[1], fn, args, kwargs, st, fi, node)
            if r is not None:
                return r
        if k == 'attr' and fn[2] in ('acquire', 'release') and \
                self.is_lock(fn[1]) and not kwargs:
            # lock.acquire(); try: ... finally: lock.release()  is
            # `with lock:`
            if fn[2] == 'acquire':
                if args and args[0] != TRUE:
                    # non-blocking / timed: the lock may not be obtained
                    miss = st.fork()
                    res = ('call', fn, tuple(args), (), next(self.uid))
                    a, pol = self.atom(res)
                    st.conds.append((a, pol, node))
                    st.cond_held.append(tuple(st.held))
                    miss.conds.append((a, not pol, node))
                    miss.cond_held.append(tuple(miss.held))
                    self.emit(st, Ev('enter', node, fi, st, ctx=fn[1]))
                    st.held.append(fn[1])
                    return [(st, TRUE), (miss, const(False))]
                self.emit(st, Ev('enter', node, fi, st, ctx=fn[1]))
                st.held.append(fn[1])
                return [(st, TRUE)]
            for i in range(len(st.held) - 1, -1, -1):
                if struct(st.held[i]) == struct(fn[1]):
                    del st.held[i]
                    break
            self.emit(st, Ev('exit', node, fi, st, ctx=fn[1]))
            return [(st, NONE)]
        if k == 'fn' and not isinstance(fn[1].node, ast.Lambda) and \
                self._is_generator(fn[1]) and (
                    self.want_inline(fn[1]) or fn[1].outer is not None):
            # calling a generator function runs nothing yet
            bound = fn[2]
            impl = [bound] if bound is not None and not (
                isinstance(bound, tuple) and bound[0] == 'closure') else []
            return [(st, ('gen', fn[1], tuple(impl + list(args)),
                          tuple(sorted(kwargs.items())), next(self.uid)))]
        if k == 'fn':
            target, bound = fn[1], fn[2]
            impl = []
            if bound is not None and not (isinstance(bound, tuple)
                                          and bound[0] == 'closure'):
                impl = [bound]
            local = isinstance(target.node, ast.Lambda) or (
                target.outer is not None)
            if (local and target not in self.stack
                    and len(self.stack) <= self.max_depth) or \
                    self.want_inline(target):
                return self.invoke(
                    target, impl + list(args), kwargs, st, fi, node,
                    closure=bound[2] if isinstance(bound, tuple) and bound
                    and bound[0] == 'closure' and len(bound) > 2 else None)
            return self.opaque_call(fn, args, kwargs, st, fi, node, [target])
        if k == 'cls':
            return self.construct(fn[1], args, kwargs, st, fi, node)
        if k == 'builtin' or (k == 'ext' and fn[1].startswith('builtins.')):
            nm = fn[1].replace('builtins.', '')
            return self.builtin(nm, fn, args, kwargs, st, fi, node)
        if k == 'attr' and fn[1][0] == 'call' and fn[1][1] == (
                'ext', 're.compile') and fn[2] in RE_METHODS and \
                not fn[1][3] and len(fn[1][2]) in (1, 2):
            # re.compile(P).m(s) is re.m(P, s)
            extra = {'flags': fn[1][2][1]} if len(fn[1][2]) == 2 else {}
            kw = dict(kwargs)
            kw.update(extra)
            return self.apply(('ext', 're.' + fn[2]),
                              [fn[1][2][0]] + list(args), kw, st, fi, node)
        if k == 'attr':
            r = self.method(fn[1], fn[2], args, kwargs, st, fi, node)
            if r is not None:
                return r
            if fn[1][0] in ('list', 'dict', 'set') and fn[2] in MUTATORS:
                # a literal container changed in place: whoever holds it no
                # longer holds the literal
                self.forget_literal(fn[1], st)
                fn = ('attr', ('call', ('builtin', '<mutable>'), (fn[1],),
                               (), next(self.uid)), fn[2])
        targets = []
        if isinstance(node, ast.Call):
            try:
                targets = [m for m, _, _ in self.cg.callee_funcs(fi, node)]
            except Exception:
                targets = []
        if len(targets) == 1 and self.want_inline(targets[0]) and \
                k == 'attr' and self._receiver_is_ours(fn[1], targets[0],
                                                       st, fi, node):
            t = targets[0]
            impl = [fn[1]] if t.kind in ('instance', 'class',
                                         'class_and_instance') else []
            return self.invoke(t, impl + list(args), kwargs, st, fi, node)
        return self.opaque_call(fn, args, kwargs, st, fi, node, targets)

    def _receiver_is_ours(self, recv, target, st, fi, node):
        """The receiver of a method call is known to be an instance of an
        in-repo class that has `target` as that method -- not merely "the
        only in-repo class with a method of that name" (connection.socket is
        a library socket until a wrapper replaces it)."""
        if target.cls is None:
            return True
        ci = self.term_class(recv, st)
        if ci is None and isinstance(node, ast.Call) and isinstance(
                node.func, ast.Attribute):
            if isinstance(node.func.value, ast.Attribute) and \
                    self._field_holds_foreign(node.func.value.attr):
                return False
            try:
                ts = self.cg.etype(fi, node.func.value)
            except Exception:
                ts = ()
            kinds = set(t[0] for t in ts)
            if ts and kinds <= {'inst', 'cls'}:
                cands = [t[1] for t in ts]
                return all(target.cls in self.db.mro(c) for c in cands)
            return False
        return ci is not None and target.cls in self.db.mro(ci)

    def method(self, recv, name, args, kwargs, st, fi, node):
        """Modelled methods of literal values; None = not modelled."""
        if is_const(recv) and isinstance(recv[1], str):
            if name == 'format':
                r = self.format_(recv[1], args, kwargs)
                if r is not None:
                    return [(st, r)]
            if name == 'join' and len(args) == 1 and args[0][0] in (
                    'tuple', 'list'):
                parts = []
                for i, x in enumerate(args[0][1]):
                    if i:
                        parts.append(recv)
                    parts.append(x)
                return [(st, self.concat(parts) if parts else const(''))]
            if name in CONST_STR_METHODS and all(
                    is_const(a) for a in args) and not kwargs:
                try:
                    r = getattr(recv[1], name)(*[a[1] for a in args])
                except Exception:
                    r = None
                if isinstance(r, (str, bytes, bool, int)):
                    return [(st, const(r))]
                if isinstance(r, (list, tuple)) and all(
                        isinstance(x, str) for x in r):
                    return [(st, (type(r).__name__, tuple(
                        const(x) for x in r)))]
            if name in ('encode', 'lower', 'upper', 'strip') and not args:
                return [(st, op('str.' + name, recv))]
        if recv[0] == 'dict' and name == 'get' and args:
            for a, v in recv[1]:
                if struct(a) == struct(args[0]):
                    return [(st, v)]
            if all(is_const(a) for a, _ in recv[1]) and is_const(args[0]):
                return [(st, args[1] if len(args) > 1 else NONE)]
            if self._table_lookup(recv, args[0]):
                default = args[1] if len(args) > 1 else NONE
                return [(s2, default if v is None else v) for s2, v in
                        self.lookup(recv, args[0], st, node)]
        if recv[0] == 'dict' and name in ('items', 'keys', 'values') and \
                not args:
            if name == 'items':
                return [(st, ('tuple', tuple(('tuple', (a, b))
                                             for a, b in recv[1])))]
            return [(st, ('tuple', tuple((a if name == 'keys' else b)
                                         for a, b in recv[1])))]
        if recv[0] == 'list' and name == 'append' and len(args) == 1 and \
                isinstance(node, ast.Call) and isinstance(
                    node.func, ast.Attribute) and isinstance(
                        node.func.value, ast.Name) and \
                node.func.value.id in st.env:
            st.env[node.func.value.id] = ('list', recv[1] + (args[0],))
            return [(st, NONE)]
        if recv[0] == 'dict' and name in ('update', 'setdefault') and \
                isinstance(node, ast.Call) and isinstance(
                    node.func, ast.Attribute) and isinstance(
                        node.func.value, ast.Name) and \
                node.func.value.id in st.env and len(args) <= (
                    1 if name == 'update' else 2):
            pairs = list(recv[1])
            new = []
            ok = True
            if name == 'update':
                if args:
                    a = args[0]
                    if a[0] == 'dict':
                        new.extend(a[1])
                    elif a[0] in ('tuple', 'list') and all(
                            x[0] in ('tuple', 'list') and len(x[1]) == 2
                            for x in a[1]):
                        new.extend((x[1][0], x[1][1]) for x in a[1])
                    else:
                        ok = False
                new.extend((const(k), v) for k, v in kwargs.items())
                res = NONE
            else:
                hit = [v for k, v in pairs if struct(k) == struct(args[0])]
                if hit:
                    res = hit[0]
                elif all(is_const(k) for k, _ in pairs) and is_const(
                        args[0]) and not kwargs:
                    res = args[1] if len(args) > 1 else NONE
                    new.append((args[0], res))
                else:
                    ok = False
            if ok and all(is_const(k) for k, _ in pairs + new):
                for k, v in new:
                    if any(struct(a) == struct(k) for a, _ in pairs):
                        pairs = [(a, v if struct(a) == struct(k) else b)
                                 for a, b in pairs]
                    else:
                        pairs.append((k, v))
                st.env[node.func.value.id] = ('dict', tuple(pairs))
                return [(st, res)]
        if recv[0] == 'set' and name == 'add' and len(args) == 1 and \
                isinstance(node, ast.Call) and isinstance(
                    node.func, ast.Attribute) and isinstance(
                        node.func.value, ast.Name) and \
                node.func.value.id in st.env:
            st.env[node.func.value.id] = ('set', recv[1] + (args[0],))
            return [(st, NONE)]
        return None

    def builtin(self, nm, fn, args, kwargs, st, fi, node):
        if nm == 'getattr' and len(args) >= 2 and is_const(args[1]) and \
                isinstance(args[1][1], str):
            if len(args) == 2:
                if isinstance(node, ast.Call) and node.args and not \
                        isinstance(node.args[0], ast.Starred):
                    # getattr(x, 'name') is x.name
                    node = ast.copy_location(ast.Attribute(
                        value=node.args[0], attr=args[1][1],
                        ctx=ast.Load()), node)
                return self.getattr(args[0], args[1][1], st, fi, node)
            key = (args[0], args[1][1])
            if key in st.heap:
                return [(st, st.heap[key])]
            return [(st, op('getattr', *args))]
        if nm == 'getattr' and len(args) in (2, 3):
            return [(st, op('getattr', *args))]
        if nm == 'setattr' and len(args) == 3 and is_const(args[1]) and \
                isinstance(args[1][1], str):
            self.emit(st, Ev('store', node, fi, st, base=args[0],
                             attr=args[1][1], value=args[2]))
            st.heap[(args[0], args[1][1])] = args[2]
            return [(st, NONE)]
        if nm == 'setattr' and len(args) == 3:
            self.emit(st, Ev('store', node, fi, st, base=args[0],
                             attr=args[1], value=args[2]))
            return [(st, NONE)]
        if nm == 'delattr' and len(args) == 2:
            # del o.<name>
            nmv = args[1][1] if is_const(args[1]) and isinstance(
                args[1][1], str) else args[1]
            self.emit(st, Ev('store', node, fi, st, base=args[0], attr=nmv,
                             value=('deleted',)))
            if isinstance(nmv, str):
                st.heap[(args[0], nmv)] = ('deleted',)
            return [(st, NONE)]
        if nm == 'isinstance' and len(args) == 2:
            return [(st, op('isinstance', args[0], args[1]))]
        if nm == 'bool' and len(args) == 1:
            if is_const(args[0]):
                return [(st, const(bool(args[0][1])))]
            return [(st, op('bool', args[0]))]
        if nm == 'len' and len(args) == 1:
            a = args[0]
            if a[0] in ('tuple', 'list', 'set', 'dict'):
                return [(st, const(len(a[1])))]
            if is_const(a) and isinstance(a[1], (str, bytes, tuple)):
                return [(st, const(len(a[1])))]
            return [(st, op('len', a))]
        if nm == 'str' and len(args) == 1:
            if is_const(args[0]) and isinstance(args[0][1], (str, int)):
                return [(st, const(str(args[0][1])))]
            return [(st, op('str', args[0]))]
        if nm in ('tuple', 'list') and len(args) == 1 and not kwargs:
            seq = self.as_sequence(args[0], st)
            if seq is not None and not (is_const(args[0]) and isinstance(
                    args[0][1], str)):
                return [(st, (nm, tuple(seq)))]
        if nm == 'map' and len(args) >= 2 and not kwargs:
            seqs = [self.as_sequence(a, st, self.unroll) for a in args[1:]]
            if all(q is not None for q in seqs):
                # map over literal sequences with a function that has no
                # effect: the sequence of its results (lazy or not)
                probe = st.fork()
                n0 = len(probe.events)
                vals = []
                for item in zip(*seqs):
                    try:
                        res = self.apply(args[0], list(item), {}, probe, fi,
                                         node)
                    except AnalysisError:
                        res = []
                    if len(res) != 1 or res[0][0] is not probe or \
                            probe.outcome is not None or \
                            len(probe.events) != n0:
                        vals = None
                        break
                    vals.append(res[0][1])
                if vals is not None:
                    # function objects made on the way keep their frames
                    st.notes.extend(probe.notes[len(st.notes):])
                    return [(st, ('tuple', tuple(vals)))]
        if nm == 'dict' and len(args) == 1:
            a = args[0]
            pairs = None
            if a[0] == 'dict':
                pairs = list(a[1])
            elif a[0] in ('tuple', 'list') and all(
                    x[0] in ('tuple', 'list') and len(x[1]) == 2
                    for x in a[1]):
                pairs = [(x[1][0], x[1][1]) for x in a[1]]
            elif a[0] == 'op' and a[1] == 'zip' and len(a[2]) == 2 and all(
                    x[0] in ('tuple', 'list') for x in a[2]) and \
                    len(a[2][0][1]) == len(a[2][1][1]):
                pairs = list(zip(a[2][0][1], a[2][1][1]))
            if pairs is not None and all(is_const(k) for k, _ in pairs):
                res = []
                for k, v in pairs + [(const(k), v)
                                     for k, v in kwargs.items()]:
                    res = [(a2, b2) for a2, b2 in res if a2 != k] + [(k, v)]
                return [(st, ('dict', tuple(res)))]
        if nm == 'dict' and not args:
            return [(st, ('dict', tuple((const(k), v)
                                        for k, v in kwargs.items())))]
        if nm == 'format' and len(args) == 2 and is_const(args[1]):
            return [(st, op('fmt', const(':' + str(args[1][1])), args[0]))]
        if nm in BUILTIN_EXC or nm.endswith('Error') or nm.endswith(
                'Exception') or nm in ('StopIteration', 'KeyboardInterrupt'):
            return [(st, ('call', fn, tuple(args), tuple(sorted(
                kwargs.items())), next(self.uid)))]
        if nm in PURE_BUILTINS:
            out = []
            if nm in RAISING_BUILTINS and self.implicit and \
                    st.try_depth > 0 and st.outcome is None and \
                    not all(is_const(a) for a in args):
                # inside a try the author expects this conversion to fail
                # for some argument: that path exists
                r = st.fork()
                xc = RAISING_BUILTINS[nm]
                r.outcome = ('raise', ('call', ('builtin', xc), (), (),
                                       next(self.uid)) if xc else
                             ('exc', None, next(self.uid)), node,
                             'implicit')
                out.append((r, BOT))
            out.append((st, ('op', nm, tuple(args) + tuple(
                op('kw:' + k, v) for k, v in sorted(kwargs.items())))))
            return out
        return self.opaque_call(fn, args, kwargs, st, fi, node, [])

    def never_returns(self, target):
        """Every path of the in-repo function ends in a raise."""
        cache = self.__dict__.setdefault('_noreturn', {})
        if target not in cache:
            cache[target] = False       # recursion guard
            if isinstance(target.node, ast.Lambda) or any(
                    isinstance(n, (ast.Yield, ast.YieldFrom))
                    for n in ast.walk(target.node)):
                return False
            try:
                sub = PathSum(self.db, self.cg, implicit_raises=False,
                              max_paths=400, max_depth=2)
                sub._noreturn = cache
                paths = sub.run(target)
                cache[target] = bool(paths) and all(
                    p.raises and len(p.outcome) == 3 for p in paths)
            except AnalysisError:
                cache[target] = False
        return cache[target]

    def opaque_call(self, fn, args, kwargs, st, fi, node, targets):
        res = ('call', fn, tuple(args), tuple(sorted(kwargs.items())),
               next(self.uid))
        if fn == ('ext', 'sys.exc_info') and not args and \
                st.env.get('<exc>') is not None:
            # inside a handler: the triple describes the exception being
            # handled, so its [1] is that exception
            self.__dict__.setdefault('excinfo', {})[res[4]] = \
                st.env['<exc>']
        if targets and all(t in getattr(self, 'pure', ()) for t in targets):
            # a query without effects: a value, not an event; the same
            # question asked twice has the same answer
            return [(st, ('call', fn, tuple(args), tuple(sorted(
                kwargs.items())), 0))]
        ev = Ev('call', node, fi, st, fn=fn, args=tuple(args),
                kwargs=tuple(sorted(kwargs.items())), res=res,
                targets=list(targets))
        out = []
        if self.implicit and st.try_depth > 0 and fn not in (
                ('ext', 'sys.exc_info'), ('ext', 'time.time'),
                ('ext', 'time.monotonic'), ('ext', 'threading.current_thread')):
            # (the few library calls that cannot fail do not fork)
            r = st.fork()
            rev = copy.copy(ev)
            rev.raised = True
            r.events.append(rev)
            r.outcome = ('raise', ('exc', None, next(self.uid)), node,
                         'implicit')
            out.append((r, BOT))
        self.emit(st, ev)
        if len(targets) == 1 and st.outcome is None and \
                self.never_returns(targets[0]):
            # the callee raises on every path of its own
            st.outcome = ('raise', ('exc', None, next(self.uid)), node,
                          'callee')
            out.append((st, BOT))
            return out
        out.append((st, res))
        return out

    def construct(self, ci, args, kwargs, st, fi, node):
        o = ('obj', next(self.uid), ci.qualname, ci)
        init = self.db.find_method(ci, '__init__')
        if init is None or init in self.opaque or init in self.stack or \
                len(self.stack) > self.max_depth:
            if init is None and self.db.find_method(ci, '__new__') is None \
                    and self.nt_fields(ci) is not None and not any(
                        x[0] == 'op' and x[1] == 'star' for x in args) \
                    and '**' not in kwargs:
                # a class over a namedtuple: the arguments are its fields
                names = self.nt_fields(ci)
                vals = dict(zip(names, args))
                if len(args) <= len(names) and not (
                        set(vals) & set(kwargs)) and \
                        set(vals) | set(kwargs) == set(names):
                    vals.update(kwargs)
                    for k in names:
                        st.heap[(o, k)] = vals[k]
                    return [(st, o)]
            if init is None:
                # external base: keep the constructor arguments
                st.heap[(o, 'args')] = ('tuple', tuple(args))
                for k, v in kwargs.items():
                    st.heap[(o, 'kw:' + k)] = v
                return [(st, o)]
            return [(s, o if s.outcome is None else BOT) for s, _ in
                    self.opaque_call(('fn', init, o), args, kwargs, st, fi,
                                     node, [init])]
        out = []
        for s, _ in self.invoke(init, [o] + list(args), kwargs, st, fi,
                                node):
            out.append((s, o if s.outcome is None else BOT))
        return out

    def invoke(self, target, args, kwargs, st, fi, node, closure=None):
        """Inline the body of target.  -> [(state, result term)]"""
        a = target.node.args
        params = [x.arg for x in a.posonlyargs + a.args]
        env = {'<frame>': next(self.uid)}
        if closure is not None:
            env['<closure>'] = closure
        args = list(args)
        if any(x[0] == 'op' and x[1] == 'star' for x in args) or \
                '**' in kwargs:
            return self.opaque_call(('fn', target, None), args, kwargs, st,
                                    fi, node, [target])
        if len(args) > len(params):
            if a.vararg is None:
                raise self.err('too many arguments for %s'
                               % target.qualname, node, fi)
            env[a.vararg.arg] = ('tuple', tuple(args[len(params):]))
            args = args[:len(params)]
        elif a.vararg is not None:
            env[a.vararg.arg] = ('tuple', ())
        for p, v in zip(params, args):
            env[p] = v
        rest = dict(kwargs)
        allp = params + [x.arg for x in a.kwonlyargs]
        for p in allp:
            if p in rest and p not in env:
                env[p] = rest.pop(p)
        if a.kwarg is not None:
            env[a.kwarg.arg] = ('dict', tuple((const(k), v)
                                              for k, v in sorted(
                                                  rest.items())))
            rest = {}
        if rest:
            raise self.err('unexpected keyword %s for %s' % (
                sorted(rest), target.qualname), node, fi)
        # defaults (evaluated in the callee's module, no locals)
        defaults = dict(zip(params[len(params) - len(a.defaults):],
                            a.defaults))
        for x, d in zip(a.kwonlyargs, a.kw_defaults):
            if d is not None:
                defaults[x.arg] = d
        states = [st]
        for p in allp:
            if p in env:
                continue
            if p not in defaults:
                raise self.err('missing argument %s for %s' % (
                    p, target.qualname), node, fi)
            nx = []
            for s in states:
                s.frames.append({})
                for s2, v in self.ev(defaults[p], s, target):
                    s2.frames.pop()
                    nx.append((s2, v))
            # defaults are constants in this repository: take the first
            env[p] = nx[0][1]
            states = [s for s, _ in nx[:1]]
        st = states[0]
        self.stack.append(target)
        try:
            st.frames.append(env)
            if isinstance(target.node, ast.Lambda):
                res = []
                for s, v in self.ev(target.node.body, st, target):
                    if s.outcome is None:
                        s.outcome = ('return', v, target.node)
                    res.append(s)
            else:
                res = self.block(target.node.body, [st], target)
        finally:
            self.stack.pop()
        out = []
        for s in res:
            s.frames.pop()
            oc = s.outcome
            if oc is None:
                out.append((s, NONE))
            elif oc[0] == 'return':
                s.outcome = None
                out.append((s, oc[1]))
            elif oc[0] in ('raise', 'genbreak', 'genleave'):
                out.append((s, BOT))
            else:
                raise self.err('break/continue escaping %s'
                               % target.qualname, node, fi)
        if len(out) > self.max_paths:
            raise Budget()
        return out

    # -- compound statements --------------------------------------------------
    def with_(self, n, st, fi):
        ce = n.items[0].context_expr if len(n.items) == 1 else None
        if isinstance(ce, ast.Call) and n.items[0].optional_vars is None:
            probe = st.fork()
            try:
                ft = self.ev(ce.func, probe, fi)[0][1]
            except AnalysisError:
                ft = None
            if ft == ('ext', 'contextlib.suppress') and ce.args and \
                    not ce.keywords:
                # with suppress(E): body  ==  try: body / except E: pass
                typ = ce.args[0] if len(ce.args) == 1 else ast.Tuple(
                    elts=list(ce.args), ctx=ast.Load())
                t = ast.Try(body=n.body, handlers=[ast.ExceptHandler(
                    type=typ, name=None, body=[ast.Pass()])], orelse=[],
                    finalbody=[])
                ast.copy_location(t, n)
                ast.fix_missing_locations(t)
                return self.try_(t, st, fi)
            if ft is not None and ft[0] == 'cls' and isinstance(
                    ft[1], ClassInfo) and not ce.args and not ce.keywords:
                typ = self._exit_filter(ft[1], fi)
                if typ is not None:
                    # with C(): body  ==  try: body / except E: pass, for a
                    # class whose __exit__ suppresses exactly the E's
                    t = ast.Try(body=n.body, handlers=[ast.ExceptHandler(
                        type=typ, name=None, body=[ast.Pass()])], orelse=[],
                        finalbody=[])
                    ast.copy_location(t, n)
                    ast.fix_missing_locations(t)
                    return self.try_(t, st, fi)
        states = [st]
        ctxs = []
        managed = None      # (object, __exit__) of an in-repo manager
        for item in n.items:
            nx = []
            for s in states:
                for s2, c in self.ev(item.context_expr, s, fi):
                    if s2.outcome is not None:
                        nx.append(s2)
                        continue
                    self.emit(s2, Ev('enter', n, fi, s2, ctx=c))
                    s2.held.append(c)
                    val = [(s2, c)]
                    if len(n.items) == 1 and c[0] == 'obj' and isinstance(
                            c[3], ClassInfo):
                        ex = self.db.find_method(c[3], '__exit__')
                        en = self.db.find_method(c[3], '__enter__')
                        if ex is not None and en is not None and \
                                ex not in self.stack and \
                                len(self.stack) <= self.max_depth:
                            # an in-repo context manager object: __enter__
                            # gives the bound value, __exit__ sees how the
                            # body ended
                            managed = (c, ex)
                            val = self.invoke(en, [c], {}, s2, fi, n)
                    for s3, v in val:
                        if s3.outcome is not None:
                            nx.append(s3)
                        elif item.optional_vars is not None:
                            nx.extend(self.assign(item.optional_vars, v, s3,
                                                  fi, n))
                        else:
                            nx.append(s3)
            states = nx
        live = [s for s in states if s.outcome is None]
        dead = [s for s in states if s.outcome is not None]
        if managed is not None:
            for s in live:
                s.try_depth += 1    # __exit__ observes what the body raises
        outs = self.block(n.body, live, fi)
        final = []
        for s in outs:
            # leave the contexts on every outcome
            oc, s.outcome = s.outcome, None
            if managed is not None:
                s.try_depth = max(0, s.try_depth - 1)
            for item in reversed(n.items):
                if s.held:
                    c = s.held.pop()
                    self.emit(s, Ev('exit', n, fi, s, ctx=c))
            if managed is None:
                s.outcome = oc
                final.append(s)
                continue
            c, ex = managed
            raised = oc is not None and oc[0] == 'raise'
            if raised:
                xa = [c, op('type', oc[1]), oc[1],
                      ('call', ('builtin', '<traceback>'), (), (),
                       next(self.uid))]
            else:
                xa = [c, NONE, NONE, NONE]
            for s4, rv in self.invoke(ex, xa, {}, s, fi, n):
                if s4.outcome is not None and s4.outcome[0] == 'raise':
                    final.append(s4)        # __exit__ itself raised
                    continue
                s4.outcome = None
                if not raised:
                    s4.outcome = oc
                    final.append(s4)
                    continue
                for s5, tr in self.split(op('truth', rv), s4, n):
                    if not tr:
                        s5.outcome = oc     # not suppressed
                    final.append(s5)
        return dead + final

    def _exit_filter(self, ci, fi):
        """For an in-repo context-manager class without state whose
        __enter__ does nothing and whose __exit__ is `return t is not None
        and issubclass(t, E)` (or `isinstance(v, E)`): the expression E,
        provided it means the same in fi's module; else None.  A class with
        an __exit__ of another shape is not interpreted (analysis error: it
        may suppress anything)."""
        ex = self.db.find_method(ci, '__exit__')
        en = self.db.find_method(ci, '__enter__')
        if ex is None or en is None:
            return None
        if ci.module is not fi.module:
            raise AnalysisError('context manager %s from another module is '
                                'not interpreted' % ci.qualname, ex.node,
                                rel(ex.path))

        def trivial(body):
            body = [b for b in body if not (isinstance(b, ast.Expr)
                                            and isinstance(b.value,
                                                           ast.Constant))]
            return all(isinstance(b, ast.Pass) or (
                isinstance(b, ast.Return) and (b.value is None or (
                    isinstance(b.value, ast.Name)
                    and b.value.id == en.params[0]) or (
                        isinstance(b.value, ast.Constant)
                        and b.value.value is None))) for b in body)
        if not trivial(en.body) or self.db.find_method(ci, '__init__') \
                is not None:
            raise AnalysisError('context manager %s: __enter__ / __init__ '
                                'with effects is not interpreted'
                                % ci.qualname, en.node, rel(en.path))
        body = [b for b in ex.body if not (isinstance(b, ast.Expr)
                                           and isinstance(b.value,
                                                          ast.Constant))]
        if len(ex.params) != 4 or len(body) != 1 or not isinstance(
                body[0], ast.Return) or body[0].value is None:
            raise AnalysisError('context manager %s: __exit__ of this shape '
                                'is not interpreted' % ci.qualname, ex.node,
                                rel(ex.path))
        t, v = ex.params[1], ex.params[2]
        e = body[0].value

        def sub_or_inst(x):
            if isinstance(x, ast.Call) and isinstance(x.func, ast.Name) and \
                    len(x.args) == 2 and not x.keywords and isinstance(
                        x.args[0], ast.Name):
                if x.func.id == 'issubclass' and x.args[0].id == t:
                    return x.args[1]
                if x.func.id == 'isinstance' and x.args[0].id == v:
                    return x.args[1]
            return None
        typ = sub_or_inst(e)
        if typ is None and isinstance(e, ast.BoolOp) and isinstance(
                e.op, ast.And) and len(e.values) == 2:
            g, r = e.values
            guard_ok = isinstance(g, ast.Compare) and len(g.ops) == 1 and \
                isinstance(g.ops[0], ast.IsNot) and isinstance(
                    g.left, ast.Name) and g.left.id in (t, v) and \
                isinstance(g.comparators[0], ast.Constant) and \
                g.comparators[0].value is None
            if guard_ok:
                typ = sub_or_inst(r)
        if typ is None:
            raise AnalysisError('context manager %s: __exit__ of this shape '
                                'is not interpreted' % ci.qualname, ex.node,
                                rel(ex.path))
        return typ

    def handler_match(self, h, exc, st, fi):
        """True / False / None: does handler h catch exception term exc?"""
        if h.type is None:
            return True
        probe = st.fork()
        probe.outcome = None
        res = self.ev(h.type, probe, fi)
        t = res[0][1]
        if exc[0] == 'exc' and exc[1] is None:
            return None
        xc = self.class_of(exc)
        if xc is None:
            return None
        cands = t[1] if t[0] == 'tuple' else (t,)
        any_unknown = False
        for k in cands:
            r = self._subclass(xc, k)
            if r:
                return True
            if r is None:
                any_unknown = True
        return None if any_unknown else False

    def _catches_all(self, h, st, fi):
        if h.type is None:
            return True
        probe = st.fork()
        probe.outcome = None
        t = self.ev(h.type, probe, fi)[0][1]
        cands = t[1] if t[0] == 'tuple' else (t,)
        return any(k[0] in ('builtin', 'ext') and k[1].replace(
            'builtins.', '') in ('Exception', 'BaseException')
            for k in cands)

    def try_(self, n, st, fi):
        st.try_depth += 1
        outs = self.block(n.body, [st], fi)
        done = []
        after_body = []
        for s in outs:
            s.try_depth -= 1
            if s.outcome is None:
                after_body.append(s)
                continue
            if s.outcome[0] != 'raise' or not n.handlers:
                done.append(s)
                continue
            exc = s.outcome[1]
            implicit = len(s.outcome) > 3 and s.outcome[3] == 'implicit'
            rnode = s.outcome[2]
            pending = [s]
            for h in n.handlers:
                if not pending:
                    break
                nxt = []
                for p in pending:
                    m = self.handler_match(h, exc, p, fi)
                    if m is False:
                        nxt.append(p)
                        continue
                    if m is None:
                        q = p.fork()
                        nxt.append(q)
                    hs = p
                    hs.outcome = None
                    caught = exc
                    if exc[0] == 'exc' and exc[1] is None:
                        tname = self._handler_class(h, hs, fi)
                        caught = ('exc', tname, exc[2])
                    if h.name:
                        hs.env[h.name] = caught
                    hs.env['<exc>'] = caught
                    hs.notes.append(('caught', h, caught, rnode))
                    done.extend(self.block(h.body, [hs], fi))
                    if m is None and implicit and self._catches_all(
                            h, hs, fi):
                        nxt = [x for x in nxt if x is not q]
                pending = nxt
            # an implicit exception no handler is known to take propagates
            done.extend(pending)
        if n.orelse:
            after_body = self.block(n.orelse, after_body, fi)
        allst = after_body + done
        if n.finalbody:
            res = []
            for s in allst:
                oc, s.outcome = s.outcome, None
                for f in self.block(n.finalbody, [s], fi):
                    if f.outcome is None:
                        f.outcome = oc
                    res.append(f)
            allst = res
        return allst

    def _handler_class(self, h, st, fi):
        if h.type is None:
            return ('name', 'BaseException')
        probe = st.fork()
        probe.outcome = None
        t = self.ev(h.type, probe, fi)[0][1]
        k = t[1][0] if t[0] == 'tuple' and t[1] else t
        if k[0] == 'cls':
            return ('repo', k[1])
        if k[0] in ('ext', 'builtin'):
            return ('name', k[1].replace('builtins.', ''))
        return None

    def loop(self, n, st, fi):
        is_for = isinstance(n, ast.For)
        starts = [(st, None)]
        if is_for:
            starts = self.ev(n.iter, st, fi)
        out = []
        for s, it in starts:
            if s.outcome is not None:
                out.append(s)
                continue
            items = None
            if is_for and it[0] == 'gen':
                out.extend(self.iterate_generator(n, s, it, fi))
                continue
            if is_for:
                items = self.as_sequence(it, s, self.unroll)
                if items is not None:
                    pass
                elif it[0] == 'op' and it[1] == 'range' and len(
                        it[2]) == 1 and is_const(it[2][0]) and isinstance(
                            it[2][0][1], int) and \
                        0 <= it[2][0][1] <= self.unroll:
                    items = [const(i) for i in range(it[2][0][1])]
            if items is not None:
                live = [s]
                finished = []
                broke = []
                for item in items:
                    nx = []
                    for l in live:
                        for l2 in self.assign(n.target, item, l, fi, n):
                            nx.extend(self.block(n.body, [l2], fi))
                    live = []
                    for l in nx:
                        if l.outcome is None:
                            live.append(l)
                        elif l.outcome[0] == 'continue':
                            l.outcome = None
                            live.append(l)
                        elif l.outcome[0] == 'break':
                            l.outcome = None
                            broke.append(l)
                        else:
                            finished.append(l)
                if n.orelse:
                    live = self.block(n.orelse, live, fi)
                out.extend(live + broke + finished)
                continue
            out.extend(self.summarise_loop(n, s, it, fi))
        return out

    def summarise_loop(self, n, s, it, fi):
        """One symbolic iteration; written locals / attributes are havocked
        afterwards.  Body paths that return or raise leave the function from
        inside the loop."""
        is_for = isinstance(n, ast.For)
        written = set()
        wattrs = set()
        for x in (y for b in n.body for y in ast.walk(b)):
            if isinstance(x, ast.Name) and isinstance(x.ctx, ast.Store):
                written.add(x.id)
            elif isinstance(x, ast.Attribute) and isinstance(
                    x.ctx, ast.Store):
                wattrs.add(x.attr)
            elif isinstance(x, ast.Subscript) and isinstance(
                    x.ctx, (ast.Store, ast.Del)) and isinstance(
                        x.value, ast.Name):
                written.add(x.value.id)     # d[k] = v changes d
            elif isinstance(x, ast.Subscript) and isinstance(
                    x.ctx, (ast.Store, ast.Del)) and isinstance(
                        x.value, ast.Attribute):
                wattrs.add(x.value.attr)    # o.d[k] = v changes o.d
            elif isinstance(x, ast.Call) and isinstance(
                    x.func, ast.Attribute) and isinstance(
                        x.func.value, ast.Name) and \
                    x.func.attr in MUTATORS:
                written.add(x.func.value.id)
            elif isinstance(x, ast.Call) and isinstance(
                    x.func, ast.Attribute) and isinstance(
                        x.func.value, ast.Attribute) and \
                    x.func.attr in MUTATORS:
                wattrs.add(x.func.value.attr)   # o.items.append(v)
        if is_for:
            for x in ast.walk(n.target):
                if isinstance(x, ast.Name):
                    written.add(x.id)
        # a loop of a generator that is being consumed runs the consumer's
        # loop body at every yield: what that body writes (in the consumer's
        # frame) is loop-carried too
        outer_written = []
        if any(isinstance(x, (ast.Yield, ast.YieldFrom))
               for b in n.body for x in ast.walk(b)):
            for h in s.yielders:
                ws = set()
                for x in (y for b in h['node'].body for y in ast.walk(b)):
                    if isinstance(x, ast.Name) and isinstance(
                            x.ctx, ast.Store):
                        ws.add(x.id)
                    elif isinstance(x, ast.Attribute) and isinstance(
                            x.ctx, ast.Store):
                        wattrs.add(x.attr)
                for x in ast.walk(h['node'].target):
                    if isinstance(x, ast.Name):
                        ws.add(x.id)
                outer_written.append((h['frame'], ws))
        base_nconds = len(s.conds)
        ctx = it if is_for else sym('<while>')

        def iteration(keep):
            """one symbolic iteration; names in `keep` start with their
            value before the loop instead of an unknown loop-carried one"""
            body = s.fork()
            body.events = []
            body.conds = list(s.conds)
            body.loops.append(n)
            phis = {}
            for w in sorted(written):
                if w in body.env and w not in keep:
                    phis[w] = body.env[w] = ('phi', w, next(self.uid))
            for fidx, ws in outer_written:
                for w in sorted(ws):
                    if w in body.frames[fidx] and w not in keep:
                        phis[w] = body.frames[fidx][w] = (
                            'phi', w, next(self.uid))
            for k in list(body.heap):
                if k[1] in wattrs:
                    del body.heap[k]
            starts = [body]
            if is_for and it[0] == 'op' and it[1] == 'iter' and \
                    len(it[2]) == 2:
                # for x in iter(f, sentinel): each round calls f(); the
                # loop ends when the result equals the sentinel
                starts = []
                for b2, v in self.apply(it[2][0], [], {}, body, fi, n):
                    if b2.outcome is not None:
                        starts.append(b2)
                        continue
                    for b3, eq in self.split(op('==', v, it[2][1]), b2, n):
                        if eq:
                            b3.outcome = ('break', 'cond')
                            starts.append(b3)
                        else:
                            starts.extend(self.assign(n.target, v, b3, fi,
                                                      n))
            elif is_for:
                el = ('elem', it, next(self.uid))
                starts = self.assign(n.target, el, body, fi, n)
            else:
                nx = []
                for b in starts:
                    for b2, t in self.branch(n.test, b, fi):
                        if b2.outcome is not None:
                            nx.append(b2)
                        elif t:
                            nx.append(b2)
                        else:
                            b2.outcome = ('break', 'cond')
                            nx.append(b2)
                starts = nx
            return self.block(n.body, starts, fi), phis
        # pass 1: every written name loop-carried.  A name that every
        # iteration which goes on to the next one leaves as it found it
        # (a flag set just before `break`) is not loop-carried at all:
        # pass 2 lets it keep its value from before the loop.
        res, phis = iteration(set())
        keep = set()
        targets = set(x.id for x in ast.walk(n.target)
                      if isinstance(x, ast.Name)) if is_for else set()
        for w, ph in phis.items():
            if w in targets:
                continue
            goes_on = [b for b in res if b.outcome is None or
                       b.outcome[0] == 'continue' or
                       (b.outcome[0] == 'break' and len(b.outcome) == 2)]
            if goes_on and all(b.frames[-1].get(w) == ph for b in goes_on):
                keep.add(w)
        if keep:
            res2, phis2 = iteration(keep)
            goes_on = [b for b in res2 if b.outcome is None or
                       b.outcome[0] == 'continue' or
                       (b.outcome[0] == 'break' and len(b.outcome) == 2)]
            if all(b.frames[-1].get(w) == s.env.get(w) for b in goes_on
                   for w in keep):
                res, phis = res2, phis2
            else:
                keep = set()
        paths = []
        exits = []
        breaks = []
        for b in res:
            b.loops.pop() if b.loops and b.loops[-1] is n else None
            p = Path(b)
            p.conds = b.conds[base_nconds:]
            p.env = b.frames[-1]
            paths.append(p)
            if b.outcome is not None and b.outcome[0] in (
                    'return', 'raise', 'genbreak', 'genleave'):
                exits.append(b)
            elif b.outcome is not None and b.outcome[0] == 'break' and \
                    len(b.outcome) == 1:
                breaks.append(b)
        pre = {w: s.env.get(w) for w in written if w in s.env}
        for fidx, ws in outer_written:
            for w in ws:
                if w in s.frames[fidx]:
                    pre[w] = s.frames[fidx][w]
        loop_ev = Ev('loop', n, fi, s, ctx=ctx, paths=paths, pre=pre,
                     phis=dict(phis))
        s.events.append(loop_ev)
        for w in sorted(written):
            if w not in keep:
                s.env[w] = ('phi', w, next(self.uid))
        for fidx, ws in outer_written:
            for w in sorted(ws):
                if w in s.frames[fidx] and w not in keep:
                    s.frames[fidx][w] = ('phi', w, next(self.uid))
        for k in list(s.heap):
            if k[1] in wattrs:
                del s.heap[k]
        out = []
        # early exits: the function leaves from inside the loop
        for b in exits:
            e = s.fork()
            e.events = list(s.events) + [x for x in b.events]
            e.conds = list(b.conds)
            e.cond_held = list(b.cond_held)
            e.outcome = b.outcome
            e.heap = b.heap
            e.frames = b.frames
            e.notes = list(b.notes) + ([('left-by-return', n, Path(b))]
                                       if b.outcome[0] == 'return' else [])
            out.append(e)
        # leaving by `break`: the variables hold what that iteration left
        for b in breaks:
            e = s.fork()
            e.conds = list(b.conds)
            e.cond_held = list(b.cond_held)
            for w in sorted(written):
                if w in b.env:
                    e.env[w] = b.env[w]
            for k, v in b.heap.items():
                if k[1] in wattrs:
                    e.heap[k] = v
            e.notes = list(s.notes) + [('left-by-break', n, Path(b))]
            out.append(e)
        # exhaustion (or a false while-condition): the else clause runs
        if not is_for and isinstance(n.test, ast.Constant) and n.test.value:
            return out          # `while True` is left by break / return only
        s.notes.append(('exhausted', n, None))
        if n.orelse:
            out.extend(self.block(n.orelse, [s], fi))
        else:
            out.append(s)
        return out


# ---------------------------------------------------------------------------
# queries over summaries
def path_terms(path):
    """Every term a path mentions (conditions, effects, outcome)."""
    for a, _, _ in path.conds:
        for t in subterms(a):
            yield t
    for e in path.flat():
        for x in (e.fn, e.base, e.key, e.value, e.ctx, e.res):
            if isinstance(x, tuple):
                for t in subterms(x):
                    yield t
        for x in (e.args or ()):
            for t in subterms(x):
                yield t
        for _, x in (e.kwargs or ()):
            for t in subterms(x):
                yield t
        if e.kind == 'loop':
            for p in e.paths:
                for t in path_terms(p):
                    yield t
    if len(path.outcome) > 1 and isinstance(path.outcome[1], tuple):
        for t in subterms(path.outcome[1]):
            yield t


def arith_key(t):
    """Normal form of + and * modulo associativity and commutativity (for
    comparing index arithmetic), identities erased."""
    t = struct(t)
    if t[0] == 'op' and t[1] in ('+', '*') and len(t[2]) == 2:
        items = []

        def flat(x):
            if x[0] == 'op' and x[1] == t[1] and len(x[2]) == 2:
                flat(x[2][0])
                flat(x[2][1])
            else:
                items.append(arith_key(x))
        flat(t)
        return ('ac', t[1], tuple(sorted(items, key=repr)))
    if t[0] == 'op':
        return ('op', t[1], tuple(arith_key(x) for x in t[2]))
    return t


def replace(t, old, new):
    """t with every occurrence of the (structural) subterm old replaced."""
    if struct(t) == struct(old):
        return new
    if not isinstance(t, tuple):
        return t
    return tuple(replace(x, old, new) if isinstance(x, tuple) else x
                 for x in t)


def known_unit_pred():
    """inline_pred: inline exactly the in-repo functions that are not units
    of the confirmed tree (helpers a later edit extracted)."""
    from .normalize import known_units
    known = known_units()[0]

    def pred(t):
        return t.qualname not in known.get(t.module.name, ())
    return pred
