"""Folded protocol model: for each known version, the 8 state/direction
packet tables, each member's id and its field layout -- computed by the
fold engine from the source, never by importing it."""
import ast

from .common import AnalysisError, rel
from .fold import (Folder, ClassVal, FuncVal, Instance, Opaque, FoldRaise,
                   Env, ExtVal, ExtInstance)
from .srcdb import ClassInfo

STATES = ('handshake', 'status', 'login', 'play')
DIRS = ('clientbound', 'serverbound')
PKT = 'minecraft.networking.packets'


class Raises(object):
    __slots__ = ('exc', 'args')

    def __init__(self, exc, args=()):
        self.exc = exc
        self.args = args

    def __repr__(self):
        return 'Raises(%s)' % self.exc


def type_name(t):
    """Canonical text of a wire-type term."""
    if isinstance(t, ClassVal):
        return t.ci.qualname
    if isinstance(t, Instance):
        args, kwargs = t.ctor_args or ([], {})
        parts = [type_name(a) for a in args]
        parts += ['%s=%s' % (k, type_name(v)) for k, v in sorted(kwargs.items())]
        return '%s(%s)' % (t.ci.qualname, ', '.join(parts))
    return repr(t)


class Proto(object):
    def __init__(self, db, folder=None):
        self.db = db
        self.F = folder or Folder(db)
        self.T = self.F.tables()
        self.known = list(self.T['KNOWN_PROTOCOL_VERSIONS'])
        self.supported = list(self.T['SUPPORTED_PROTOCOL_VERSIONS'])
        self.release = list(self.T['RELEASE_PROTOCOL_VERSIONS'])
        self.index = dict(self.T['PROTOCOL_VERSION_INDICES'])
        self._ctx = {}
        self._tables = {}
        self._ids = {}
        self._defs = {}
        self.packet_ci = db.get_class(PKT + '.packet', 'Packet')
        self.type_ci = db.get_class('minecraft.networking.types.basic', 'Type')
        self.names = {}
        for name, proto in self.T['KNOWN_MINECRAFT_VERSIONS'].items():
            self.names.setdefault(proto, []).append(name)

    def vname(self, v):
        ns = self.names.get(v, [])
        pre = 'PRE|%d' % (v & ~(1 << 30)) if v >= (1 << 30) else str(v)
        return '%s(%s)' % (pre, ns[0] if ns else '?')

    def ctx(self, v):
        c = self._ctx.get(v)
        if c is None:
            c = self._ctx[v] = self.F.context(v)
        return c

    def table_func(self, direction, state):
        return self.db.get_func('%s.%s.%s' % (PKT, direction, state),
                                'get_packets')

    def table(self, direction, state, v):
        key = (direction, state, v)
        if key not in self._tables:
            fi = self.table_func(direction, state)
            try:
                res = self.F.call_func(FuncVal(fi), [self.ctx(v)], {},
                                       fi.node, Env(fi.module))
            except FoldRaise as e:
                res = Raises(e.exc_type, e.exc_args)
            if not isinstance(res, Raises):
                if not isinstance(res, (set, list, tuple, frozenset)):
                    raise AnalysisError(
                        'get_packets does not fold to a collection: %r'
                        % (res,), fi.node, rel(fi.path))
                for p in res:
                    if not isinstance(p, ClassVal):
                        raise AnalysisError(
                            'get_packets member is not a class: %r' % (p,),
                            fi.node, rel(fi.path))
                res = sorted(res, key=lambda c: c.ci.fq)
            self._tables[key] = res
        return self._tables[key]

    def _call_cls(self, cv, name, v):
        attr = self.F.getattr(cv, name, cv.ci.node, cv.ci.module)
        return self.F.call(attr, [self.ctx(v)], {}, cv.ci.node,
                           Env(cv.ci.module))

    def table_id(self, cv, v):
        """What PacketReactor.__init__ keys its dict with:
        packet.get_id(context)."""
        key = (cv, v)
        if key not in self._ids:
            try:
                r = self._call_cls(cv, 'get_id', v)
            except FoldRaise as e:
                r = Raises(e.exc_type, e.exc_args)
            self._ids[key] = r
        return self._ids[key]

    def wire_id(self, cv, v):
        """What Packet.write sends: instance.id -> class attr `id`, or the
        Packet.id property -> self.get_id(self.context)."""
        ad = self.db.find_attr(cv.ci, 'id')
        if ad is None:
            return Raises('AttributeError', ('id',))
        if ad.kind == 'def':
            return self.table_id(cv, v)
        try:
            return self._instance_view(self.F.attrdef_value(ad, cv), cv, v)
        except FoldRaise as e:
            return Raises(e.exc_type, e.exc_args)

    def _instance_view(self, val, cv, v):
        """A class attribute that holds an instance of an in-repo descriptor
        class (id = overridable_property(getter)): what an instance of the
        packet with the context of version v reads through its __get__."""
        from .fold import Instance, FuncVal
        if isinstance(val, Instance):
            get = self.db.find_method(val.ci, '__get__')
            if get is not None:
                inst = Instance(cv.ci, {'context': self.ctx(v)})
                return self.F.call_func(FuncVal(get, bound=val),
                                        [inst, cv], {}, cv.ci.node,
                                        Env(get.module))
        return val

    def definition(self, cv, v):
        """Field layout instance.definition denotes: list of (name, type
        term), or None when the class has no declarative layout, or Raises."""
        key = (cv, v)
        if key in self._defs:
            return self._defs[key]
        ad = self.db.find_attr(cv.ci, 'definition')
        try:
            if ad is None:
                raw = None
            elif ad.kind == 'def':
                raw = self._call_cls(cv, 'get_definition', v)
            else:
                raw = self._instance_view(self.F.attrdef_value(ad, cv), cv, v)
        except FoldRaise as e:
            raw = Raises(e.exc_type, e.exc_args)
        self._defs[key] = raw
        return raw

    def custom_codec(self, ci):
        """(reader FuncInfo or None, writer FuncInfo or None) when the class
        does not use Packet.read / Packet.write_fields."""
        rd = self.db.find_method(ci, 'read')
        wr = self.db.find_method(ci, 'write_fields')
        base_rd = self.db.own_method(self.packet_ci, 'read')
        base_wr = self.db.own_method(self.packet_ci, 'write_fields')
        return (None if rd is base_rd else rd, None if wr is base_wr else wr)

    def all_table_classes(self, versions=None):
        out = {}
        for v in versions or self.known:
            for d in DIRS:
                for s in STATES:
                    t = self.table(d, s, v)
                    if isinstance(t, Raises):
                        continue
                    for cv in t:
                        out.setdefault(cv, set()).add((d, s))
        return out

    def is_type(self, t):
        if isinstance(t, ClassVal):
            return self.db.is_subclass(t.ci, self.type_ci)
        if isinstance(t, Instance):
            return self.db.is_subclass(t.ci, self.type_ci)
        return False

    # -- version predicate call sites --------------------------------------
    PREDICATES = ('protocol_earlier', 'protocol_earlier_eq', 'protocol_later',
                  'protocol_later_eq', 'protocol_in_range')

    def predicate_sites(self):
        """Every call `<x>.protocol_*(consts...)` in the package, with its
        folded constant arguments."""
        sites = []
        for m in self.db.modules.values():
            for n in ast.walk(m.tree):
                if isinstance(n, ast.Call) and isinstance(n.func, ast.Attribute) \
                        and n.func.attr in self.PREDICATES:
                    if isinstance(n.func.value, ast.Name) and \
                            n.func.value.id == 'utility':
                        continue      # the definitions themselves
                    consts = []
                    for a in n.args:
                        try:
                            consts.append(self.F.eval(a, Env(m)))
                        except (AnalysisError, FoldRaise):
                            consts.append(Opaque('arg'))
                    sites.append((m, n, consts))
        return sites
