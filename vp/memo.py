"""E12 -- memoisation census and soundness.

A remembered answer is only as good as its key.  This engine finds every
place in the package where a function keeps answers between calls --

  * a memoising decorator (functools.lru_cache / cache / cached_property),
  * a cache the function fills itself: a container that outlives the call (a
    module-level name, an attribute of an object) that the same function both
    stores into under a computed key and reads back from --

and decides, for each, whether the key determines everything the remembered
value was computed from:

  M1  the computation (the function and, transitively, its in-repo callees)
      reads an attribute that changes over the life of its object (stored
      outside __init__ somewhere in the package) -- the key holds the object,
      not the attribute's value;
  M2  it reads a module-level container that some function rebuilds in place;
  M3  the key is (or contains) id(x): an address identifies nothing once x is
      gone;
  M4  (self-filled caches) the value is computed from a variable that is not
      part of the key.

Each is a necessary condition for "the function returns what it would compute
now"; a cache that passes all four may still be wrong for reasons no static
view has, so the engine only ever reports violations, never soundness.
"""
import ast

from .common import AnalysisError, rel

MEMO_DECORATORS = ('functools.lru_cache', 'functools.cache',
                   'functools.cached_property')
MUTATORS = ('append', 'add', 'update', 'extend', 'insert', 'pop', 'remove',
            'clear', 'setdefault', 'appendleft', 'popleft', 'discard',
            'popitem', 'sort', 'reverse')


class Memo(object):
    def __init__(self, db, cg):
        self.db = db
        self.cg = cg
        self._unstable = None
        self._mutated = None
        self._sites = None

    # -- whole-program facts ------------------------------------------------
    def unstable_attrs(self):
        """attribute name -> a (function, node) that stores it outside
        __init__"""
        if self._unstable is None:
            un = {}
            for fi in self.db.funcs:
                if isinstance(fi.node, ast.Lambda):
                    continue
                init = fi.name == '__init__'
                for n in ast.walk(fi.node):
                    tg = []
                    if isinstance(n, ast.Assign):
                        tg = n.targets
                    elif isinstance(n, (ast.AugAssign, ast.AnnAssign)):
                        tg = [n.target]
                    elif isinstance(n, ast.Call) and isinstance(
                            n.func, ast.Name) and n.func.id == 'setattr' \
                            and len(n.args) >= 2 and isinstance(
                                n.args[1], ast.Constant):
                        un.setdefault(n.args[1].value, (fi, n))
                    for t in tg:
                        for x in ast.walk(t):
                            if isinstance(x, ast.Attribute) and isinstance(
                                    x.ctx, ast.Store):
                                if init and isinstance(x.value, ast.Name) \
                                        and fi.params and \
                                        x.value.id == fi.params[0]:
                                    continue
                                un.setdefault(x.attr, (fi, n))
            self._unstable = un
        return self._unstable

    def mutated_globals(self):
        """(module name, global name) -> function that changes it in place
        or rebinds it"""
        if self._mutated is None:
            mu = {}
            for fi in self.db.funcs:
                if isinstance(fi.node, ast.Lambda):
                    continue
                local = set(a.arg for a in ast.walk(fi.node.args)
                            if isinstance(a, ast.arg))
                glob = set()
                for n in ast.walk(fi.node):
                    if isinstance(n, ast.Global):
                        glob |= set(n.names)
                for n in ast.walk(fi.node):
                    if isinstance(n, ast.Name) and isinstance(
                            n.ctx, ast.Store) and n.id not in glob:
                        local.add(n.id)
                for n in ast.walk(fi.node):
                    nm = None
                    if isinstance(n, ast.Call) and isinstance(
                            n.func, ast.Attribute) and \
                            n.func.attr in MUTATORS and isinstance(
                                n.func.value, ast.Name):
                        nm = n.func.value.id
                    elif isinstance(n, ast.Subscript) and isinstance(
                            n.ctx, (ast.Store, ast.Del)) and isinstance(
                                n.value, ast.Name):
                        nm = n.value.id
                    elif isinstance(n, ast.Name) and isinstance(
                            n.ctx, ast.Store) and n.id in glob:
                        nm = n.id
                    elif isinstance(n, ast.For) and isinstance(
                            n.iter, (ast.Tuple, ast.List)):
                        # for table in (A, B, C): table.clear()
                        tn = n.target.id if isinstance(
                            n.target, ast.Name) else None
                        if tn and any(
                                isinstance(c, ast.Call) and isinstance(
                                    c.func, ast.Attribute)
                                and c.func.attr in MUTATORS and isinstance(
                                    c.func.value, ast.Name)
                                and c.func.value.id == tn
                                for b in n.body for c in ast.walk(b)):
                            for e in n.iter.elts:
                                if isinstance(e, ast.Name) and \
                                        e.id not in local:
                                    self._note_global(mu, fi, e.id)
                    if nm is not None and nm not in local:
                        self._note_global(mu, fi, nm)
            self._mutated = mu
        return self._mutated

    def _note_global(self, mu, fi, nm):
        try:
            ent = self.db.resolve_dotted(fi.module, ast.Name(
                id=nm, ctx=ast.Load()))
        except AnalysisError:
            ent = None
        if isinstance(ent, tuple) and ent[0] == 'value':
            mu.setdefault((ent[2].name, nm), fi)
            mu.setdefault(('*', nm), fi)

    # -- sites ----------------------------------------------------------------
    def sites(self):
        if self._sites is not None:
            return self._sites
        out = []
        for fi in self.db.funcs:
            if isinstance(fi.node, ast.Lambda):
                continue
            for d in fi.node.decorator_list:
                core = d.func if isinstance(d, ast.Call) else d
                if not isinstance(core, (ast.Name, ast.Attribute)):
                    continue
                try:
                    ent = self.db.resolve_dotted(fi.module, core)
                except AnalysisError:
                    ent = None
                dotted = getattr(ent, 'dotted', None)
                if dotted in MEMO_DECORATORS:
                    out.append(dict(kind='decorator', fi=fi, node=d,
                                    how='@%s' % ast.unparse(d)))
            out.extend(self._own_caches(fi))
        self._sites = out
        return out

    def _persistent(self, fi, e):
        """the expression names a container that outlives the call: a
        module-level name or an attribute chain on a parameter / global"""
        local = set()
        params = set(a.arg for a in ast.walk(fi.node.args)
                     if isinstance(a, ast.arg))
        for n in ast.walk(fi.node):
            if isinstance(n, ast.Name) and isinstance(n.ctx, ast.Store):
                local.add(n.id)
        base = e
        depth = 0
        while isinstance(base, ast.Attribute):
            base = base.value
            depth += 1
        if not isinstance(base, ast.Name):
            return False
        if depth == 0:
            return base.id not in local and base.id not in params
        return base.id in params or base.id not in local

    def _own_caches(self, fi):
        stores = []
        for n in ast.walk(fi.node):
            if isinstance(n, ast.Assign):
                for t in n.targets:
                    if isinstance(t, ast.Subscript) and self._persistent(
                            fi, t.value):
                        stores.append((t.value, t.slice, n.value, n))
            elif isinstance(n, ast.Call) and isinstance(
                    n.func, ast.Attribute) and n.func.attr == 'setdefault' \
                    and len(n.args) == 2 and self._persistent(
                        fi, n.func.value):
                stores.append((n.func.value, n.args[0], n.args[1], n))
        out = []
        for cont, key, val, node in stores:
            cd = ast.dump(cont)
            reads = False
            for n in ast.walk(fi.node):
                if isinstance(n, ast.Subscript) and isinstance(
                        n.ctx, ast.Load) and ast.dump(n.value) == cd:
                    reads = True
                elif isinstance(n, ast.Call) and isinstance(
                        n.func, ast.Attribute) and n.func.attr in (
                            'get', 'setdefault') and \
                        ast.dump(n.func.value) == cd:
                    reads = True
                elif isinstance(n, ast.Compare) and any(isinstance(
                        o, (ast.In, ast.NotIn)) for o in n.ops) and any(
                            ast.dump(c) == cd for c in n.comparators):
                    reads = True
            if reads:
                out.append(dict(kind='own', fi=fi, node=node, cont=cont,
                                key=key, val=val,
                                how='%s[%s]' % (ast.unparse(cont),
                                                ast.unparse(key))))
        return out

    # -- soundness --------------------------------------------------------------
    def _closure(self, fi, depth=6):
        seen, todo = [], [(fi, 0)]
        while todo:
            f, d = todo.pop()
            if f in seen:
                continue
            seen.append(f)
            if d >= depth:
                continue
            for cs in self.cg.sites.get(f, []):
                for m, _, _ in cs.callees:
                    if m not in seen:
                        todo.append((m, d + 1))
        return seen

    def _state_reads(self, fi):
        """(reason text, node) for reads of state a key cannot cover, in fi
        and its in-repo callees"""
        un = self.unstable_attrs()
        mu = self.mutated_globals()
        out = []
        for f in self._closure(fi):
            if isinstance(f.node, ast.Lambda):
                body = [f.node.body]
            else:
                body = f.node.body
            local = set(a.arg for a in ast.walk(f.node.args)
                        if isinstance(a, ast.arg))
            for b in body:
                for n in ast.walk(b):
                    if isinstance(n, ast.Name) and isinstance(
                            n.ctx, ast.Store):
                        local.add(n.id)
            for b in body:
                for n in ast.walk(b):
                    if isinstance(n, ast.Attribute) and isinstance(
                            n.ctx, ast.Load) and n.attr in un:
                        w = un[n.attr]
                        out.append((
                            '%s reads .%s, which %s changes after '
                            'construction' % (f.qualname, n.attr,
                                              w[0].qualname), n, 'M1'))
                    elif isinstance(n, ast.Name) and isinstance(
                            n.ctx, ast.Load) and n.id not in local and (
                                f.module.name, n.id) in mu:
                        out.append((
                            '%s reads %s, which %s rebuilds in place' % (
                                f.qualname, n.id,
                                mu[(f.module.name, n.id)].qualname), n, 'M2'))
                    elif isinstance(n, ast.Name) and isinstance(
                            n.ctx, ast.Load) and n.id not in local and \
                            ('*', n.id) in mu and self._imports(f.module,
                                                                n.id, mu):
                        out.append((
                            '%s reads %s, which %s rebuilds in place' % (
                                f.qualname, n.id,
                                mu[('*', n.id)].qualname), n, 'M2'))
        return out

    def _imports(self, module, name, mu):
        try:
            ent = self.db.resolve_dotted(module, ast.Name(id=name,
                                                          ctx=ast.Load()))
        except AnalysisError:
            return False
        return isinstance(ent, tuple) and ent[0] == 'value' and \
            (ent[2].name, name) in mu

    def _local_deps(self, fi, expr, stop=()):
        """names (params / locals / self-attribute roots) the expression is
        computed from, through the local assignments of fi"""
        defs = {}
        for n in ast.walk(fi.node):
            if isinstance(n, ast.Assign):
                for t in n.targets:
                    for x in ast.walk(t):
                        if isinstance(x, ast.Name) and isinstance(
                                x.ctx, ast.Store):
                            defs.setdefault(x.id, []).append(n.value)
        deps, todo, seen = set(), [expr], set()
        while todo:
            e = todo.pop()
            for x in ast.walk(e):
                if isinstance(x, ast.Name) and isinstance(x.ctx, ast.Load):
                    if x.id in stop:
                        deps.add(x.id)
                        continue
                    if x.id in defs and x.id not in seen:
                        seen.add(x.id)
                        deps.add(x.id)
                        todo.extend(defs[x.id])
                    else:
                        deps.add(x.id)
        return deps

    def problems(self, site):
        """list of (code, text, node) -- empty when nothing is wrong"""
        fi = site['fi']
        out = []
        if site['kind'] == 'decorator':
            for text, node, code in self._state_reads(fi)[:3]:
                out.append((code, '%s is memoised (%s) but %s: the cache is '
                            'keyed by its arguments only' % (
                                fi.qualname, site['how'], text), site['node']))
            # an argument that is an object with changing attributes is
            # remembered by identity, not by what it holds now
            un = self.unstable_attrs()
            for a in fi.node.args.posonlyargs + fi.node.args.args + \
                    fi.node.args.kwonlyargs:
                try:
                    ts = self.cg.etype(fi, ast.copy_location(ast.Name(
                        id=a.arg, ctx=ast.Load()), fi.node))
                except Exception:
                    ts = ()
                for t in ts:
                    if t[0] != 'inst' or not hasattr(t[1], 'attrs'):
                        continue
                    ci = t[1]
                    if self.db.find_method(ci, '__hash__') is not None or \
                            self.db.find_method(ci, '__eq__') is not None:
                        continue
                    init = self.db.find_method(ci, '__init__')
                    own = set()
                    if init is not None and init.params:
                        for n in ast.walk(init.node):
                            if isinstance(n, ast.Attribute) and isinstance(
                                    n.ctx, ast.Store) and isinstance(
                                        n.value, ast.Name) and \
                                    n.value.id == init.params[0]:
                                own.add(n.attr)
                    changing = sorted(x for x in own if x in un)
                    if changing:
                        w = un[changing[0]][0]
                        out.append(('M1', '%s is memoised (%s) on its '
                                    'argument %s, a %s whose .%s changes '
                                    'after construction (%s stores it): the '
                                    'cache is keyed by the object, not by '
                                    'what it holds now' % (
                                        fi.qualname, site['how'], a.arg,
                                        ci.name, changing[0], w.qualname),
                                    site['node']))
                        break
            return out
        key, val = site['key'], site['val']
        for x in ast.walk(key):
            if isinstance(x, ast.Call) and isinstance(x.func, ast.Name) \
                    and x.func.id == 'id':
                out.append(('M3', '%s remembers answers under %s: an address '
                            'identifies nothing once the object is gone, and '
                            'is handed to the next object of the same size'
                            % (fi.qualname, ast.unparse(key)), site['node']))
        params = [a.arg for a in ast.walk(fi.node.args)
                  if isinstance(a, ast.arg)]
        knames = set(x.id for x in ast.walk(key)
                     if isinstance(x, ast.Name))
        vdeps = self._local_deps(fi, val, stop=knames)
        cont_root = site['cont']
        while isinstance(cont_root, ast.Attribute):
            cont_root = cont_root.value
        holder = cont_root.id if isinstance(cont_root, ast.Name) else None
        uncovered = [d for d in sorted(vdeps) if d in params
                     and d not in knames and d != holder]
        if uncovered:
            out.append(('M4', '%s remembers %s under %s, but the value is '
                        'computed from %s as well: a later call with another '
                        '%s gets the first one\'s answer' % (
                            fi.qualname, ast.unparse(val)[:50],
                            ast.unparse(key), ', '.join(uncovered),
                            uncovered[0]), site['node']))
        # state read while computing the value
        for text, node, code in self._state_reads_expr(fi, val)[:2]:
            out.append((code, '%s remembers answers in %s but %s' % (
                fi.qualname, ast.unparse(site['cont']), text), site['node']))
        return out

    def _state_reads_expr(self, fi, val):
        """state reads of the callees invoked by the value expression (and of
        the assignments it is computed from)"""
        out = []
        exprs = [val]
        defs = {}
        for n in ast.walk(fi.node):
            if isinstance(n, ast.Assign):
                for t in n.targets:
                    if isinstance(t, ast.Name):
                        defs.setdefault(t.id, []).append(n.value)
        seen = set()
        i = 0
        while i < len(exprs):
            for x in ast.walk(exprs[i]):
                if isinstance(x, ast.Name) and x.id in defs and \
                        x.id not in seen:
                    seen.add(x.id)
                    exprs.extend(defs[x.id])
            i += 1
        ids = set(id(x) for e in exprs for x in ast.walk(e))
        for cs in self.cg.sites.get(fi, []):
            if id(cs.node) in ids:
                for m, _, _ in cs.callees:
                    out.extend(self._state_reads(m))
        return out

    # -- the rule, per property ---------------------------------------------------
    def reachable(self, roots):
        """The anchors themselves; helpers that are not units of the
        confirmed tree, followed through statically unique calls (code a
        later edit split off an anchor); and the units an anchor calls
        directly and uniquely (examined, not followed further)."""
        from .pathsum import known_unit_pred
        unknown = known_unit_pred()
        seen = []
        todo = [(r, True) for r in roots if r is not None]
        while todo:
            f, expand = todo.pop()
            if f in seen:
                continue
            seen.append(f)
            if not expand:
                continue
            for cs in self.cg.sites.get(f, []):
                tg = [m for m, _, _ in cs.callees]
                if len(tg) != 1 or tg[0] in seen:
                    continue
                todo.append((tg[0], unknown(tg[0])))
        return seen


def check(report, R, db, cg, roots, what):
    """Report every unsound memoisation inside the functions reachable from
    `roots` (the anchors of the property).  `what` names, for the message,
    what must be computed afresh."""
    M = Memo(db, cg)
    scope = M.reachable(roots)
    if not scope:
        raise AnalysisError('memo: no anchor function found for %s' % what)
    ids = set(id(f) for f in scope)
    n = 0
    bad = 0
    for site in M.sites():
        if id(site['fi']) not in ids:
            continue
        n += 1
        for code, text, node in M.problems(site):
            bad += 1
            fi = site['fi']
            report.violation(R, 'memo:%s:%s' % (fi.qualname, code), fi.path,
                             node, fi.qualname, '%s (%s must be computed '
                             'from the current state)' % (text, what))
    if not bad:
        report.ok(R, 'no unsound memoisation among the %d functions that '
                  'compute %s (%d cache(s) examined)' % (len(scope), what, n))
    return n


# -- which functions compute what each property is about ---------------------
CONN = 'minecraft.networking.connection'
BASIC = 'minecraft.networking.types.basic'
ENC = 'minecraft.networking.encryption'
PKT = 'minecraft.networking.packets.packet'
AUTH = 'minecraft.authentication'
UTIL = 'minecraft.utility'

# (module prefix, class name or None or '*', method names or '*')
ROOTS = {
    'C01': [(CONN, 'PacketReactor', ['read_packet']),
            (CONN, 'Connection', ['_write_packet']),
            (PKT, 'Packet', ['write', '_write_buffer']),
            (ENC, '*', ['read', 'recv', 'send'])],
    'C02': [(BASIC, '*', ['read', 'send', 'read_with_context',
                          'send_with_context']),
            (UTIL, 'class_and_instancemethod', '*'),
            (UTIL, 'overridable_descriptor', '*'),
            (UTIL, 'overridable_property', '*')],
    'C03': [(BASIC, 'VarInt', '*'), (BASIC, 'VarLong', '*')],
    'C04': [(BASIC, 'Position', '*'),
            ('minecraft.networking.packets.clientbound.play.'
             'block_change_packet', '*', '*')],
    'C05': [('minecraft.networking.packets', '*',
             ['read', 'write', 'write_fields', 'get_definition', 'get_id',
              'read_with_context', 'send_with_context']),
            (UTIL, 'class_and_instancemethod', '*')],
    'C06': [(CONN, 'PacketReactor', ['__init__']),
            ('minecraft.networking.packets', None, ['get_packets']),
            ('minecraft.networking.packets', '*', ['get_id'])],
    'C07': [('minecraft.networking.packets', '*',
             ['get_id', 'get_definition'])],
    'C08': [(UTIL, None, ['protocol_earlier', 'protocol_earlier_eq']),
            (CONN, 'ConnectionContext', '*'),
            ('minecraft', None, ['initglobals'])],
    'C09': [(CONN, 'Connection', ['__init__', 'connect', 'status',
                                  '_handshake', '_version_mismatch']),
            (CONN, 'StatusReactor', '*'),
            (CONN, 'PlayingStatusReactor', '*')],
    'C10': [(CONN, 'LoginReactor', '*'),
            (CONN, 'Connection', ['_version_mismatch'])],
    'C11': [(CONN, 'PlayingReactor', '*'),
            (CONN, 'NetworkingThread', ['_run']),
            (CONN, 'Connection', ['_react', '_handle_exit'])],
    'C12': [(CONN, 'Connection', ['write_packet', '_pop_packet',
                                  '_write_packet', 'disconnect']),
            (PKT, 'Packet', ['write', '_write_buffer'])],
    'C13': [(CONN, 'Connection', ['_react', '_write_packet',
                                  'register_packet_listener']),
            ('minecraft.networking.packets.packet_listener', '*', '*')],
    'C14': [(CONN, 'NetworkingThread', ['run']),
            (CONN, 'Connection', ['_handle_exception',
                                  'register_exception_handler'])],
    'C15': [(CONN, 'PacketReactor', ['read_packet']),
            (BASIC, 'VarInt', ['read']), (ENC, '*', ['read', 'recv']),
            (CONN, 'PlayingStatusReactor', ['handle_exception'])],
    'C16': [(CONN, 'Connection', ['connect', 'status', 'disconnect',
                                  '_start_network_thread',
                                  '_check_connection', '_connect']),
            (CONN, 'NetworkingThread', ['run', '_run'])],
    'C17': [(ENC, None, ['generate_verification_hash',
                         'minecraft_sha1_hash_digest',
                         '_number_from_bytes'])],
    'C18': [(ENC, None, '*'), (ENC, '*', '*'),
            (CONN, 'LoginReactor', ['react'])],
    'C19': [(AUTH, '*', '*'), (AUTH, None, '*')],
    'C20': [('minecraft.networking.packets.clientbound.play.'
             'player_list_item_packet', '*', '*'),
            ('minecraft.networking.packets.clientbound.play.map_packet',
             '*', '*'),
            ('minecraft.networking.packets.clientbound.play.'
             'player_position_and_look_packet', '*', '*'),
            ('minecraft.networking.types.utility', '*', '*'),
            ('minecraft.networking.types.enum', '*', '*'),
            (UTIL, None, ['attribute_alias', 'multi_attribute_alias',
                          'partial_attribute_alias', 'attribute_transform']),
            ],
}
WHAT = {
    'C01': 'the framing of each packet', 'C02': 'each wire value',
    'C03': 'each VarInt', 'C04': 'each packed position',
    'C05': 'each packet\'s wire form', 'C06': 'the id table of a reactor',
    'C07': 'ids and layouts', 'C08': 'the version order',
    'C09': 'the negotiation', 'C10': 'the login reaction',
    'C11': 'the play reaction', 'C12': 'each frame',
    'C13': 'the dispatch to listeners', 'C14': 'the exception dispatch',
    'C15': 'each read', 'C16': 'the connection state',
    'C17': 'the server hash', 'C18': 'the keys and ciphers of a login',
    'C19': 'the token state', 'C20': 'the tracker state',
}


def roots_of(db, pid):
    out = []
    for mod, cls, names in ROOTS.get(pid, []):
        for fi in db.funcs:
            if isinstance(fi.node, ast.Lambda):
                continue
            mn = fi.module.name
            if not (mn == mod or mn.startswith(mod + '.')):
                continue
            if cls is None and fi.cls is not None:
                continue
            if cls not in (None, '*') and (fi.cls is None or
                                           fi.cls.name != cls):
                continue
            if cls == '*' and fi.cls is None:
                continue
            if names != '*' and fi.name not in names:
                continue
            out.append(fi)
    return out


def check_property(report, db, cg, pid):
    R = report.rule('R%s.M' % pid[1:], 'nothing that computes %s remembers '
                    'an answer under a key that does not determine it '
                    '(memoising decorators, self-filled caches)'
                    % WHAT.get(pid, 'it'))
    roots = roots_of(db, pid)
    report.floor('anchor functions examined for memoisation', len(roots), 1)
    return check(report, R, db, cg, roots, WHAT.get(pid, 'it'))
