"""E1 -- resolved program index over /repo/minecraft (pure ast, nothing
imported).  Modules, import resolution (absolute, relative, star with
__all__), classes with C3 MRO over in-repo bases, attribute tables and
method resolution with the wrapper idioms the package uses."""
import ast
import os

from .common import AnalysisError, REPO, PKG, rel


class External(object):
    """A name that resolves outside the repository (stdlib, third party)."""
    __slots__ = ('dotted',)

    def __init__(self, dotted):
        self.dotted = dotted

    def __repr__(self):
        return 'External(%s)' % self.dotted

    def __eq__(self, o):
        return isinstance(o, External) and o.dotted == self.dotted

    def __hash__(self):
        return hash(('ext', self.dotted))


class Module(object):
    def __init__(self, name, path, is_pkg, tree, source):
        self.name = name
        self.path = path
        self.is_pkg = is_pkg
        self.tree = tree
        self.source = source
        self.bindings = {}      # name -> list of binding records (in order)
        self.classes = {}       # top-level name -> ClassInfo
        self.funcs = {}         # top-level name -> FuncInfo

    @property
    def package(self):
        return self.name if self.is_pkg else self.name.rpartition('.')[0]

    def __repr__(self):
        return 'Module(%s)' % self.name


class FuncInfo(object):
    def __init__(self, name, node, module, cls=None, kind='function',
                 outer=None):
        self.name = name
        self.node = node            # FunctionDef or Lambda
        self.module = module
        self.cls = cls              # ClassInfo owning it (or None)
        self.kind = kind            # function|instance|static|class|property
        #                             |class_and_instance|descriptor
        self.outer = outer          # enclosing FuncInfo for nested defs

    @property
    def qualname(self):
        if self.cls is not None:
            return '%s.%s' % (self.cls.qualname, self.name)
        if self.outer is not None:
            return '%s.<locals>.%s' % (self.outer.qualname, self.name)
        return self.name

    @property
    def params(self):
        a = self.node.args
        return [x.arg for x in a.posonlyargs + a.args]

    @property
    def all_params(self):
        """positional parameters, then the keyword-only ones: indexing it
        agrees with `params` wherever that has the index"""
        a = self.node.args
        return [x.arg for x in a.posonlyargs + a.args + a.kwonlyargs]

    @property
    def body(self):
        if isinstance(self.node, ast.Lambda):
            return [ast.Return(value=self.node.body, lineno=self.node.lineno,
                               col_offset=0)]
        return self.node.body

    @property
    def path(self):
        return self.module.path

    @property
    def lineno(self):
        return self.node.lineno

    def __repr__(self):
        return 'Func(%s:%s)' % (self.module.name, self.qualname)


class AttrDef(object):
    """One definition of a name in a class body."""
    __slots__ = ('name', 'kind', 'node', 'value', 'owner')

    def __init__(self, name, kind, node, value, owner):
        self.name = name
        self.kind = kind      # 'def' | 'assign' | 'class'
        self.node = node
        self.value = value    # FuncInfo | ast expr | ClassInfo
        self.owner = owner


class ClassInfo(object):
    def __init__(self, name, node, module, outer=None, outer_func=None):
        self.name = name
        self.node = node
        self.module = module
        self.outer = outer
        self.outer_func = outer_func
        self.attrs = {}         # name -> list[AttrDef] in body order
        self.nested = {}
        self.bases = None       # list of ClassInfo | External
        self._mro = None
        self.decorators = node.decorator_list

    @property
    def qualname(self):
        if self.outer is not None:
            return '%s.%s' % (self.outer.qualname, self.name)
        return self.name

    @property
    def fq(self):
        return '%s:%s' % (self.module.name, self.qualname)

    @property
    def path(self):
        return self.module.path

    def __repr__(self):
        return 'Class(%s)' % self.fq


FUNC_WRAPPERS = {
    'staticmethod': 'static', 'classmethod': 'class', 'property': 'property',
    'class_and_instancemethod': 'class_and_instance',
    'overridable_property': 'property', 'descriptor': 'descriptor',
    'abstractmethod': None,
}


def expand_wrapper_decorators(tree):
    """N24.  A module-level decorator of the plain wrapper form

        def deco(method):
            @functools.wraps(method)            # optional
            def wrapper(self, *args, **kwds):   # or (*args, **kwds)
                PRE
                with ...:                       # any nesting of with / try
                    return method(self, *args, **kwds)
            return wrapper

    applied (as the only unknown decorator) to a function of the same
    module: the function's body becomes the wrapper's body with the one
    `return method(...)` replaced by the original body (a `return` in it
    leaves through the same with / finally blocks either way).  Anything
    else is left alone -- the index then refuses the unknown decorator."""
    import copy
    decos = {}
    for st in tree.body:
        if not (isinstance(st, ast.FunctionDef) and not st.decorator_list
                and len(st.args.args) == 1 and not st.args.vararg and
                not st.args.kwarg and not st.args.kwonlyargs):
            continue
        body = [b for b in st.body if not (isinstance(b, ast.Expr) and
                                           isinstance(b.value, ast.Constant))]
        if len(body) != 2 or not isinstance(body[0], ast.FunctionDef) or \
                not (isinstance(body[1], ast.Return) and isinstance(
                    body[1].value, ast.Name) and
                    body[1].value.id == body[0].name):
            continue
        w = body[0]
        mname = st.args.args[0].arg
        if any(not (isinstance(d, ast.Call) and ast.unparse(d.func) in (
                'functools.wraps', 'wraps')) for d in w.decorator_list):
            continue
        a = w.args
        if a.vararg is None or a.kwarg is None or a.kwonlyargs or \
                a.defaults or len(a.args) > 1:
            continue
        want = ([a.args[0].arg] if a.args else [])
        calls = [x for x in ast.walk(w) if isinstance(x, ast.Call) and
                 isinstance(x.func, ast.Name) and x.func.id == mname]
        indeco = set(id(x) for d in w.decorator_list for x in ast.walk(d))
        uses = [x for x in ast.walk(w) if isinstance(x, ast.Name) and
                x.id == mname and id(x) not in indeco]
        if len(calls) != 1 or len(uses) != 1:
            continue
        c = calls[0]
        pos = [x for x in c.args if not isinstance(x, ast.Starred)]
        star = [x for x in c.args if isinstance(x, ast.Starred)]
        if [getattr(x, 'id', None) for x in pos] != want or \
                len(star) != 1 or getattr(star[0].value, 'id', None) != \
                a.vararg.arg or len(c.keywords) != 1 or \
                c.keywords[0].arg is not None or getattr(
                    c.keywords[0].value, 'id', None) != a.kwarg.arg:
            continue
        # the call is the value of a `return` statement
        ret = [x for x in ast.walk(w) if isinstance(x, ast.Return) and
               x.value is c]
        if len(ret) != 1:
            continue
        # no loop around it (a `break` / `continue` of the body would bind
        # differently) and the wrapper binds no other names the body may use
        okk = True
        for x in ast.walk(w):
            if isinstance(x, (ast.For, ast.While, ast.Lambda, ast.Yield,
                              ast.YieldFrom, ast.Global, ast.Nonlocal)):
                okk = False
        if okk:
            decos[st.name] = (st, w, ret[0], want)
    if not decos:
        return
    used = set()
    for node in ast.walk(tree):
        if not isinstance(node, ast.FunctionDef):
            continue
        names = [d.id if isinstance(d, ast.Name) else None
                 for d in node.decorator_list]
        hit = [n for n in names if n in decos]
        if len(hit) != 1 or node.name in decos:
            continue
        dname = hit[0]
        st, w, ret, want = decos[dname]
        fa = node.args
        if want and not (fa.args and True):
            continue
        # locals the wrapper binds must not clash with the function's names
        wnames = set(x.id for x in ast.walk(w) if isinstance(x, ast.Name)
                     and isinstance(x.ctx, ast.Store))
        fnames = set(x.id for x in ast.walk(node) if isinstance(x, ast.Name))
        fnames |= set(x.arg for x in ast.walk(fa) if isinstance(x, ast.arg))
        if wnames & fnames:
            continue
        new_body = copy.deepcopy(w.body)
        holder = ast.Module(body=new_body, type_ignores=[])
        target = None
        for x in ast.walk(holder):
            if isinstance(x, ast.Return) and isinstance(
                    x.value, ast.Call) and isinstance(
                        x.value.func, ast.Name) and \
                    x.value.func.id == st.args.args[0].arg:
                target = x
        if target is None:
            continue
        # the wrapper's receiver name -> the function's first parameter
        if want:
            first = fa.args[0].arg
            for x in ast.walk(holder):
                if isinstance(x, ast.Name) and x.id == want[0]:
                    x.id = first
        placed = False
        for x in ast.walk(holder):
            for fld in ('body', 'orelse', 'finalbody'):
                blk = getattr(x, fld, None)
                if isinstance(blk, list) and any(b is target for b in blk):
                    k = [i for i, b in enumerate(blk) if b is target][0]
                    doc = node.body[:1] if node.body and isinstance(
                        node.body[0], ast.Expr) and isinstance(
                            node.body[0].value, ast.Constant) else []
                    blk[k:k + 1] = node.body[len(doc):] or [ast.Pass()]
                    placed = True
        if not placed:
            continue
        for x in ast.walk(holder):
            if isinstance(x, (ast.stmt, ast.expr)) and not hasattr(
                    x, 'lineno'):
                ast.copy_location(x, node)
        node.body = (node.body[:1] if node.body and isinstance(
            node.body[0], ast.Expr) and isinstance(
                node.body[0].value, ast.Constant) else []) + holder.body
        node.decorator_list = [d for d in node.decorator_list
                               if not (isinstance(d, ast.Name)
                                       and d.id == dname)]
        ast.fix_missing_locations(node)
        used.add(dname)
    # a decorator nothing names any more is not part of the program
    for dname in used:
        st = decos[dname][0]
        if not any(isinstance(x, ast.Name) and x.id == dname
                   for x in ast.walk(tree) if x is not st and not any(
                       x is y for y in ast.walk(st))):
            tree.body = [b for b in tree.body if b is not st]


def genexp_helpers_as_generators(tree):
    """N29.  A function (or method) whose whole body is

        return (ELT for a in A if c for b in B ...)

    is read as the generator function

        for a in A:
            if c:
                for b in B:
                    yield ELT

    Both hand out the same elements in the same order; the only difference
    (A is evaluated at the call instead of at the first `next`) is not
    observable by a consumer that iterates the result where it calls.  The
    generator inlining of the normaliser (N13) then applies.  Names bound
    by the comprehension must not clash with the parameters."""
    n = 0
    for fn in ast.walk(tree):
        if not isinstance(fn, ast.FunctionDef) or fn.decorator_list:
            continue
        body = [b for b in fn.body if not (isinstance(b, ast.Expr) and
                                           isinstance(b.value, ast.Constant))]
        if len(body) != 1 or not (isinstance(body[0], ast.Return) and
                                  isinstance(body[0].value, ast.GeneratorExp)):
            continue
        ge = body[0].value
        if any(g.is_async for g in ge.generators):
            continue
        params = {a.arg for a in fn.args.posonlyargs + fn.args.args +
                  fn.args.kwonlyargs}
        for x in (fn.args.vararg, fn.args.kwarg):
            if x is not None:
                params.add(x.arg)
        bound = {t.id for g in ge.generators for t in ast.walk(g.target)
                 if isinstance(t, ast.Name)}
        if bound & params or any(isinstance(x, (ast.NamedExpr, ast.Yield,
                                                ast.YieldFrom, ast.Lambda,
                                                ast.GeneratorExp,
                                                ast.ListComp, ast.SetComp,
                                                ast.DictComp))
                                 for g in [ge] for x in ast.walk(g)
                                 if x is not ge):
            continue
        inner = [ast.Expr(value=ast.Yield(value=ge.elt))]
        for g in reversed(ge.generators):
            for c in reversed(g.ifs):
                inner = [ast.If(test=c, body=inner, orelse=[])]
            inner = [ast.For(target=g.target, iter=g.iter, body=inner,
                             orelse=[], type_comment=None)]
        for st in inner:
            ast.copy_location(st, body[0])
        new = [b for b in fn.body if b is not body[0]] + inner
        fn.body = new
        ast.fix_missing_locations(fn)
        n += 1
    return n


class SrcDB(object):
    def __init__(self, repo=REPO, pkg=PKG, trees=None):
        self.repo = repo
        self.pkg = pkg
        self.trees = trees      # module name -> already transformed tree
        self.norm_stats = None
        self.modules = {}
        self.classes = []       # all ClassInfo
        self.funcs = []         # all FuncInfo (incl. methods, nested, lambdas
        #                         bound as attributes)
        self._load()
        for ci in self.classes:
            self._resolve_bases(ci)

    # ------------------------------------------------------------------
    def _load(self):
        root = os.path.join(self.repo, self.pkg)
        if not os.path.isdir(root):
            raise AnalysisError('package directory missing: %s' % root)
        for dirpath, dirnames, filenames in os.walk(root):
            dirnames[:] = sorted(d for d in dirnames if d != '__pycache__')
            for fn in sorted(filenames):
                if not fn.endswith('.py'):
                    continue
                path = os.path.join(dirpath, fn)
                relp = os.path.relpath(path, self.repo)
                parts = relp[:-3].split(os.sep)
                is_pkg = parts[-1] == '__init__'
                if is_pkg:
                    parts = parts[:-1]
                name = '.'.join(parts)
                src = open(path, encoding='utf-8').read()
                if self.trees is not None:
                    tree = self.trees[name]
                else:
                    try:
                        tree = ast.parse(src, filename=path)
                    except SyntaxError as e:
                        raise AnalysisError('module does not parse: %s' % e,
                                            path=rel(path))
                m = Module(name, path, is_pkg, tree, src)
                self.modules[name] = m
        if self.trees is None:
            for m in self.modules.values():
                expand_wrapper_decorators(m.tree)
                genexp_helpers_as_generators(m.tree)
        for m in self.modules.values():
            self._index_module(m)

    def _index_module(self, m):
        for st in m.tree.body:
            self._index_stmt(m, st)

    def _bind(self, m, name, rec):
        m.bindings.setdefault(name, []).append(rec)

    def _index_stmt(self, m, st):
        if isinstance(st, ast.Import):
            for a in st.names:
                if a.asname:
                    self._bind(m, a.asname, ('import', a.name, st))
                else:
                    top = a.name.split('.')[0]
                    self._bind(m, top, ('import', top, st))
        elif isinstance(st, ast.ImportFrom):
            base = self._abs_from(m, st)
            for a in st.names:
                if a.name == '*':
                    self._bind(m, '*', ('star', base, st))
                else:
                    self._bind(m, a.asname or a.name,
                               ('from', base, a.name, st))
        elif isinstance(st, (ast.FunctionDef, ast.AsyncFunctionDef)):
            fi = FuncInfo(st.name, st, m)
            m.funcs[st.name] = fi
            self.funcs.append(fi)
            self._index_nested_funcs(fi)
            self._bind(m, st.name, ('def', fi, st))
        elif isinstance(st, ast.ClassDef):
            ci = self._index_class(m, st, None)
            m.classes[st.name] = ci
            self._bind(m, st.name, ('class', ci, st))
        elif isinstance(st, ast.Assign):
            for t in st.targets:
                for n in self._target_names(t):
                    self._bind(m, n, ('assign', st.value, st, t))
        elif isinstance(st, ast.AnnAssign) and isinstance(st.target, ast.Name):
            self._bind(m, st.target.id, ('assign', st.value, st, st.target))
        elif isinstance(st, (ast.If, ast.Try, ast.For, ast.While, ast.With)):
            raise AnalysisError('unsupported module-level statement %s'
                                % type(st).__name__, st, rel(m.path))

    @staticmethod
    def _target_names(t):
        if isinstance(t, ast.Name):
            return [t.id]
        if isinstance(t, (ast.Tuple, ast.List)):
            out = []
            for e in t.elts:
                out += SrcDB._target_names(e)
            return out
        return []

    def _abs_from(self, m, st):
        if st.level == 0:
            return st.module
        pkg = m.package.split('.')
        up = st.level - 1
        if up:
            pkg = pkg[:-up]
        base = '.'.join(pkg)
        if st.module:
            base = base + '.' + st.module if base else st.module
        return base

    def _index_nested_funcs(self, fi):
        """Register nested defs and lambdas so every function body in the
        package is visible to whole-program rules."""
        for n in self._walk_shallow(fi.node):
            if isinstance(n, (ast.FunctionDef, ast.AsyncFunctionDef)):
                sub = FuncInfo(n.name, n, fi.module, cls=None, kind='function',
                               outer=fi)
                self.funcs.append(sub)
                self._index_nested_funcs(sub)
            elif isinstance(n, ast.ClassDef):
                self._index_class(fi.module, n, None, outer_func=fi)

    @staticmethod
    def _walk_shallow(fnode):
        """Nodes inside a function body, not descending into nested defs or
        classes (which are yielded themselves)."""
        body = fnode.body if not isinstance(fnode, ast.Lambda) else [fnode.body]
        stack = list(body)
        while stack:
            n = stack.pop()
            yield n
            if isinstance(n, (ast.FunctionDef, ast.AsyncFunctionDef,
                              ast.ClassDef)):
                continue
            stack.extend(ast.iter_child_nodes(n))

    def _index_class(self, m, node, outer, outer_func=None):
        ci = ClassInfo(node.name, node, m, outer, outer_func)
        self.classes.append(ci)
        for st in node.body:
            self._index_class_stmt(ci, st)
        return ci

    def _index_class_stmt(self, ci, st):
        m = ci.module
        if isinstance(st, (ast.FunctionDef, ast.AsyncFunctionDef)):
            kind = 'instance'
            for d in st.decorator_list:
                dn = self._deco_name(d)
                if dn in FUNC_WRAPPERS:
                    kind = FUNC_WRAPPERS[dn] or kind
                elif dn and dn.split('.')[-1] in ('setter', 'deleter',
                                                  'getter'):
                    kind = 'property_' + dn.split('.')[-1]
                elif dn in ('contextlib.contextmanager', 'contextmanager'):
                    pass        # a generator used with `with`: the kind of
                    #             method it is does not change (normalize
                    #             inlines it where it is used)
                else:
                    raise AnalysisError('unknown decorator %s on %s.%s' % (
                        ast.unparse(d), ci.qualname, st.name), st, rel(m.path))
            fi = FuncInfo(st.name, st, m, cls=ci, kind=kind)
            self.funcs.append(fi)
            self._index_nested_funcs(fi)
            ci.attrs.setdefault(st.name, []).append(
                AttrDef(st.name, 'def', st, fi, ci))
        elif isinstance(st, ast.ClassDef):
            sub = self._index_class(m, st, ci)
            ci.nested[st.name] = sub
            ci.attrs.setdefault(st.name, []).append(
                AttrDef(st.name, 'class', st, sub, ci))
        elif isinstance(st, ast.Assign):
            for t in st.targets:
                for n in self._target_names(t):
                    val = st.value
                    ad = AttrDef(n, 'assign', st, val, ci)
                    # name = staticmethod(lambda ...) / classmethod(lambda)
                    fi = self._wrapped_lambda(ci, n, val)
                    if fi is not None:
                        ad = AttrDef(n, 'def', st, fi, ci)
                    ci.attrs.setdefault(n, []).append(ad)
                if isinstance(t, ast.Tuple) and isinstance(st.value, ast.Tuple) \
                        and len(t.elts) == len(st.value.elts):
                    for te, ve in zip(t.elts, st.value.elts):
                        if isinstance(te, ast.Name):
                            ci.attrs[te.id][-1] = AttrDef(te.id, 'assign', st,
                                                          ve, ci)
        elif isinstance(st, ast.If):
            # conditional class-body definitions (SpawnObjectPacket enum)
            for sub in st.body + st.orelse:
                self._index_class_stmt(ci, sub)
        elif isinstance(st, (ast.Pass, ast.Expr)):
            pass
        else:
            raise AnalysisError('unsupported class-body statement %s in %s'
                                % (type(st).__name__, ci.qualname), st,
                                rel(m.path))

    def _wrapped_lambda(self, ci, name, val):
        if isinstance(val, ast.Call) and isinstance(val.func, ast.Name) \
                and val.func.id in ('staticmethod', 'classmethod') \
                and len(val.args) == 1 and isinstance(val.args[0], ast.Lambda):
            kind = FUNC_WRAPPERS[val.func.id]
            fi = FuncInfo(name, val.args[0], ci.module, cls=ci, kind=kind)
            self.funcs.append(fi)
            return fi
        return None

    @staticmethod
    def _deco_name(d):
        if isinstance(d, ast.Name):
            return d.id
        if isinstance(d, ast.Attribute):
            try:
                return ast.unparse(d)
            except Exception:
                return None
        return None

    # ------------------------------------------------------------------
    # name resolution
    def module_attr(self, modname, name, _seen=None):
        """Resolve `name` as an attribute of module `modname`.  Returns one
        of Module, ClassInfo, FuncInfo, ('value', expr, Module), External or
        None (unbound)."""
        _seen = _seen or set()
        if (modname, name) in _seen:
            return None
        _seen.add((modname, name))
        m = self.modules.get(modname)
        if m is None:
            return External('%s.%s' % (modname, name))
        recs = m.bindings.get(name)
        if recs:
            rec = recs[-1]
            kind = rec[0]
            if kind == 'import':
                return self._module_or_ext(rec[1])
            if kind == 'from':
                base, nm = rec[1], rec[2]
                sub = '%s.%s' % (base, nm) if base else nm
                if base in self.modules:
                    r = self.module_attr(base, nm, _seen)
                    if r is not None and not (
                            isinstance(r, External)
                            and sub in self.modules):
                        return r
                if sub in self.modules:
                    return self.modules[sub]
                if base in self.modules:
                    return None
                return External(sub)
            if kind == 'def':
                return rec[1]
            if kind == 'class':
                return rec[1]
            if kind == 'assign':
                return ('value', rec[1], m, rec[2], rec[3])
        # star imports
        for rec in m.bindings.get('*', []):
            base = rec[1]
            if base in self.modules:
                exported = self.star_names(base)
                if name in exported:
                    return self.module_attr(base, name, _seen)
        # submodule of a package
        sub = '%s.%s' % (modname, name)
        if sub in self.modules:
            return self.modules[sub]
        return None

    def star_names(self, modname):
        m = self.modules[modname]
        recs = m.bindings.get('__all__')
        if recs:
            val = recs[-1][1]
            try:
                v = ast.literal_eval(val)
            except Exception:
                raise AnalysisError('__all__ is not a literal', val,
                                    rel(m.path))
            if isinstance(v, str):
                v = (v,)
            return set(v)
        names = set(n for n in m.bindings if not n.startswith('_')
                    and n != '*')
        for rec in m.bindings.get('*', []):
            if rec[1] in self.modules:
                names |= self.star_names(rec[1])
        return names

    def _module_or_ext(self, dotted):
        if dotted in self.modules:
            return self.modules[dotted]
        return External(dotted)

    def resolve_dotted(self, module, expr, class_scope=None, local=None):
        """Resolve a Name/Attribute chain to a program entity.  `local` maps
        local names to already resolved entities.  Returns entity or None."""
        if isinstance(expr, ast.Name):
            if local and expr.id in local:
                return local[expr.id]
            cs = class_scope
            while cs is not None:
                if expr.id in cs.attrs:
                    return self.class_attr_entity(cs, expr.id, own_only=True)
                cs = cs.outer
            r = self.module_attr(module.name, expr.id)
            return r
        if isinstance(expr, ast.Attribute):
            base = self.resolve_dotted(module, expr.value, class_scope, local)
            return self.attr_of(base, expr.attr)
        return None

    def attr_of(self, base, attr):
        if base is None:
            return None
        if isinstance(base, Module):
            return self.module_attr(base.name, attr)
        if isinstance(base, ClassInfo):
            return self.class_attr_entity(base, attr)
        if isinstance(base, External):
            return External(base.dotted + '.' + attr)
        if isinstance(base, tuple) and base[0] == 'value':
            # alias of a class/module through a simple Name/Attribute value
            tgt = self.resolve_dotted(base[2], base[1])
            if tgt is not None and not (isinstance(tgt, tuple)):
                return self.attr_of(tgt, attr)
        return None

    def deref(self, ent):
        """Follow simple `X = Y` aliases down to a class/function/module."""
        seen = 0
        while isinstance(ent, tuple) and ent[0] == 'value' and seen < 10:
            seen += 1
            v = ent[1]
            if isinstance(v, (ast.Name, ast.Attribute)):
                cs = ent[5] if len(ent) > 5 else None
                nxt = self.resolve_dotted(ent[2], v, class_scope=cs)
                if nxt is None:
                    return ent
                ent = nxt
            else:
                return ent
        return ent

    # ------------------------------------------------------------------
    # classes
    def _resolve_bases(self, ci):
        bases = []
        for b in ci.node.bases:
            ent = None
            if isinstance(b, (ast.Name, ast.Attribute)):
                ent = self.resolve_dotted(ci.module, b, class_scope=ci.outer)
                ent = self.deref(ent)
            if isinstance(ent, ClassInfo):
                bases.append(ent)
            else:
                try:
                    txt = ast.unparse(b)
                except Exception:
                    txt = '?'
                bases.append(External(txt))
        ci.bases = bases

    def mro(self, ci):
        if ci._mro is not None:
            return ci._mro
        seqs = []
        for b in ci.bases:
            if isinstance(b, ClassInfo):
                seqs.append(list(self.mro(b)))
        seqs.append([b for b in ci.bases if isinstance(b, ClassInfo)])
        res = [ci]
        seqs = [s for s in seqs if s]
        while seqs:
            for s in seqs:
                cand = s[0]
                if not any(cand in t[1:] for t in seqs):
                    break
            else:
                raise AnalysisError('inconsistent MRO for %s' % ci.qualname,
                                    ci.node, rel(ci.path))
            res.append(cand)
            seqs = [[x for x in s if x is not cand] for s in seqs]
            seqs = [s for s in seqs if s]
        ci._mro = res
        return res

    def is_subclass(self, ci, other):
        return other in self.mro(ci)

    def subclasses(self, ci, strict=True):
        out = [c for c in self.classes if ci in self.mro(c)
               and (c is not ci or not strict)]
        return out

    def find_attr(self, ci, name):
        """First AttrDef for `name` along the MRO (last definition in the
        owning class body wins), or None."""
        for c in self.mro(ci):
            defs = c.attrs.get(name)
            if defs:
                return defs[-1]
        return None

    def class_attr_entity(self, ci, name, own_only=False):
        ad = None
        if own_only:
            defs = ci.attrs.get(name)
            ad = defs[-1] if defs else None
        else:
            ad = self.find_attr(ci, name)
        if ad is None:
            return None
        return self.attrdef_entity(ad)

    def attrdef_entity(self, ad):
        if ad.kind in ('def', 'class'):
            return ad.value
        # `X = Packet.__dict__['get_id']` restores the base definition
        v = ad.value
        tgt = self.dict_rebinding(ad)
        if tgt is not None:
            return self.attrdef_entity(tgt)
        return ('value', v, ad.owner.module, ad.node, None, ad.owner)

    def dict_rebinding(self, ad):
        v = ad.value
        if isinstance(v, ast.Subscript) and isinstance(v.value, ast.Attribute) \
                and v.value.attr == '__dict__' \
                and isinstance(v.slice, ast.Constant) \
                and isinstance(v.slice.value, str):
            base = self.resolve_dotted(ad.owner.module, v.value.value,
                                       class_scope=ad.owner)
            base = self.deref(base)
            if isinstance(base, ClassInfo):
                defs = base.attrs.get(v.slice.value)
                if defs:
                    return defs[-1]
            raise AnalysisError('cannot resolve __dict__ re-binding %s'
                                % ast.unparse(v), ad.node,
                                rel(ad.owner.path))
        return None

    def find_method(self, ci, name):
        """Resolve `name` on class ci to (FuncInfo) following wrappers and
        __dict__ re-bindings; None if it is not a function in the repo."""
        ent = self.class_attr_entity(ci, name)
        ent = self.deref(ent) if isinstance(ent, tuple) else ent
        return ent if isinstance(ent, FuncInfo) else None

    # ------------------------------------------------------------------
    def get_class(self, modname, qualname):
        m = self.modules.get(modname)
        if m is None:
            raise AnalysisError('anchor module vanished: %s' % modname)
        parts = qualname.split('.')
        ci = m.classes.get(parts[0])
        for p in parts[1:]:
            ci = ci.nested.get(p) if ci else None
        if ci is None:
            raise AnalysisError('anchor class vanished: %s:%s'
                                % (modname, qualname))
        return ci

    def get_func(self, modname, qualname):
        m = self.modules.get(modname)
        if m is None:
            raise AnalysisError('anchor module vanished: %s' % modname)
        parts = qualname.split('.')
        if len(parts) == 1:
            fi = m.funcs.get(parts[0])
            if fi is None:
                raise AnalysisError('anchor function vanished: %s:%s'
                                    % (modname, qualname))
            return fi
        ci = self.get_class(modname, '.'.join(parts[:-1]))
        fi = self.find_method(ci, parts[-1])
        if fi is None:
            raise AnalysisError('anchor method vanished: %s:%s'
                                % (modname, qualname))
        return fi

    def own_method(self, ci, name):
        defs = ci.attrs.get(name)
        if not defs:
            return None
        ent = self.attrdef_entity(defs[-1])
        return ent if isinstance(ent, FuncInfo) else None

    def stats(self):
        return dict(modules=len(self.modules), classes=len(self.classes),
                    functions=len(self.funcs))


_DB = None


def load(repo=REPO):
    global _DB
    if _DB is None or _DB.repo != repo:
        _DB = SrcDB(repo)
        if os.environ.get('VP_NORMALIZE', '1') == '1':
            # E0: bring the parsed program to normal form (helpers that are
            # not known units inlined, stable aliases propagated), then index
            # the normal form; every engine and rule sees only that.
            from . import normalize
            stats = normalize.run(_DB)
            trees = {n: m.tree for n, m in _DB.modules.items()}
            _DB = SrcDB(repo, trees=trees)
            _DB.norm_stats = stats
        st = _DB.stats()
        if st['modules'] < 38 or st['classes'] < 140:
            raise AnalysisError(
                'program index below confirmed floor: %r (expected >= 38 '
                'modules, >= 140 classes)' % (st,))
    return _DB
