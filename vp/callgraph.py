"""E7 -- resolved call graph with a small whole-program type inference.

Abstract types are sets of ('inst', ClassInfo) / ('cls', ClassInfo) /
('func', FuncInfo) / ('ext', dotted).  Locals are flow-insensitive per
function; fields and parameters are joined over all stores / call sites to a
fixpoint.  Enough to resolve `self.connection.reactor.read_packet`,
`self.integer_type.send`, `packet.write`, reactor dynamic dispatch."""
import ast

from .common import AnalysisError, rel
from .srcdb import ClassInfo, FuncInfo, Module, External

MAX_ROUNDS = 8


class CallSite(object):
    __slots__ = ('caller', 'node', 'callees', 'recv_types', 'via')

    def __init__(self, caller, node):
        self.caller = caller
        self.node = node
        self.callees = []      # list of (FuncInfo, implicit_args)
        self.recv_types = set()
        self.via = None


class CallGraph(object):
    def __init__(self, db):
        self.db = db
        self.fields = {}        # (ClassInfo, attr) -> set of types
        self.params = {}        # (FuncInfo, name) -> set of types
        self.returns = {}       # FuncInfo -> set of types
        self.locals = {}        # FuncInfo -> {name: set of types}
        self.sites = {}         # FuncInfo -> [CallSite]
        self.func_of_node = {id(f.node): f for f in db.funcs}
        self.lambda_funcs = {}
        self._index_lambdas()
        self._fixpoint()
        self._build_sites()

    # ------------------------------------------------------------------
    def _index_lambdas(self):
        """Lambdas that are not already FuncInfo (staticmethod(lambda) are)
        are analysed as part of their enclosing function."""
        pass

    def all_funcs(self):
        return self.db.funcs

    @staticmethod
    def shallow(fi):
        """Nodes of a function body excluding nested defs/classes (lambdas
        are included: they run in the caller's type environment)."""
        body = fi.body
        stack = list(reversed(body))
        while stack:
            n = stack.pop()
            yield n
            if isinstance(n, (ast.FunctionDef, ast.AsyncFunctionDef,
                              ast.ClassDef)):
                continue
            stack.extend(reversed(list(ast.iter_child_nodes(n))))

    # ------------------------------------------------------------------
    def self_types(self, fi):
        out = set()
        if fi.cls is None:
            return out
        first = fi.params[0] if fi.params else None
        return out

    def param_types(self, fi, name):
        ts = set(self.params.get((fi, name), ()))
        if fi.cls is not None and fi.params and name == fi.params[0]:
            # the receiver can only be of a class whose attribute of this
            # name still resolves to this very function (an override or a
            # `X = Base.__dict__[...]` re-binding in a subclass excludes it)
            def keeps(s):
                if isinstance(fi.node, ast.Lambda):
                    return True
                m = self.db.find_method(s, fi.name)
                return m is fi or m is None
            if fi.kind in ('instance', 'property', 'property_setter',
                           'property_deleter', 'property_getter'):
                ts.add(('inst', fi.cls))
                for s in self.db.subclasses(fi.cls):
                    if keeps(s):
                        ts.add(('inst', s))
            elif fi.kind == 'class':
                ts.add(('cls', fi.cls))
                for s in self.db.subclasses(fi.cls):
                    if keeps(s):
                        ts.add(('cls', s))
            elif fi.kind == 'class_and_instance':
                # bound to the class when looked up on a class, to the
                # instance otherwise; classes with a constructor of their
                # own are the ones used as instances (FixedPoint(...),
                # PrefixedArray(...)), the others are used as classes
                for s in [fi.cls] + self.db.subclasses(fi.cls):
                    if self.db.find_method(s, '__init__') is not None:
                        ts.add(('inst', s))
                    else:
                        ts.add(('cls', s))
        return ts

    def name_types(self, fi, name):
        f = fi
        while f is not None:
            if name in f.params or name in self._other_params(f):
                return self.param_types(f, name)
            loc = self.locals.get(f, {})
            if name in loc:
                return set(loc[name])
            f = f.outer
        ent = self.db.resolve_dotted(fi.module, ast.Name(id=name,
                                                         ctx=ast.Load()),
                                     class_scope=None)
        return self.entity_types(ent)

    @staticmethod
    def _other_params(f):
        a = f.node.args
        out = [x.arg for x in a.kwonlyargs]
        if a.vararg:
            out.append(a.vararg.arg)
        if a.kwarg:
            out.append(a.kwarg.arg)
        return out

    def entity_types(self, ent):
        ent = self.db.deref(ent) if isinstance(ent, tuple) else ent
        if isinstance(ent, ClassInfo):
            return {('cls', ent)}
        if isinstance(ent, FuncInfo):
            return {('func', ent)}
        if isinstance(ent, Module):
            return {('mod', ent)}
        if isinstance(ent, External):
            return {('ext', ent.dotted)}
        if isinstance(ent, tuple) and ent[0] == 'value':
            # module / class level value: a constructor call gives an instance
            v = ent[1]
            mod = ent[2]
            owner = ent[5] if len(ent) > 5 else None
            if isinstance(v, ast.Call):
                tgt = self.db.resolve_dotted(mod, v.func, class_scope=owner)
                tgt = self.db.deref(tgt) if isinstance(tgt, tuple) else tgt
                if isinstance(tgt, ClassInfo):
                    return {('inst', tgt)}
                if isinstance(tgt, External) and tgt.dotted in (
                        'builtins.staticmethod',):
                    pass
                if isinstance(v.func, ast.Name) and v.func.id in (
                        'staticmethod', 'classmethod') and v.args:
                    inner = self.db.resolve_dotted(mod, v.args[0],
                                                   class_scope=owner)
                    return self.entity_types(inner)
        return set()

    def etype(self, fi, e):
        """Abstract type set of expression e evaluated inside function fi."""
        if isinstance(e, ast.Name):
            return self.name_types(fi, e.id)
        if isinstance(e, ast.Attribute):
            base = self.etype(fi, e.value)
            out = set()
            for t in base:
                out |= self.attr_types(t, e.attr)
            return out
        if isinstance(e, ast.Call):
            out = set()
            f = e.func
            if isinstance(f, ast.Name) and f.id == 'super':
                return out
            if isinstance(f, ast.Attribute) and f.attr == '__subclasses__':
                for t in self.etype(fi, f.value):
                    if t[0] == 'cls':
                        for c in self.db.classes:
                            if t[1] in [b for b in c.bases
                                        if isinstance(b, ClassInfo)]:
                                out.add(('elem', ('cls', c)))
                return out
            if isinstance(f, ast.Attribute) and f.attr in ('get', 'pop',
                                                           'popleft'):
                for t in self.etype(fi, f.value):
                    if t[0] == 'elem':
                        out.add(t[1])
                if out:
                    return out
            if isinstance(f, ast.Name) and f.id in ('iter', 'list', 'tuple',
                                                    'reversed', 'sorted') \
                    and e.args:
                return {t for t in self.etype(fi, e.args[0])
                        if t[0] == 'elem'}
            if isinstance(f, ast.Name) and f.id == 'next' and e.args:
                # next(iterable[, default]): an element of it
                return {t[1] for t in self.etype(fi, e.args[0])
                        if t[0] == 'elem'}
            for t in self.etype(fi, f):
                if t[0] == 'cls':
                    out.add(('inst', t[1]))
                elif t[0] == 'func':
                    out |= self.returns.get(t[1], set())
                elif t[0] == 'bound':
                    out |= self.returns.get(t[1], set())
            return out
        if isinstance(e, (ast.GeneratorExp, ast.ListComp, ast.SetComp)):
            return {('elem', t) for t in self.etype(fi, e.elt)
                    if t[0] in ('inst', 'cls')}
        if isinstance(e, ast.IfExp):
            return self.etype(fi, e.body) | self.etype(fi, e.orelse)
        if isinstance(e, ast.BoolOp):
            out = set()
            for v in e.values:
                out |= self.etype(fi, v)
            return out
        if isinstance(e, ast.Subscript):
            # element of a homogeneous container
            return {t[1] for t in self.etype(fi, e.value) if t[0] == 'elem'}
        return set()

    def attr_types(self, t, attr):
        kind = t[0]
        if kind == 'mod':
            return self.entity_types(self.db.module_attr(t[1].name, attr))
        if kind == 'ext':
            return {('ext', t[1] + '.' + attr)}
        if kind in ('inst', 'cls'):
            ci = t[1]
            out = set()
            for k in self.db.mro(ci):
                out |= self.fields.get((k, attr), set())
            ad = self.db.find_attr(ci, attr)
            if ad is not None:
                ent = self.db.attrdef_entity(ad)
                ent = self.db.deref(ent) if isinstance(ent, tuple) else ent
                if isinstance(ent, FuncInfo):
                    out.add(('bound', ent, kind, ci))
                elif isinstance(ent, ClassInfo):
                    out.add(('cls', ent))
                else:
                    out |= self.entity_types(ent)
            return out
        return set()

    # ------------------------------------------------------------------
    def _class_body_stores(self):
        changed = False
        for ci in self.db.classes:
            for st in ci.node.body:
                if isinstance(st, ast.Assign) and len(st.targets) == 1 and \
                        isinstance(st.targets[0], ast.Subscript):
                    tgt = st.targets[0].value
                    val = self.db.resolve_dotted(ci.module, st.value,
                                                 class_scope=ci)
                    if isinstance(val, ClassInfo) and \
                            isinstance(tgt, ast.Attribute):
                        base = self.db.resolve_dotted(ci.module, tgt.value,
                                                      class_scope=ci)
                        if isinstance(base, ClassInfo):
                            changed |= self._add(
                                self.fields, (base, tgt.attr),
                                {('elem', ('cls', val))})
        return changed

    def _fixpoint(self):
        self._class_body_stores()
        for rnd in range(MAX_ROUNDS):
            changed = False
            for fi in self.db.funcs:
                if self._scan(fi):
                    changed = True
            if not changed:
                break

    def _add(self, table, key, types):
        if not types:
            return False
        cur = table.setdefault(key, set())
        n = len(cur)
        cur |= types
        return len(cur) != n

    def _scan(self, fi):
        changed = False
        loc = self.locals.setdefault(fi, {})
        for n in self.shallow(fi):
            if isinstance(n, ast.Assign):
                vt = self.etype(fi, n.value)
                for t in n.targets:
                    changed |= self._store(fi, t, vt, n.value)
            elif isinstance(n, ast.For):
                et = {t[1] for t in self.etype(fi, n.iter) if t[0] == 'elem'}
                if isinstance(n.target, ast.Name):
                    changed |= self._add(loc, n.target.id, et)
            elif isinstance(n, ast.comprehension):
                # the comprehension variable ranges over the elements
                et = {t[1] for t in self.etype(fi, n.iter) if t[0] == 'elem'}
                if isinstance(n.target, ast.Name):
                    changed |= self._add(loc, n.target.id, et)
            elif isinstance(n, ast.With):
                for it in n.items:
                    if it.optional_vars is not None and \
                            isinstance(it.optional_vars, ast.Name):
                        vt = self.etype(fi, it.context_expr)
                        changed |= self._add(loc, it.optional_vars.id, vt)
            elif isinstance(n, ast.Return) and n.value is not None:
                changed |= self._add(self.returns, fi,
                                     {t for t in self.etype(fi, n.value)
                                      if t[0] in ('inst', 'cls')})
            elif isinstance(n, ast.Call):
                changed |= self._flow_args(fi, n)
                f = n.func
                if isinstance(f, ast.Attribute) and f.attr in (
                        'append', 'add', 'appendleft') and len(n.args) == 1:
                    et = {('elem', t) for t in self.etype(fi, n.args[0])
                          if t[0] in ('inst', 'cls')}
                    changed |= self._store(fi, f.value, et, n.args[0])
        return changed

    def _store(self, fi, target, vt, value):
        changed = False
        if isinstance(target, ast.Name):
            changed |= self._add(self.locals.setdefault(fi, {}), target.id,
                                 {t for t in vt})
        elif isinstance(target, ast.Attribute):
            for bt in self.etype(fi, target.value):
                if bt[0] in ('inst', 'cls'):
                    # record on the static class of the receiver
                    changed |= self._add(self.fields, (bt[1], target.attr),
                                         {t for t in vt
                                          if t[0] in ('inst', 'cls', 'func',
                                                      'elem')})
        elif isinstance(target, ast.Subscript):
            et = {('elem', t) for t in vt if t[0] in ('inst', 'cls')}
            changed |= self._store(fi, target.value, et, value)
        elif isinstance(target, (ast.Tuple, ast.List)) and \
                isinstance(value, (ast.Tuple, ast.List)) and \
                len(value.elts) == len(target.elts):
            for te, ve in zip(target.elts, value.elts):
                changed |= self._store(fi, te, self.etype(fi, ve), ve)
        return changed

    def callee_funcs(self, fi, call):
        """[(FuncInfo, implicit_positional_args, recv_type)]"""
        out = []
        f = call.func
        if isinstance(f, ast.Call) and isinstance(f.func, ast.Name) and \
                f.func.id == 'super':
            return out
        if isinstance(f, ast.Attribute) and isinstance(f.value, ast.Call) \
                and isinstance(f.value.func, ast.Name) \
                and f.value.func.id == 'super' and fi.cls is not None:
            mro = self.db.mro(fi.cls)
            for k in mro[1:]:
                m = self.db.own_method(k, f.attr)
                if m is not None:
                    # a static method found through super() binds nothing
                    out.append((m, 0 if m.kind == 'static' else 1,
                                ('inst', fi.cls)))
                    break
            return out
        # name-mangled private helper  self.__read  ->  _Cls__read
        for t in self.etype(fi, f):
            if t[0] == 'func':
                out.append((t[1], 0, None))
            elif t[0] == 'cls':
                init = self.db.find_method(t[1], '__init__')
                if init is not None:
                    out.append((init, 1, t))
            elif t[0] == 'bound':
                m, how, ci = t[1], t[2], t[3]
                k = m.kind
                if k == 'static':
                    imp = 0
                elif k == 'class':
                    imp = 1
                elif k == 'class_and_instance':
                    imp = 1
                elif k == 'instance':
                    imp = 1 if how == 'inst' else 0
                else:
                    continue
                out.append((m, imp, (how, ci)))
        # de-duplicate
        seen = set()
        res = []
        for m, imp, rt in out:
            key = (id(m), imp)
            if key not in seen:
                seen.add(key)
                res.append((m, imp, rt))
        return res

    def _flow_args(self, fi, call):
        changed = False
        for m, imp, rt in self.callee_funcs(fi, call):
            names = m.params[imp:]
            for nm, a in zip(names, call.args):
                if isinstance(a, ast.Starred):
                    break
                changed |= self._add(self.params, (m, nm),
                                     {t for t in self.etype(fi, a)
                                      if t[0] in ('inst', 'cls', 'func')})
            for kw in call.keywords:
                if kw.arg and kw.arg in m.params:
                    changed |= self._add(self.params, (m, kw.arg),
                                         {t for t in self.etype(fi, kw.value)
                                          if t[0] in ('inst', 'cls', 'func')})
        return changed

    # ------------------------------------------------------------------
    def _build_sites(self):
        for fi in self.db.funcs:
            lst = []
            for n in self.shallow(fi):
                if isinstance(n, ast.Call):
                    cs = CallSite(fi, n)
                    cs.callees = self.callee_funcs(fi, n)
                    if isinstance(n.func, ast.Attribute):
                        cs.recv_types = self.etype(fi, n.func.value)
                    lst.append(cs)
            self.sites[fi] = lst

    def callers_of(self, target):
        out = []
        for fi, lst in self.sites.items():
            for cs in lst:
                if any(m is target for m, _, _ in cs.callees):
                    out.append(cs)
        return out

    def callees_of(self, fi):
        out = set()
        for cs in self.sites.get(fi, []):
            for m, _, _ in cs.callees:
                out.add(m)
        # nested defs / lambdas run (at most) when the enclosing function's
        # objects are used; treat nested functions as reachable
        for sub in self.db.funcs:
            if sub.outer is fi:
                out.add(sub)
        return out

    def reachable(self, roots):
        seen = set()
        stack = list(roots)
        while stack:
            f = stack.pop()
            if f in seen:
                continue
            seen.add(f)
            stack.extend(self.callees_of(f))
        return seen


def arity_problem(m, imp, call):
    """Why `call` cannot bind to function m with `imp` implicit positional
    arguments; None when it can."""
    a = m.node.args
    if any(isinstance(x, ast.Starred) for x in call.args) or \
            any(k.arg is None for k in call.keywords):
        return None
    pos = [x.arg for x in a.posonlyargs + a.args]
    npos = len(pos)
    given = imp + len(call.args)
    if given > npos and a.vararg is None:
        return 'takes %d positional argument(s) but %d given' % (
            npos - imp, len(call.args))
    bound = set(pos[:given])
    for k in call.keywords:
        if k.arg in bound:
            return 'multiple values for argument %r' % k.arg
        if k.arg in pos or k.arg in [x.arg for x in a.kwonlyargs]:
            bound.add(k.arg)
        elif a.kwarg is None:
            return 'unexpected keyword argument %r' % k.arg
    ndef = len(a.defaults)
    required = pos[:npos - ndef]
    missing = [p for p in required if p not in bound]
    if missing:
        return 'missing required argument(s) %s' % ', '.join(missing)
    for x, d in zip(a.kwonlyargs, a.kw_defaults):
        if d is None and x.arg not in bound:
            return 'missing keyword-only argument %r' % x.arg
    return None
