"""Shared plumbing: fail-closed errors, reports, evidence, replay records.

Nothing in here looks at /repo; it only carries what the rules found.
"""
import ast
import hashlib
import json
import os
import sys
import time

VERIF = os.path.dirname(os.path.dirname(os.path.abspath(__file__)))
REPO = os.environ.get('PYCRAFT_REPO', '/repo')
OUT = os.environ.get('VP_OUT') or VERIF     # selftest redirects output
PKG = 'minecraft'


class AnalysisError(Exception):
    """The analysis met something it does not understand (unknown idiom,
    vanished anchor, instance count below the confirmed floor).  Never a
    pass and never a VIOLATION: exit 2."""

    def __init__(self, msg, node=None, path=None):
        self.msg = msg
        self.node = node
        self.path = path
        super().__init__(msg)

    def __str__(self):
        loc = ''
        if self.path:
            loc = self.path
            if self.node is not None and hasattr(self.node, 'lineno'):
                loc += ':%d' % self.node.lineno
            loc += ': '
        return loc + self.msg


def rel(path):
    path = str(path)
    if path.startswith(REPO.rstrip('/') + '/'):
        return path[len(REPO.rstrip('/')) + 1:]
    return path


def norm_stmt(node):
    """Normalised statement text used for replay keys (not line numbers)."""
    try:
        txt = ast.unparse(node)
    except Exception:
        txt = repr(node)
    return ' '.join(txt.split())[:300]


class Finding(object):
    __slots__ = ('rule', 'construct', 'file', 'line', 'func', 'msg', 'stmt',
                 'extra')

    def __init__(self, rule, construct, file, line, func, msg, stmt=None,
                 extra=None):
        self.rule = rule
        self.construct = construct
        self.file = rel(file) if file else None
        self.line = line
        self.func = func
        self.msg = msg
        self.stmt = stmt
        self.extra = extra or {}

    @property
    def key(self):
        return '%s|%s' % (self.rule, self.construct)

    def text(self):
        loc = '%s:%s' % (self.file, self.line) if self.file else '<repo>'
        fn = (' in %s' % self.func) if self.func else ''
        return '%s%s: [%s] %s: %s' % (loc, fn, self.rule, self.construct,
                                      self.msg)

    def as_dict(self):
        d = dict(rule=self.rule, construct=self.construct, file=self.file,
                 line=self.line, function=self.func, message=self.msg,
                 statement=self.stmt, key=self.key)
        d.update(self.extra)
        return d


class Report(object):
    """Collects obligations, violations and coverage for one property run."""

    def __init__(self, pid, tier='quick', level='other'):
        self.pid = pid
        self.tier = tier
        self.level = level
        self.t0 = time.time()
        self.violations = []
        self.infos = []
        self.rules = {}          # rule id -> dict(desc, obligations, discharged)
        self.analysed = {}       # kind -> list of items
        self.samples = []
        self.assumptions = []
        self.trusted_base = []
        self.distinct = set()
        self.explanation = ''
        self.floors = []

    # -- rules and obligations -------------------------------------------
    def rule(self, rid, desc):
        self.rules.setdefault(rid, dict(desc=desc, obligations=0,
                                        discharged=0))
        return rid

    def ok(self, rid, what=None, n=1):
        r = self.rules[rid]
        r['obligations'] += n
        r['discharged'] += n
        if what is not None:
            self.distinct.add((rid, str(what)))
            if len(self.samples) < 400 and (
                    sum(1 for s in self.samples if s.get('rule') == rid) < 3):
                self.samples.append(dict(rule=rid, obligation=str(what)[:400],
                                         verdict='holds'))

    def violation(self, rid, construct, file, node_or_line, func, msg,
                  extra=None):
        r = self.rules[rid]
        r['obligations'] += 1
        if isinstance(node_or_line, ast.AST):
            line = getattr(node_or_line, 'lineno', None)
            stmt = norm_stmt(node_or_line)
        else:
            line, stmt = node_or_line, None
        f = Finding(rid, construct, file, line, func, msg, stmt, extra)
        self.distinct.add((rid, construct))
        for old in self.violations:
            if old.key == f.key and old.line == f.line and old.msg == f.msg:
                return old      # same finding reached along another path
        self.violations.append(f)
        return f

    def info(self, rid, msg):
        self.infos.append('[%s] %s' % (rid, msg))

    def note(self, kind, item=None):
        if item is None:
            kind, item = 'notes', kind
        self.analysed.setdefault(kind, [])
        if item not in self.analysed[kind]:
            self.analysed[kind].append(item)

    def floor(self, what, measured, minimum):
        """An instance count confirmed by hand; falling below it means the
        rule no longer sees what it was written for: analysis broken."""
        self.floors.append(dict(what=what, measured=measured,
                                minimum=minimum))
        if measured < minimum:
            raise AnalysisError(
                'instance floor not met: %s: measured %d < confirmed %d '
                '(anchor vanished or idiom changed; the rule would pass '
                'vacuously)' % (what, measured, minimum))

    # -- output ----------------------------------------------------------
    def totals(self):
        ob = sum(r['obligations'] for r in self.rules.values())
        di = sum(r['discharged'] for r in self.rules.values())
        return ob, di


class Borrowed(object):
    """A clause another property's check decides, run for this property:
    the findings whose construct passes `keep` are reported under this
    property's rule id; everything else the borrowed rules do (their own
    obligations, notes, floors) is left out.  If the borrowed analysis cannot
    follow the tree, nothing is claimed for this clause here (its own check
    says so)."""

    def __init__(self, report, rid, desc, keep):
        self.r = report
        self.rid = report.rule(rid, desc)
        self.keep = keep
        self.pid = report.pid
        self.tier = report.tier
        self.violations = []
        self.n_ok = 0
        self.explanation = ''
        self.trusted_base = []
        self.assumptions = []

    def rule(self, rid, desc):
        return rid

    def ok(self, rid, what=None, n=1):
        self.n_ok += n

    def violation(self, rid, construct, file, node, func, msg, extra=None):
        if self.keep(rid, construct):
            self.violations.append(self.r.violation(
                self.rid, construct, file, node, func,
                '%s [clause shared with %s]' % (msg, rid), extra))

    def info(self, rid, msg):
        pass

    def note(self, kind, item=None):
        pass

    def floor(self, what, measured, minimum):
        if measured < minimum:
            raise AnalysisError('borrowed clause: %s below its floor' % what)

    def done(self, what):
        if not self.violations:
            self.r.ok(self.rid, what)


def borrow(report, rid, desc, keep, fn):
    """Run fn(sub_report) with a Borrowed adapter; an analysis error of the
    borrowed rules is not this property's (its own check reports it)."""
    sub = Borrowed(report, rid, desc, keep)
    try:
        fn(sub)
    except AnalysisError:
        report.note('borrowed clause not decided here', rid)
        return sub
    sub.done(desc)
    return sub


def load_known_findings():
    path = os.path.join(VERIF, 'known_findings.json')
    if not os.path.exists(path):
        return {}, []
    data = json.load(open(path))
    known = {}
    for e in data.get('known', []):
        known[(e['property'], e['key'])] = e
    return known, data.get('fixed', [])


def write_replay(pid, finding):
    d = finding.as_dict()
    d['property'] = pid
    dig = hashlib.sha1(finding.key.encode()).hexdigest()[:12]
    rdir = os.path.join(OUT, 'replays')
    os.makedirs(rdir, exist_ok=True)
    path = os.path.join(rdir, '%s-%s.json' % (pid, dig))
    with open(path, 'w') as fh:
        json.dump(d, fh, indent=1, sort_keys=True)
    return path


def finish(report, checker_cmd, out=sys.stdout):
    """Print diagnostics, write evidence, return the exit status."""
    known, _fixed = load_known_findings()
    unknown = []
    known_hit = []
    for f in report.violations:
        if (report.pid, f.key) in known:
            known_hit.append(f)
        else:
            unknown.append(f)
    for line in report.infos:
        print('INFO %s' % line, file=out)
    for f in known_hit:
        print('KNOWN-FINDING: property=%s %s' % (report.pid, f.text()),
              file=out)
    seen = set()
    for f in unknown:
        print('FINDING %s' % f.text(), file=out)
        if f.key in seen:
            continue
        seen.add(f.key)
        path = write_replay(report.pid, f)
        print('VIOLATION property=%s replay=%s' % (report.pid, path),
              file=out)
    ob, di = report.totals()
    wall = time.time() - report.t0
    rules_out = []
    for rid, r in sorted(report.rules.items()):
        rules_out.append(dict(rule=rid, description=r['desc'],
                              obligations=r['obligations'],
                              discharged=r['discharged']))
    samples = list(report.samples[:40])
    for f in report.violations[:20]:
        samples.append(dict(rule=f.rule, obligation=f.text(),
                            verdict='violated'))
    if not samples:
        samples = [dict(note='no obligations recorded')]
    cov = dict(
        obligations=ob, discharged=di,
        evaluations=max(ob, 1), distinct_nontrivial=len(report.distinct),
        rule=('each obligation is one (rule, construct) instance decided '
              'from the syntax trees of /repo/minecraft; distinct = distinct '
              '(rule, instance) pairs; an instance is non-trivial when the '
              'rule actually inspected a construct of the repository (rules '
              'matching nothing are ANALYSIS-ERROR through instance floors)'),
        samples=samples,
        checker_cmd=checker_cmd,
        trusted_base=report.trusted_base or [
            'CPython ast parser', 'the rules in /verif/vp as written'],
        explanation=report.explanation or 'static analysis of /repo sources',
        exhaustive=True,
        rules=rules_out,
        analysed={k: (v if len(v) <= 60 else v[:60] + ['... %d more' %
                                                      (len(v) - 60)])
                  for k, v in report.analysed.items()},
        analysed_counts={k: len(v) for k, v in report.analysed.items()},
        floors=report.floors,
        known_findings_reported=[f.key for f in known_hit],
        info=report.infos[:50],
    )
    ev = dict(property_id=report.pid, tier=report.tier,
              seed=int(os.environ.get('VERIF_SEED', '0') or 0),
              level=report.level, coverage=cov,
              assumptions=report.assumptions, wall_s=round(wall, 3),
              violations=len(unknown))
    edir = os.path.join(OUT, 'evidence')
    os.makedirs(edir, exist_ok=True)
    with open(os.path.join(edir, '%s.json' % report.pid), 'w') as fh:
        json.dump(ev, fh, indent=1, sort_keys=True, default=str)
    print('%s %s: %d obligations, %d discharged, %d known finding(s), '
          '%d new violation(s), %.2fs' % (
              report.pid, report.tier, ob, di, len(known_hit), len(unknown),
              wall), file=out)
    return 1 if unknown else 0
