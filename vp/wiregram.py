"""E4 -- wire-grammar extraction and language inclusion.

A reader (read / read_with_context / _read) and its sibling writer
(write_fields / send / send_with_context / _send / write) are walked
path-sensitively under one fixed protocol version; each yields a regular
language over tokens (codec, binding, constant).  The decision is
L(writer) <= L(reader) under token compatibility, by on-the-fly subset
construction.  Anything the walker does not understand is an AnalysisError
(fail closed)."""
import ast
import copy

from .common import AnalysisError, rel
from .srcdb import ClassInfo, FuncInfo
from .fold import FoldRaise, Opaque, Env, ClassVal, Instance
from .protocol import type_name

READ_METHODS = ('read', 'read_with_context', '_read')
WRITE_METHODS = ('send', 'send_with_context', '_send', 'write',
                 'write_fields')
MAX_UNROLL = 8


class Tok(object):
    __slots__ = ('codec', 'binding', 'const', 'node', 'value')

    def __init__(self, codec, binding='?', const=None, node=None, value=None):
        self.codec = codec
        self.binding = binding
        self.const = const
        self.node = node
        self.value = value      # writer: text of the value expression

    def show(self):
        s = self.codec
        if self.binding != '?':
            s += ':' + self.binding
        if self.const is not None:
            s += '=%r' % (self.const,)
        return s

    def __repr__(self):
        return self.show()


class Star(object):
    __slots__ = ('alts',)

    def __init__(self, alts):
        self.alts = alts        # list of sequences (lists of Tok/Star)

    def show(self):
        return '(%s)*' % ' | '.join(
            ' '.join(i.show() for i in a) or 'eps' for a in self.alts)

    def __repr__(self):
        return self.show()


def show_seq(seq):
    return ' '.join(i.show() for i in seq) or 'eps'


def compatible(w, r):
    """writer token w can be parsed by reader token r"""
    if w.codec != r.codec:
        return False
    if w.binding != '?' and r.binding != '?' and w.binding != r.binding:
        return False
    if w.const is not None and r.const is not None and w.const != r.const:
        return False
    return True


# ---------------------------------------------------------------------------
class NFA(object):
    def __init__(self):
        self.n = 0
        self.eps = {}
        self.trans = {}     # state -> [(Tok, state)]
        self.start = self.new()
        self.accept = self.new()

    def new(self):
        self.n += 1
        return self.n - 1

    def add_eps(self, a, b):
        self.eps.setdefault(a, set()).add(b)

    def add_tok(self, a, tok, b):
        self.trans.setdefault(a, []).append((tok, b))

    def closure(self, states):
        out = set(states)
        stack = list(states)
        while stack:
            s = stack.pop()
            for t in self.eps.get(s, ()):
                if t not in out:
                    out.add(t)
                    stack.append(t)
        return frozenset(out)

    def build_seq(self, seq, a, b):
        cur = a
        for item in seq:
            nxt = self.new()
            if isinstance(item, Tok):
                self.add_tok(cur, item, nxt)
            else:
                # star: cur -eps-> loop ; loop -alt-> loop ; loop -eps-> nxt
                loop = self.new()
                self.add_eps(cur, loop)
                for alt in item.alts:
                    self.build_seq(alt, loop, loop) if alt else None
                self.add_eps(loop, nxt)
            cur = nxt
        self.add_eps(cur, b)

    @staticmethod
    def of(alts):
        n = NFA()
        for seq in alts:
            n.build_seq(seq, n.start, n.accept)
        return n


def inclusion(w_alts, r_alts):
    """None when L(w) <= L(r); else (prefix tokens, offending writer token
    or None for 'writer stops here', reader expectations)."""
    W, R = NFA.of(w_alts), NFA.of(r_alts)
    start = (W.closure([W.start]), R.closure([R.start]))
    seen = {start: None}
    queue = [start]
    while queue:
        cur = queue.pop(0)
        ws, rs = cur
        if W.accept in ws and R.accept not in rs:
            expect = sorted(set(t.show() for s in rs
                                for t, _ in R.trans.get(s, ())))
            return _path(seen, cur), None, expect
        for s in ws:
            for tok, s2 in W.trans.get(s, ()):
                nr = set()
                for r in rs:
                    for rt, r2 in R.trans.get(r, ()):
                        if compatible(tok, rt):
                            nr.add(r2)
                if not nr:
                    expect = sorted(set(t.show() for r in rs
                                        for t, _ in R.trans.get(r, ())))
                    if R.accept in rs:
                        expect.append('<end of payload>')
                    return _path(seen, cur), tok, expect
                nxt = (W.closure([s2]), R.closure(nr))
                if nxt not in seen:
                    seen[nxt] = (cur, tok)
                    queue.append(nxt)
    return None


def _path(seen, cur):
    out = []
    while seen.get(cur) is not None:
        prev, tok = seen[cur]
        out.append(tok)
        cur = prev
    out.reverse()
    return out


# ---------------------------------------------------------------------------
class State(object):
    __slots__ = ('seq', 'facts', 'env', 'done')

    def __init__(self):
        self.seq = []
        self.facts = {}
        self.env = {}
        self.done = False

    def fork(self):
        s = State()
        s.seq = list(self.seq)
        s.facts = dict(self.facts)
        s.env = dict(self.env)
        s.done = self.done
        return s


class Raised(Exception):
    pass


class Walker(object):
    """Extracts the token language of one reader or writer function."""

    def __init__(self, db, cg, P, version, side, fi, self_ci=None,
                 premise_len=None, depth=0):
        self.db = db
        self.cg = cg
        self.P = P
        self.F = P.F
        self.v = version
        self.ctx = P.ctx(version)
        self.side = side            # 'r' or 'w'
        self.fi = fi
        self.self_ci = self_ci if self_ci is not None else fi.cls
        self.premise_len = premise_len
        self.depth = depth
        self.helpers = []           # (family root ClassInfo, method, recv)
        self.none_sends = []        # writer tokens whose value is known None
        params = list(fi.params)
        if fi.kind in ('instance', 'class'):
            self.self_name = params[0]
            params = params[1:]
        else:
            self.self_name = None
        self.ctx_name = None
        for p in params:
            if p in ('context', '_context'):
                self.ctx_name = p
        rest = [p for p in params if p != self.ctx_name]
        if side == 'r':
            if not rest:
                raise self.err('reader without a stream parameter', fi.node)
            self.stream = rest[0]
            self.value = None
        else:
            if len(rest) == 1:
                self.value, self.stream = None, rest[0]
            elif len(rest) >= 2:
                self.value, self.stream = rest[0], rest[1]
            else:
                raise self.err('writer without a buffer parameter', fi.node)
        self.type_ci = P.type_ci
        self.sites = {id(cs.node): cs for cs in cg.sites.get(fi, [])}

    def err(self, msg, node):
        return AnalysisError('wiregram(%s, protocol %s): %s' % (
            self.fi.qualname, self.P.vname(self.v), msg), node,
            rel(self.fi.path))

    # -- entry -------------------------------------------------------------
    def language(self):
        st = State()
        outs = self.block(self.fi.body, [st])
        return [s.seq for s in outs]

    # -- helpers -----------------------------------------------------------
    def uses_stream(self, node):
        return any(isinstance(n, ast.Name) and n.id == self.stream
                   for n in ast.walk(node))

    def codec_of(self, expr, st):
        """Type term text when `expr` denotes a wire type, else None."""
        if isinstance(expr, ast.Name) and expr.id in st.env:
            v = st.env[expr.id]
            if v[0] == 'type':
                return v[1]
            if v[0] == 'expr':
                return self.codec_of(v[1], st)
            return None
        if isinstance(expr, (ast.Name, ast.Attribute)):
            if isinstance(expr, ast.Attribute) and isinstance(
                    expr.value, ast.Name) and expr.value.id == self.self_name:
                return None
            ent = self.db.resolve_dotted(self.fi.module, expr,
                                         class_scope=None)
            ent = self.db.deref(ent) if isinstance(ent, tuple) else ent
            if isinstance(ent, ClassInfo) and self.db.is_subclass(
                    ent, self.type_ci):
                return ent.qualname
            if isinstance(ent, tuple) and ent[0] == 'value':
                try:
                    val = self.F.entity_value(ent)
                except (AnalysisError, FoldRaise):
                    return None
                if isinstance(val, Instance) and self.db.is_subclass(
                        val.ci, self.type_ci):
                    return type_name(val)
            if isinstance(expr, ast.Name) and expr.id == 'cls' and \
                    self.self_ci is not None:
                return None
        return None

    def type_value(self, expr, st):
        """A type alias value for `x = Double if pred else Integer`."""
        if isinstance(expr, ast.IfExp):
            c = self.cond(expr.test, st)
            if isinstance(c, bool):
                return self.type_value(expr.body if c else expr.orelse, st)
            return None
        return self.codec_of(expr, st)

    def is_ctx(self, e):
        if isinstance(e, ast.Name) and e.id == self.ctx_name:
            return True
        return (isinstance(e, ast.Attribute) and e.attr == 'context'
                and isinstance(e.value, ast.Name)
                and e.value.id == self.self_name)

    def fenv(self):
        """folding environment of the codec's own scope: module names, and
        the class itself under a classmethod's first parameter"""
        fe = Env(self.fi.module)
        fi = self.fi
        if getattr(fi, 'cls', None) is not None and fi.kind == 'class' \
                and fi.params:
            from .fold import ClassVal
            fe.vars[fi.params[0]] = ClassVal(fi.cls)
        return fe

    def fold_const(self, e):
        try:
            v = self.F.eval(e, self.fenv())
        except (AnalysisError, FoldRaise):
            return None
        return None if isinstance(v, Opaque) else v

    def cond(self, t, st):
        """True / False, or ('fork', key, polarity)."""
        if isinstance(t, ast.Constant):
            return bool(t.value)
        def ctx_like(x):
            # the context itself, or a local alias of it (`context =
            # self.context`) kept as an expression
            if self.is_ctx(x):
                return True
            if isinstance(x, ast.Name) and st is not None:
                v = getattr(st, 'env', {}).get(x.id)
                return v is not None and v[0] == 'expr' and self.is_ctx(v[1])
            return False
        if isinstance(t, ast.Call) and isinstance(t.func, ast.Attribute) and \
                t.func.attr.startswith('protocol_') and \
                ctx_like(t.func.value):
            args = [self.F.eval(a, self.fenv()) for a in t.args]
            fv = self.F.getattr(self.ctx, t.func.attr, t, self.fi.module)
            return bool(self.F.call(fv, args, {}, t, Env(self.fi.module)))
        if ctx_like(t):
            return True
        if isinstance(t, ast.UnaryOp) and isinstance(t.op, ast.Not):
            c = self.cond(t.operand, st)
            if isinstance(c, bool):
                return not c
            return ('fork', c[1], not c[2])
        if isinstance(t, ast.BoolOp):
            is_and = isinstance(t.op, ast.And)
            pending = None
            for v in t.values:
                c = self.cond(v, st)
                if isinstance(c, bool):
                    if is_and and not c:
                        return False
                    if not is_and and c:
                        return True
                    continue
                if pending is not None:
                    # two run-time operands: one combined fork
                    return self.fact(ast.unparse(t), st)
                pending = c
            if pending is None:
                return is_and
            return pending
        if isinstance(t, ast.Compare) and len(t.ops) == 1 and \
                isinstance(t.ops[0], (ast.Is, ast.IsNot)) and \
                isinstance(t.comparators[0], ast.Constant) and \
                t.comparators[0].value is None:
            key = 'isnone:' + self.norm(t.left, st)
            c = self.fact(key, st)
            if isinstance(t.ops[0], ast.IsNot):
                return (not c) if isinstance(c, bool) else ('fork', c[1],
                                                            not c[2])
            return c
        if isinstance(t, ast.Name) and t.id in st.env:
            v = st.env[t.id]
            if v[0] == 'bool':
                return v[1]
            if v[0] == 'expr':
                return self.cond(v[1], st)
        return self.fact('truth:' + self.norm(t, st), st)

    def cond_states(self, t, st):
        """[(state, truth)] for a test that may itself consume the stream
        (`if Boolean.read(f):`), tokens emitted in evaluation order."""
        if not self.uses_stream(t):
            return self.split(self.cond(t, st), st)
        if isinstance(t, ast.UnaryOp) and isinstance(t.op, ast.Not):
            return [(s, not tr) for s, tr in self.cond_states(t.operand, st)]
        if isinstance(t, ast.BoolOp):
            is_and = isinstance(t.op, ast.And)
            live = [(st, is_and)]
            done = []
            for v in t.values:
                nxt = []
                for s, _ in live:
                    for s2, tr in self.cond_states(v, s):
                        if tr == is_and:
                            nxt.append((s2, tr))
                        else:
                            done.append((s2, tr))
                live = nxt
            return done + live
        n0 = len(st.seq)
        outs = self.emit_expr(t, st, '?')
        res = []
        for s in outs:
            toks = [x for x in s.seq[n0:] if isinstance(x, Tok)]
            if self.direct_read(t) and toks and toks[-1].codec == 'Boolean' \
                    and toks[-1].const is not None:
                res.append((s, toks[-1].const))
            else:
                res.append((s, True))
                res.append((s.fork(), False))
        return res

    def norm(self, e, st):
        """Text of an expression with loop-substituted names expanded."""
        class T(ast.NodeTransformer):
            def visit_Name(s, n):
                v = st.env.get(n.id)
                if v is not None and v[0] == 'expr':
                    return copy.deepcopy(v[1])
                return n
        return ast.unparse(T().visit(copy.deepcopy(e)))

    def fact(self, key, st):
        if key in st.facts:
            return st.facts[key]
        return ('fork', key, True)

    def branch(self, c, states_true, states_false, st):
        """Helper for callers: not used directly."""
        raise NotImplementedError

    # -- statements --------------------------------------------------------
    def block(self, stmts, states):
        for stx in stmts:
            nxt = []
            for s in states:
                if s.done:
                    nxt.append(s)
                    continue
                try:
                    nxt.extend(self.stmt(stx, s))
                except Raised:
                    pass
            states = nxt
        return states

    def split(self, c, st):
        """[(state, truth)] for a condition result."""
        if isinstance(c, bool):
            return [(st, c)]
        _, key, pol = c
        a, b = st.fork(), st.fork()
        a.facts[key] = True
        b.facts[key] = False
        return [(a, pol), (b, not pol)]

    def stmt(self, n, st):
        if isinstance(n, ast.Expr):
            if isinstance(n.value, ast.Constant):
                return [st]
            return self.expr_stmt(n.value, st)
        if isinstance(n, ast.Assign):
            return self.assign(n, st)
        if isinstance(n, ast.AugAssign):
            if self.uses_stream(n):
                raise self.err('augmented assignment consuming the stream',
                               n)
            self.invalidate(n.target, st)
            return [st]
        if isinstance(n, ast.If):
            out = []
            for s, truth in self.cond_states(n.test, st):
                out.extend(self.block(n.body if truth else n.orelse, [s]))
            return out
        if isinstance(n, ast.For):
            return self.for_(n, st)
        if isinstance(n, ast.Return):
            outs = [st]
            if n.value is not None and self.uses_stream(n.value):
                outs = self.emit_expr(n.value, st, '?')
            for s in outs:
                s.done = True
            return outs
        if isinstance(n, ast.Raise):
            raise Raised()
        if isinstance(n, ast.Pass):
            return [st]
        if isinstance(n, (ast.FunctionDef, ast.ClassDef)):
            return [st]
        raise self.err('unsupported statement %s' % type(n).__name__, n)

    def invalidate(self, target, st):
        names = set(x.id for x in ast.walk(target) if isinstance(x, ast.Name))
        txt = ast.unparse(target)
        for k in list(st.facts):
            if txt in k:
                del st.facts[k]
        if isinstance(target, ast.Name):
            st.env.pop(target.id, None)

    # -- for loops -----------------------------------------------------------
    def for_(self, n, st):
        it = n.iter
        items = None
        if isinstance(it, (ast.Tuple, ast.List)):
            items = list(it.elts)
        elif isinstance(it, ast.Constant) and isinstance(it.value, (tuple,
                                                                    str)):
            items = [ast.Constant(value=x) for x in it.value]
        elif isinstance(it, ast.Call) and isinstance(it.func, ast.Name) and \
                it.func.id == 'range' and len(it.args) == 1:
            k = self.fold_const(it.args[0])
            if isinstance(k, int) and 0 <= k <= MAX_UNROLL:
                items = [ast.Constant(value=i) for i in range(k)]
        elif isinstance(it, ast.Name) and it.id == self.value and \
                self.premise_len is not None:
            # round-trip premise: the writer of a custom Type receives a
            # value of its reader's result type
            items = [ast.Subscript(value=it, slice=ast.Constant(value=i),
                                   ctx=ast.Load())
                     for i in range(self.premise_len)]
        if items is not None:
            states = [st]
            for elt in items:
                nxt = []
                for s in states:
                    if isinstance(n.target, ast.Name):
                        s.env[n.target.id] = ('expr', elt)
                    else:
                        raise self.err('unsupported loop target', n)
                    nxt.extend(self.block(n.body, [s]))
                states = nxt
            return states
        if self.uses_stream(it):
            # the iterable itself reads / writes the stream (a helper given
            # the stream, a generator over reads): not a repetition of the
            # body alone, and not followed here
            raise self.err('the loop iterates over %s, which uses the stream'
                           % ast.unparse(it)[:60], n)
        # run-time repetition: Kleene star over the body's alternatives
        body_st = st.fork()
        body_st.seq = []
        if isinstance(n.target, ast.Name):
            body_st.env[n.target.id] = ('elem', it)
        outs = self.block(n.body, [body_st])
        alts = [o.seq for o in outs]
        if any(alts):
            st.seq.append(Star(alts))
        return [st]

    # -- assignments -----------------------------------------------------------
    def binding_of_target(self, t, st):
        if isinstance(t, ast.Attribute) and isinstance(t.value, ast.Name):
            base = t.value.id
            if base == self.self_name:
                return t.attr
            v = st.env.get(base)
            if v is not None and v[0] in ('elem', 'obj'):
                return t.attr
            return t.attr
        return None

    def assign(self, n, st):
        val = n.value
        tgt = n.targets[0] if len(n.targets) == 1 else None
        if self.uses_stream(val):
            # setattr-style binding comes from the target
            b = self.binding_of_target(tgt, st) if tgt is not None else None
            n0 = len(st.seq)
            outs = self.emit_expr(val, st, b or '?', target=tgt)
            for s in outs:
                if isinstance(tgt, ast.Name):
                    toks = [x for x in s.seq[n0:]
                            if isinstance(x, Tok)]
                    direct = self.direct_read(val)
                    if direct and toks:
                        tk = toks[-1]
                        if tk.codec == 'Boolean' and tk.const is not None:
                            s.env[tgt.id] = ('bool', tk.const)
                        else:
                            s.env[tgt.id] = ('tok', tk)
                    else:
                        s.env.pop(tgt.id, None)
                elif isinstance(tgt, ast.Attribute) and \
                        self.direct_read(val):
                    toks = [x for x in s.seq[n0:] if isinstance(x, Tok)]
                    key = 'truth:' + ast.unparse(tgt)
                    s.facts.pop(key, None)
                    if toks and toks[-1].codec == 'Boolean' and \
                            toks[-1].const is not None:
                        s.facts[key] = toks[-1].const
            return outs
        # no stream involvement -------------------------------------------
        if tgt is None:
            return [st]
        if isinstance(tgt, ast.Name):
            tv = self.type_value(val, st)
            if tv is not None:
                st.env[tgt.id] = ('type', tv)
                return [st]
            if self.is_ctx(val):
                # a local alias of the context (either side)
                st.env[tgt.id] = ('expr', val)
                return [st]

            def version_test(v):
                try:
                    return isinstance(self.cond(v, st), bool)
                except AnalysisError:
                    return False
            if isinstance(val, ast.Call) and isinstance(
                    val.func, ast.Attribute) and val.func.attr.startswith(
                        'protocol_') and version_test(val):
                # a version test kept in a local flag
                st.env[tgt.id] = ('expr', val)
                return [st]
            if isinstance(val, ast.Call):
                # constructor call with token-bound locals: bind by parameter
                self.bind_ctor(val, st)
                st.env[tgt.id] = ('obj', val)
                return [st]
            if isinstance(val, (ast.Compare, ast.BoolOp, ast.UnaryOp,
                                ast.Name, ast.Attribute)) and \
                    self.side == 'w':
                # a local flag computed from packet state: keep as expression
                st.env[tgt.id] = ('expr', val)
                return [st]
            self.invalidate(tgt, st)
            return [st]
        if isinstance(tgt, ast.Attribute):
            b = self.binding_of_target(tgt, st)
            self.rebind(val, b, st)
            self.invalidate(tgt, st)
            # remember `self.x = None` style facts for the writer's None rule
            return [st]
        if isinstance(tgt, ast.Tuple):
            for e in tgt.elts:
                self.invalidate(e, st)
            return [st]
        return [st]

    def direct_read(self, val):
        return isinstance(val, ast.Call) and isinstance(
            val.func, ast.Attribute) and val.func.attr in (
                'read', 'read_with_context')

    def rebind(self, val, b, st):
        """`self.b = local` / `self.b = (l1, l2)` / `self.b = C(l1, ...)`"""
        if b is None:
            return
        if isinstance(val, ast.Name):
            v = st.env.get(val.id)
            if v is not None and v[0] == 'tok' and v[1].binding == '?':
                v[1].binding = b
        elif isinstance(val, ast.Tuple):
            for i, e in enumerate(val.elts):
                if isinstance(e, ast.Name):
                    v = st.env.get(e.id)
                    if v is not None and v[0] == 'tok' and \
                            v[1].binding == '?':
                        v[1].binding = '%s[%d]' % (b, i)

    def bind_ctor(self, call, st):
        ent = self.db.resolve_dotted(self.fi.module, call.func)
        ent = self.db.deref(ent) if isinstance(ent, tuple) else ent
        if not isinstance(ent, ClassInfo):
            return
        init = self.db.find_method(ent, '__init__')
        if init is None:
            return
        params = init.params[1:]
        for p, a in list(zip(params, call.args)) + [
                (k.arg, k.value) for k in call.keywords if k.arg]:
            if isinstance(a, ast.Name):
                v = st.env.get(a.id)
                if v is not None and v[0] == 'tok' and v[1].binding == '?':
                    v[1].binding = p
            elif isinstance(a, ast.Tuple):
                for i, e in enumerate(a.elts):
                    if isinstance(e, ast.Name):
                        v = st.env.get(e.id)
                        if v is not None and v[0] == 'tok' and \
                                v[1].binding == '?':
                            v[1].binding = '%s[%d]' % (p, i)

    # -- expressions that consume the stream (reader side) ---------------------
    def emit_expr(self, e, st, binding, target=None):
        """Emit the tokens of every codec read inside e, in evaluation
        order.  Returns the list of resulting states."""
        if isinstance(e, ast.IfExp):
            out = []
            for s, truth in self.cond_states(e.test, st):
                arm = e.body if truth else e.orelse
                if self.uses_stream(arm):
                    out.extend(self.emit_expr(arm, s, binding))
                else:
                    out.append(s)
            return out
        if isinstance(e, ast.Call):
            f = e.func
            if isinstance(f, ast.Attribute) and any(
                    isinstance(a, ast.Name) and a.id == self.stream
                    for a in e.args):
                return self.stream_call(e, st, binding)
            if isinstance(f, ast.Name) and f.id == 'setattr' and \
                    len(e.args) == 3:
                nm = e.args[1]
                b = None
                if isinstance(nm, ast.Constant):
                    b = nm.value
                elif isinstance(nm, ast.Name) and nm.id in st.env and \
                        st.env[nm.id][0] == 'expr' and \
                        isinstance(st.env[nm.id][1], ast.Constant):
                    b = st.env[nm.id][1].value
                return self.emit_expr(e.args[2], st, b or '?')
            # generic call: callee expression, then arguments in order
            states = [st]
            for a in ([f] if not isinstance(f, ast.Name) else []) + \
                    list(e.args) + [k.value for k in e.keywords]:
                if isinstance(a, ast.Starred):
                    a = a.value
                if not self.uses_stream(a):
                    continue
                nxt = []
                for s in states:
                    nxt.extend(self.emit_expr(a, s, '?'))
                states = nxt
            return states
        if isinstance(e, (ast.GeneratorExp, ast.ListComp)):
            if len(e.generators) != 1 or e.generators[0].ifs:
                raise self.err('unsupported comprehension', e)
            g = e.generators[0]
            k = None
            if isinstance(g.iter, ast.Call) and isinstance(g.iter.func,
                                                           ast.Name) and \
                    g.iter.func.id == 'range' and len(g.iter.args) == 1:
                k = self.fold_const(g.iter.args[0])
            if isinstance(k, int) and 0 <= k <= MAX_UNROLL:
                states = [st]
                for i in range(k):
                    nxt = []
                    for s in states:
                        nxt.extend(self.emit_expr(e.elt, s, '?'))
                    states = nxt
                return states
            body = st.fork()
            body.seq = []
            outs = self.emit_expr(e.elt, body, '?')
            st.seq.append(Star([o.seq for o in outs]))
            return [st]
        if isinstance(e, ast.BinOp):
            states = [st]
            for a in (e.left, e.right):
                if self.uses_stream(a):
                    nxt = []
                    for s in states:
                        nxt.extend(self.emit_expr(a, s, binding))
                    states = nxt
            return states
        if isinstance(e, (ast.Subscript, ast.Attribute, ast.UnaryOp,
                          ast.Starred)):
            inner = e.value if not isinstance(e, ast.UnaryOp) else e.operand
            return self.emit_expr(inner, st, binding)
        if isinstance(e, (ast.Tuple, ast.List)):
            states = [st]
            for i, a in enumerate(e.elts):
                if self.uses_stream(a):
                    nxt = []
                    for s in states:
                        nxt.extend(self.emit_expr(
                            a, s, '%s[%d]' % (binding, i)
                            if binding != '?' else '?'))
                    states = nxt
            return states
        raise self.err('unsupported stream-consuming expression %s'
                       % type(e).__name__, e)

    # -- calls that pass the stream ---------------------------------------------
    def expr_stmt(self, e, st):
        if not isinstance(e, ast.Call):
            return [st]
        if self.uses_stream(e):
            return self.emit_expr(e, st, '?')
        # self.deprecated() and friends: calls that always raise
        cs = self.sites.get(id(e))
        if cs is not None and cs.callees and all(
                always_raises(m) for m, _, _ in cs.callees):
            raise Raised()
        # container.append(local object): nothing on the wire
        return [st]

    def stream_call(self, e, st, binding):
        f = e.func
        recv = f.value
        meth = f.attr
        codec = self.type_value(recv, st) if isinstance(recv, ast.IfExp) \
            else self.codec_of(recv, st)
        if codec is not None:
            if meth in READ_METHODS and self.side == 'r':
                return self.read_token(codec, binding, e, st)
            if meth in WRITE_METHODS and self.side == 'w':
                return self.write_token(codec, e, st)
            raise self.err('%s call on a wire type inside a %s'
                           % (meth, 'reader' if self.side == 'r'
                              else 'writer'), e)
        # in-repo helper consuming the stream
        if isinstance(recv, ast.Name) and recv.id == self.self_name:
            target = self.db.find_method(self.self_ci, meth)
            if target is None:
                raise self.err('self.%s does not resolve' % meth, e)
            return self.inline(target, e, st)
        if isinstance(recv, ast.Call) and isinstance(recv.func, ast.Name) \
                and recv.func.id == 'super':
            mro = self.db.mro(self.self_ci)
            own = self.fi.cls
            nxt = None
            if own in mro:
                for k in mro[mro.index(own) + 1:]:
                    m = self.db.own_method(k, meth)
                    if m is not None:
                        nxt = m
                        break
            if nxt is None:
                raise self.err('super().%s does not resolve' % meth, e)
            return self.inline(nxt, e, st)
        # a method of the codec's own class called on a local instance of it
        # (`record = cls(); record._fill(file_object)`): part of this codec
        cs = self.sites.get(id(e))
        own = self.fi.cls
        if cs is not None and own is not None and isinstance(recv, ast.Name):
            insts = set(t[1] for t in cs.recv_types if t[0] == 'inst')
            if insts == {own} and len(cs.recv_types) == len(insts):
                target = self.db.find_method(own, meth)
                if target is not None and target.kind == 'instance':
                    return self.inline(target, e, st)
        return self.helper_token(e, st)

    def read_token(self, codec, binding, e, st):
        if codec == 'Boolean':
            a, b = st.fork(), st.fork()
            a.seq.append(Tok('Boolean', binding, True, e))
            b.seq.append(Tok('Boolean', binding, False, e))
            return [a, b]
        if codec == 'TrailingByteArray':
            # reads whatever remains, possibly nothing
            a = st.fork()
            st.seq.append(Tok(codec, binding, None, e))
            return [st, a]
        st.seq.append(Tok(codec, binding, None, e))
        return [st]

    def value_binding(self, v, st):
        """Binding a writer derives from the value expression."""
        if isinstance(v, ast.Name) and v.id in st.env and \
                st.env[v.id][0] == 'expr':
            v = st.env[v.id][1]
        if isinstance(v, ast.Attribute) and isinstance(v.value, ast.Name):
            return v.attr
        if isinstance(v, ast.Attribute):
            inner = self.value_binding(v.value, st)
            return '%s.%s' % (inner, v.attr) if inner else None
        if isinstance(v, ast.Subscript) and isinstance(v.slice, ast.Constant):
            if isinstance(v.value, ast.Name) and v.value.id == self.value:
                return None
            inner = self.value_binding(v.value, st)
            return '%s[%r]' % (inner, v.slice.value) if inner else None
        return None

    def write_token(self, codec, e, st):
        if not e.args:
            raise self.err('send without a value', e)
        v = e.args[0]
        b = self.value_binding(v, st) or '?'
        vt = self.norm(v, st)
        if codec == 'Boolean':
            if isinstance(v, ast.Constant) and isinstance(v.value, bool):
                st.seq.append(Tok('Boolean', b, v.value, e, vt))
                return [st]
            out = []
            for s, truth in self.split(self.cond(v, st), st):
                s.seq.append(Tok('Boolean', b, truth, e, vt))
                out.append(s)
            return out
        tok = Tok(codec, b, None, e, vt)
        # a value the path condition says is None cannot be encoded
        key = 'isnone:' + vt
        if st.facts.get(key) is True:
            self.none_sends.append((tok, e))
        st.seq.append(tok)
        return [st]

    def inline(self, target, call, st):
        if self.depth > 6:
            raise self.err('helper inlining too deep', call)
        w = Walker(self.db, self.cg, self.P, self.v, self.side, target,
                   self_ci=self.self_ci, premise_len=self.premise_len,
                   depth=self.depth + 1)
        sub = State()
        sub.facts = dict(st.facts)
        outs = w.block(target.body, [sub])
        self.helpers.extend(w.helpers)
        self.none_sends.extend(w.none_sends)
        res = []
        for o in outs:
            s = st.fork()
            s.seq.extend(o.seq)
            s.facts.update({k: v for k, v in o.facts.items()
                            if k.startswith('isnone:self.')
                            or k.startswith('truth:self.')})
            res.append(s)
        return res

    def helper_token(self, e, st):
        cs = self.sites.get(id(e))
        recv = e.func.value
        meth = e.func.attr
        classes = set()
        # flow-sensitive refinement: `self.x = <ctor>()` earlier in this
        # function decides the receiver of `self.x.m(...)`
        if cs is not None:
            for t in cs.recv_types:
                if t[0] == 'inst' and not self.db.is_subclass(
                        t[1], self.P.packet_ci):
                    classes.add(t[1])
        if not classes:
            raise self.err('call %s passes the stream to an unresolved '
                           'receiver' % ast.unparse(e.func), e)
        # family root: topmost in-repo class defining the method
        roots = set()
        for c in classes:
            top = None
            for k in self.db.mro(c):
                if meth in k.attrs:
                    top = k
            if top is None:
                raise self.err('%s.%s is not defined in the repository'
                               % (c.qualname, meth), e)
            roots.add(top)
        if len(roots) != 1:
            raise self.err('receiver of %s belongs to several helper '
                           'families' % ast.unparse(e.func), e)
        root = roots.pop()
        b = '?'
        if isinstance(recv, ast.Attribute) and isinstance(recv.value,
                                                          ast.Name) and \
                recv.value.id == self.self_name:
            b = recv.attr
        self.helpers.append((root, meth, frozenset(classes)))
        st.seq.append(Tok('<%s>' % root.qualname, b, None, e))
        return [st]


def always_raises(fi):
    body = [s for s in fi.body if not (isinstance(s, ast.Expr) and
                                       isinstance(s.value, ast.Constant))]
    return bool(body) and isinstance(body[0], ast.Raise)


def definition_language(P, cv, v, side):
    """Token sequence the generic Packet.read / write_fields denotes for the
    folded definition."""
    d = P.definition(cv, v)
    if not isinstance(d, list):
        return None
    seq = []
    for entry in d:
        if not isinstance(entry, dict):
            return None
        for name, t in entry.items():
            seq.append(Tok(type_name(t), name))
    return [seq]
