"""E6 -- per-function control-flow graphs with exception edges, dominators,
post-dominators, natural loops and path queries.  Hand-built over the
statement kinds the package uses."""
import ast

from .common import AnalysisError, rel


class Node(object):
    __slots__ = ('id', 'kind', 'ast', 'succ', 'pred', 'withs', 'tries',
                 'loops', 'note')

    def __init__(self, nid, kind, astnode):
        self.id = nid
        self.kind = kind      # entry exit raise stmt test for with handler
        self.ast = astnode
        self.succ = []        # (Node, label)
        self.pred = []        # (Node, label)
        self.withs = ()       # enclosing With statements (ast), outermost 1st
        self.tries = ()       # enclosing Try statements whose *body* holds it
        self.loops = ()       # enclosing loop statements
        self.note = None

    @property
    def lineno(self):
        return getattr(self.ast, 'lineno', None)

    def own(self):
        """The AST sub-trees evaluated *at* this node (a `with` node only
        evaluates its context expressions, a `for` node only binds its
        target, def/class statements evaluate nothing of their body)."""
        a = self.ast
        if a is None:
            return []
        if self.kind == 'with':
            return [it.context_expr for it in a.items]
        if self.kind == 'for':
            return [a.target]
        if self.kind == 'handler':
            return [a.type] if a.type is not None else []
        if self.kind == 'finally':
            return []
        if isinstance(a, (ast.FunctionDef, ast.AsyncFunctionDef,
                          ast.ClassDef)):
            return list(a.decorator_list)
        return [a]

    def walk(self):
        for root in self.own():
            for x in ast.walk(root):
                yield x

    def calls(self):
        return [x for x in self.walk() if isinstance(x, ast.Call)]

    def __repr__(self):
        if self.ast is None:
            return '<%s>' % self.kind
        try:
            t = ast.unparse(self.ast).split('\n')[0][:50]
        except Exception:
            t = '?'
        return '<%s@%s %s>' % (self.kind, self.lineno, t)


class Frame(object):
    def __init__(self, kind, parent, **kw):
        self.kind = kind          # func | loop | trybody | finally
        self.parent = parent
        self.__dict__.update(kw)


def contains_call(n):
    for x in ast.walk(n):
        if isinstance(x, (ast.Call, ast.Await, ast.Yield, ast.YieldFrom)):
            return True
        if isinstance(x, (ast.Lambda, ast.FunctionDef, ast.ClassDef)):
            pass
    return False


class CFG(object):
    def __init__(self, fi):
        self.fi = fi
        self.nodes = []
        self.entry = self._new('entry', None)
        self.exit = self._new('exit', None)          # normal return
        self.raise_exit = self._new('raise', None)   # exception escapes
        self._withs = ()
        self._tries = ()
        self._loops = ()
        top = Frame('func', None)
        pend = [(self.entry, 'next')]
        pend = self._block(fi.body, pend, top)
        self._connect(pend, self.exit)
        self._dom = None
        self._pdom = None
        self.by_ast = {}
        for n in self.nodes:
            if n.ast is not None:
                self.by_ast.setdefault(id(n.ast), []).append(n)

    # -- construction ------------------------------------------------------
    def _new(self, kind, astnode):
        n = Node(len(self.nodes), kind, astnode)
        n.withs = getattr(self, '_withs', ())
        n.tries = getattr(self, '_tries', ())
        n.loops = getattr(self, '_loops', ())
        self.nodes.append(n)
        return n

    @staticmethod
    def _edge(a, b, label):
        if (b, label) not in a.succ:
            a.succ.append((b, label))
            b.pred.append((a, label))

    def _connect(self, pend, node):
        for src, label in pend:
            self._edge(src, node, label)

    def _exc_targets(self, frame):
        """Where an exception raised under `frame` may continue."""
        out = []
        f = frame
        while f is not None:
            if f.kind == 'trybody':
                out.extend(f.handlers)
                if f.catch_all:
                    return out
            elif f.kind == 'finally':
                out.append(self._finally_copy(f, 'exc'))
                return out
            elif f.kind == 'func':
                out.append(self.raise_exit)
                return out
            f = f.parent
        out.append(self.raise_exit)
        return out

    def _finally_copy(self, f, kind):
        """Entry node of a copy of the finally block used for the given way
        of leaving the protected region."""
        if kind in f.memo:
            return f.memo[kind]
        head = self._new('stmt', ast.Pass(lineno=f.node.finalbody[0].lineno,
                                          col_offset=0))
        head.kind = 'finally'
        head.note = kind
        f.memo[kind] = head
        saved = (self._withs, self._tries, self._loops)
        self._withs, self._tries, self._loops = f.ctx_marks
        pend = self._block(f.node.finalbody, [(head, 'next')], f.parent)
        self._withs, self._tries, self._loops = saved
        if kind == 'exc':
            for t in self._exc_targets(f.parent):
                self._connect([(p, 'exc') for p, _ in pend], t)
        elif kind == 'ret':
            self._route_return(pend, f.parent)
        elif kind[0] in ('brk', 'cont'):
            self._route_loop(pend, f.parent, kind[0])
        return head

    def _route_return(self, pend, frame):
        f = frame
        while f is not None:
            if f.kind == 'finally':
                self._connect(pend, self._finally_copy(f, 'ret'))
                return
            if f.kind == 'func':
                self._connect(pend, self.exit)
                return
            f = f.parent
        self._connect(pend, self.exit)

    def _route_loop(self, pend, frame, what):
        f = frame
        while f is not None:
            if f.kind == 'finally':
                self._connect(pend, self._finally_copy(f, (what, id(f))))
                return
            if f.kind == 'loop':
                if what == 'brk':
                    f.breaks.extend((p, 'break') for p, _ in pend)
                else:
                    self._connect([(p, 'continue') for p, _ in pend], f.head)
                return
            f = f.parent
        raise AnalysisError('break/continue outside loop',
                            None, rel(self.fi.path))

    def _raise_edges(self, node, frame):
        for t in self._exc_targets(frame):
            self._edge(node, t, 'exc')

    def _block(self, stmts, pend, frame):
        for st in stmts:
            if not pend:
                # unreachable code after return/raise/break: still build it
                # so that nothing silently disappears, but leave it detached
                pend = []
            pend = self._stmt(st, pend, frame)
        return pend

    def _simple(self, st, pend, frame, kind='stmt'):
        n = self._new(kind, st)
        self._connect(pend, n)
        if contains_call(st) or isinstance(st, (ast.Raise, ast.Assert)):
            self._raise_edges(n, frame)
        return n

    def _stmt(self, st, pend, frame):
        if isinstance(st, (ast.FunctionDef, ast.AsyncFunctionDef,
                           ast.ClassDef)):
            n = self._new('stmt', st)
            self._connect(pend, n)
            return [(n, 'next')]
        if isinstance(st, ast.Return):
            n = self._simple(st, pend, frame)
            self._route_return([(n, 'return')], frame)
            return []
        if isinstance(st, ast.Raise):
            self._simple(st, pend, frame)
            return []
        if isinstance(st, ast.Break):
            n = self._new('stmt', st)
            self._connect(pend, n)
            self._route_loop([(n, 'break')], frame, 'brk')
            return []
        if isinstance(st, ast.Continue):
            n = self._new('stmt', st)
            self._connect(pend, n)
            self._route_loop([(n, 'continue')], frame, 'cont')
            return []
        if isinstance(st, ast.If):
            t = self._simple(st.test, pend, frame, 'test')
            t.note = st
            a = self._block(st.body, [(t, 'true')], frame)
            b = self._block(st.orelse, [(t, 'false')], frame) if st.orelse \
                else [(t, 'false')]
            return a + b
        if isinstance(st, ast.While):
            t = self._simple(st.test, pend, frame, 'test')
            t.note = st
            lf = Frame('loop', frame, head=t, breaks=[], node=st)
            saved = self._loops
            self._loops = saved + (st,)
            body_end = self._block(st.body, [(t, 'true')], lf)
            self._loops = saved
            self._connect(body_end, t)
            const_true = isinstance(st.test, ast.Constant) and \
                bool(st.test.value)
            out = [] if const_true else [(t, 'false')]
            if st.orelse:
                out = self._block(st.orelse, out, frame)
            return out + lf.breaks
        if isinstance(st, ast.For):
            it = self._simple(st.iter, pend, frame, 'stmt')
            h = self._new('for', st)
            self._connect([(it, 'next')], h)
            lf = Frame('loop', frame, head=h, breaks=[], node=st)
            saved = self._loops
            self._loops = saved + (st,)
            body_end = self._block(st.body, [(h, 'true')], lf)
            self._loops = saved
            self._connect(body_end, h)
            out = [(h, 'false')]
            if st.orelse:
                out = self._block(st.orelse, out, frame)
            return out + lf.breaks
        if isinstance(st, ast.With):
            n = self._simple(st, pend, frame, 'with')
            saved = self._withs
            self._withs = saved + (st,)
            out = self._block(st.body, [(n, 'next')], frame)
            self._withs = saved
            return out
        if isinstance(st, ast.Try):
            return self._try(st, pend, frame)
        if isinstance(st, (ast.Assign, ast.AugAssign, ast.AnnAssign, ast.Expr,
                           ast.Pass, ast.Assert, ast.Delete, ast.Global,
                           ast.Nonlocal, ast.Import, ast.ImportFrom)):
            n = self._simple(st, pend, frame)
            return [(n, 'next')]
        raise AnalysisError('CFG: unsupported statement %s'
                            % type(st).__name__, st, rel(self.fi.path))

    def _try(self, st, pend, frame):
        outer = frame
        if st.finalbody:
            outer = Frame('finally', frame, node=st, memo={},
                          ctx_marks=(self._withs, self._tries, self._loops))
        handlers = []
        for h in st.handlers:
            hn = self._new('handler', h)
            handlers.append(hn)
        catch_all = any(
            h.type is None or (isinstance(h.type, ast.Name) and
                               h.type.id in ('Exception', 'BaseException'))
            for h in st.handlers)
        tb = Frame('trybody', outer, handlers=handlers, catch_all=catch_all,
                   node=st)
        saved = self._tries
        self._tries = saved + (st,)
        body_end = self._block(st.body, pend, tb)
        self._tries = saved
        if st.orelse:
            body_end = self._block(st.orelse, body_end, outer)
        ends = list(body_end)
        for h, hn in zip(st.handlers, handlers):
            ends += self._block(h.body, [(hn, 'next')], outer)
        if st.finalbody:
            head = self._finally_copy(outer, 'normal')
            self._connect(ends, head)
            # the 'normal' copy was built with pending ends kept in memo
            return outer.memo['normal_end']
        return ends

    # the normal copy needs its pending ends returned to the caller
    def _finally_copy_normal(self, f):
        head = self._new('finally', ast.Pass(
            lineno=f.node.finalbody[0].lineno, col_offset=0))
        head.note = 'normal'
        saved = (self._withs, self._tries, self._loops)
        self._withs, self._tries, self._loops = f.ctx_marks
        pend = self._block(f.node.finalbody, [(head, 'next')], f.parent)
        self._withs, self._tries, self._loops = saved
        f.memo['normal'] = head
        f.memo['normal_end'] = pend
        return head

    # -- analyses ----------------------------------------------------------
    def reachable_nodes(self):
        """Reachable nodes, in creation (= source) order so that every
        rule is deterministic."""
        if getattr(self, '_live', None) is None:
            seen = set()
            stack = [self.entry]
            while stack:
                n = stack.pop()
                if n in seen:
                    continue
                seen.add(n)
                stack.extend(s for s, _ in n.succ)
            self._live = sorted(seen, key=lambda n: n.id)
        return self._live

    def dominators(self):
        if self._dom is None:
            self._dom = self._domtree(self.entry, lambda n: [p for p, _ in
                                                             n.pred],
                                      lambda n: [s for s, _ in n.succ])
        return self._dom

    def postdominators(self, include_raise=True):
        """Post-dominators w.r.t. a virtual sink fed by exit (and the
        exceptional exit when include_raise)."""
        key = include_raise
        if self._pdom is None:
            self._pdom = {}
        if key not in self._pdom:
            sink = Node(-1, 'sink', None)
            sinks = [self.exit] + ([self.raise_exit] if include_raise else [])

            def preds(n):       # in the reversed graph
                if n is sink:
                    return []
                r = [s for s, _ in n.succ]
                if n in sinks:
                    r = r + [sink]
                return r

            def succs(n):
                if n is sink:
                    return list(sinks)
                return [p for p, _ in n.pred]
            self._pdom[key] = self._domtree(sink, preds, succs)
        return self._pdom[key]

    def _domtree(self, root, preds, succs):
        order = []
        seen = set()
        stack = [(root, iter(succs(root)))]
        seen.add(root)
        while stack:
            n, it = stack[-1]
            for s in it:
                if s not in seen:
                    seen.add(s)
                    stack.append((s, iter(succs(s))))
                    break
            else:
                order.append(n)
                stack.pop()
        order.reverse()
        allset = set(order)
        dom = {n: set(allset) for n in order}
        dom[root] = {root}
        changed = True
        while changed:
            changed = False
            for n in order:
                if n is root:
                    continue
                ps = [p for p in preds(n) if p in dom]
                if not ps:
                    new = {n}
                else:
                    new = set.intersection(*[dom[p] for p in ps]) | {n}
                if new != dom[n]:
                    dom[n] = new
                    changed = True
        return dom

    def dominates(self, a, b):
        d = self.dominators()
        return b in d and a in d[b]

    def postdominates(self, a, b, include_raise=True):
        """a is on every path from b to the function's end."""
        d = self.postdominators(include_raise)
        return b in d and a in d[b]

    def nodes_for(self, astnode):
        return self.by_ast.get(id(astnode), [])

    def find(self, pred):
        return [n for n in self.nodes if n.ast is not None and pred(n)]

    def stmt_nodes(self, pred):
        """Nodes whose statement (or test expression) satisfies pred(ast)."""
        live = self.reachable_nodes()
        return [n for n in self.nodes
                if n in live and n.ast is not None and pred(n.ast)]

    def exists_path(self, src, is_target, avoid=None, labels=None,
                    start_labels=None):
        """Is there a path src ->+ target that avoids nodes with avoid(n)
        (targets themselves are not tested for avoid)?  Returns the path
        (list of nodes) or None."""
        stack = []
        for s, l in src.succ:
            if start_labels is not None and l not in start_labels:
                continue
            if labels is not None and l not in labels:
                continue
            stack.append((s, (src, s)))
        seen = set()
        while stack:
            n, path = stack.pop()
            if is_target(n):
                return list(path)
            if n in seen:
                continue
            seen.add(n)
            if avoid is not None and avoid(n):
                continue
            for s, l in n.succ:
                if labels is not None and l not in labels:
                    continue
                stack.append((s, path + (s,)))
        return None

    def loop_nodes(self, loop_stmt):
        return [n for n in self.nodes if loop_stmt in n.loops]

    def in_with(self, node, pred):
        return any(pred(w) for w in node.withs)


# patch: route the 'normal' copy through the dedicated builder
_orig_copy = CFG._finally_copy


def _copy(self, f, kind):
    if kind == 'normal':
        if 'normal' in f.memo:
            return f.memo['normal']
        return self._finally_copy_normal(f)
    return _orig_copy(self, f, kind)


CFG._finally_copy = _copy


_CACHE = {}


def cfg_of(fi):
    key = id(fi.node)
    c = _CACHE.get(key)
    if c is None or c.fi is not fi:
        c = _CACHE[key] = CFG(fi)
    return c
