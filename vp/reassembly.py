"""Frame reassembly as an inductive argument over path summaries.

read_packet gathers one frame: it reads the VarInt length prefix L from the
stream, then appends chunks to a per-frame buffer until L bytes are there.
What must hold does not depend on how the code counts (length of the buffer,
a running total, a remaining-bytes counter):

  (I)   every request to the stream asks for exactly L - A bytes, where A is
        the number of bytes appended to the frame buffer so far;
  (II)  the loop goes on exactly while A < L;
  (III) an empty chunk (end of stream) leaves the loop by raising before
        anything is appended -- the loop cannot spin;
  (IV)  nothing leaves the loop in another way (no decode of a partial
        frame).

The counters are handled by inferring, for each loop-carried variable c, the
linear invariant  c = c0 + k * (A - A0)  from its value before the loop and
its change per iteration (which must be k times the bytes appended in that
iteration, on every path that goes on), and then evaluating the request size
and the loop condition as linear forms in L and A under that invariant."""
import os

from .pathsum import struct, show, subterms, is_const


class Lin(object):
    """linear form: {symbol: coefficient} + constant"""

    def __init__(self, coef=None, const=0):
        self.coef = {k: v for k, v in (coef or {}).items() if v != 0}
        self.const = const

    @staticmethod
    def sym(s):
        return Lin({s: 1})

    def __add__(self, o):
        c = dict(self.coef)
        for k, v in o.coef.items():
            c[k] = c.get(k, 0) + v
        return Lin(c, self.const + o.const)

    def scale(self, k):
        return Lin({a: v * k for a, v in self.coef.items()}, self.const * k)

    def __sub__(self, o):
        return self + o.scale(-1)

    def __eq__(self, o):
        return isinstance(o, Lin) and self.coef == o.coef and \
            self.const == o.const

    def subst(self, s, form):
        if s not in self.coef:
            return self
        k = self.coef[s]
        rest = Lin({a: v for a, v in self.coef.items() if a != s},
                   self.const)
        return rest + form.scale(k)

    def __repr__(self):
        parts = ['%s%s' % ('' if v == 1 else '-' if v == -1 else
                           '%d*' % v, k if isinstance(k, str) else show(k))
                 for k, v in sorted(self.coef.items(), key=repr)]
        if self.const or not parts:
            parts.append(str(self.const))
        return ' + '.join(parts)


class NotLinear(Exception):
    pass


class Frame(object):
    """Byte accounting along a list of events for one frame buffer."""

    def __init__(self, buf, stream, L, raw_nodes):
        self.buf = buf
        self.stream = stream
        self.L = L
        self.raw = raw_nodes            # ids of ast nodes of raw stream reads
        self.lens = {}                  # uid of get_writable() result -> Lin
        self.chunks = {}                # uid of stream.read result -> symbol

    def recv_is(self, e, place):
        return (e.fn[0] == 'attr' and e.fn[1] == place) or (
            e.fn[0] == 'fn' and len(e.fn) > 2 and e.fn[2] is not None
            and e.fn[2] == place)

    def is_stream_read(self, e):
        if not (e.kind == 'call' and id(e.node) in self.raw and
                e.method() in ('read', 'recv')):
            return False
        # the call-graph could not type the receiver; the path summary may
        # know better: an object built on this path (a packet made by the
        # class looked up in the decoder table, the frame buffer) is not
        # the byte stream
        recv = e.fn[1] if e.fn[0] == 'attr' else (
            e.fn[2] if e.fn[0] == 'fn' and len(e.fn) > 2 else None)
        if recv is not None and recv != self.stream and \
                recv[0] in ('obj', 'call'):
            return False
        return True

    def lin(self, t, env):
        """linear form of an integer-valued term"""
        if is_const(t) and isinstance(t[1], int) and not isinstance(
                t[1], bool):
            return Lin(const=t[1])
        if self.L is not None and t == self.L:
            return Lin.sym('L')
        if t[0] == 'phi':
            if t in env:
                return env[t]
            return Lin.sym(t)
        if t[0] == 'op' and t[1] == 'len' and len(t[2]) == 1:
            x = t[2][0]
            if x[0] == 'call' and x[4] in self.lens:
                return self.lens[x[4]]
            if x[0] == 'call' and x[4] in self.chunks:
                return Lin.sym(self.chunks[x[4]])
            return Lin.sym(t)
        if t[0] == 'op' and t[1] in ('+', '-') and len(t[2]) == 2:
            a, b = self.lin(t[2][0], env), self.lin(t[2][1], env)
            return a + b if t[1] == '+' else a - b
        if t[0] == 'op' and t[1] == 'usub':
            return self.lin(t[2][0], env).scale(-1)
        return Lin.sym(t)

    def walk(self, events, A, env, requests):
        """Account the events in order.  A: Lin bytes appended so far.
        Returns the new A.  requests: list collecting (event, size form,
        A at that time)."""
        for e in events:
            if e.kind != 'call':
                continue
            m = e.method()
            if self.recv_is(e, self.buf):
                if m == 'get_writable':
                    self.lens[e.res[4]] = A
                elif m == 'send' and e.args:
                    x = e.args[-1]
                    if x[0] == 'call' and x[4] in self.chunks:
                        A = A + Lin.sym(self.chunks[x[4]])
                    else:
                        A = A + Lin.sym(('len', struct(x)))
                elif m == 'reset':
                    A = Lin()
            elif self.is_stream_read(e):
                if e.res[4] not in self.chunks:
                    self.chunks[e.res[4]] = 'chunk%d' % (len(self.chunks)
                                                         + 1)
                size = e.args[-1] if e.args else None
                requests.append((e, self.lin(size, env) if size is not None
                                 else None, A))
        return A


def analyse(S, rp, raw_nodes, packet_buffer_ci):
    """-> dict(problems=[(key, node, text)], facts=[text], loops=n)"""
    paths = [p for p in S.run(rp)]
    stream = ('sym', rp.params[1])
    out = dict(problems=[], facts=[], loops=0, requests=0, L=None)
    seen_prob = set()

    def prob(key, node, text):
        if key not in seen_prob:
            seen_prob.add(key)
            out['problems'].append((key, node, text))
    for p in paths:
        evs = p.events
        # the length prefix and the frame buffer of this path
        L = None
        buf = None
        for e in p.flat(('call',)):
            if L is None and e.method() == 'read' and e.args and \
                    e.args[-1] == stream and any(
                        t.cls is not None and t.cls.name == 'VarInt'
                        for t in (e.targets or ())):
                L = e.res
        for e in p.flat(('store', 'call')):
            for t in ([e.base] if e.kind == 'store' else
                      [e.fn[1]] if e.fn[0] == 'attr' else
                      [e.fn[2]] if e.fn[0] == 'fn' else []):
                if t is not None and t[0] == 'obj' and \
                        t[3] is packet_buffer_ci:
                    buf = buf or t
        if L is None or buf is None:
            continue
        out['L'] = L
        fr = Frame(buf, stream, L, raw_nodes)
        A = Lin()
        requests = []
        for i, e in enumerate(evs):
            if e.kind == 'loop':
                reads_here = any(fr.is_stream_read(x) for q in e.paths
                                 for x in q.flat(('call',)))
                if not reads_here:
                    continue
                out['loops'] += 1
                check_loop(fr, e, A, prob, out)
                A = Lin.sym('L')        # after the loop the frame is whole
                continue
            if e.loops:
                continue        # the iteration that left the function
            before = len(requests)
            A = fr.walk([e], A, {}, requests)
            for ev, size, a in requests[before:]:
                out['requests'] += 1
                want = Lin.sym('L') - a
                if size is None or not (size == want):
                    prob('request-size', ev.node, 'the stream is asked for '
                         '%s bytes when %s of the frame\'s L bytes have '
                         'been appended; only the remaining %s may be '
                         'requested, or bytes of the next frame are '
                         'consumed' % (size, a, want))
    return out


def check_loop(fr, lp, A0, prob, out):
    phis = lp.phis or {}
    pre = lp.pre or {}
    goes_on = [q for q in lp.paths if q.outcome[0] in ('fall', 'continue')]
    leaves = [q for q in lp.paths if q.outcome[0] in ('return', 'break')
              and len(q.outcome) == 1 or q.outcome[0] == 'return']
    # per continuing path: bytes appended and the change of each counter
    per = []
    for q in lp.paths:
        saved = (dict(fr.lens), dict(fr.chunks))
        reqs = []
        dA = fr.walk(q.flat(('call',)), Lin(), {}, reqs)
        per.append((q, dA, reqs))
    inv = {}
    for name, ph in phis.items():
        ks = set()
        okk = True
        for q, dA, reqs in per:
            if q.outcome[0] not in ('fall', 'continue'):
                continue
            end = q.env.get(name)
            if end is None:
                okk = False
                continue
            dc = fr.lin(end, {}) - Lin.sym(ph)
            if os.environ.get("RE_DEBUG"):
                print("    path", q.outcome[0], "dA", dA, "dc", dc)
            if not dA.coef and not dA.const:
                if dc.coef or dc.const:
                    okk = False
                continue
            k = None
            for sym_, v in dA.coef.items():
                r = dc.coef.get(sym_, 0)
                if r % v:
                    okk = False
                    break
                k = r // v if k is None else k
                if r // v != k:
                    okk = False
            if k is None or not (dc == dA.scale(k)):
                okk = False
            else:
                ks.add(k)
        if os.environ.get("RE_DEBUG"):
            print("  var", name, okk, ks)
        if okk and len(ks) <= 1 and name in pre and pre[name] is not None:
            k = ks.pop() if ks else 0
            c0 = fr.lin(pre[name], {})
            # c = c0 + k * (A - A0)
            inv[ph] = c0 + (Lin.sym('A') - A0).scale(k)
        elif name in pre and pre[name] is not None:
            # a counter that is re-measured rather than advanced: at the end
            # of every continuing iteration it is the length of the buffer,
            # and it was before the loop -- so it is A throughout
            # ... or, more generally, c + k * A for a c made of the length
            # prefix and constants only
            found = None
            for k in (1, -1):
                cs = []
                for q, dA, reqs in per:
                    if q.outcome[0] not in ('fall', 'continue'):
                        continue
                    end = q.env.get(name)
                    if end is None:
                        cs = None
                        break
                    frs = Frame(fr.buf, fr.stream, fr.L, fr.raw)
                    frs.lens.update(fr.lens)
                    frs.chunks.update(fr.chunks)
                    a_end = frs.walk(q.flat(('call',)), Lin.sym('A'), {}, [])
                    c = frs.lin(end, {}) - a_end.scale(k)
                    if any(sym_ != 'L' for sym_, v in c.coef.items() if v):
                        cs = None
                        break
                    cs.append(c)
                if cs and all(c == cs[0] for c in cs) and \
                        fr.lin(pre[name], {}) == cs[0] + A0.scale(k):
                    found = cs[0] + Lin.sym('A').scale(k)
                    break
            if found is not None:
                inv[ph] = found

    if os.environ.get("RE_DEBUG"): print("INV", inv, "phis", phis, "pre", {k: v is not None for k, v in pre.items()})
    # evaluate under the invariant, A symbolic
    def under(form):
        f = form
        for ph, val in inv.items():
            f = f.subst(ph, val)
        return f
    n_reads = 0
    for q, dA, reqs in per:
        # redo the accounting with A symbolic at iteration start
        fr2 = Frame(fr.buf, fr.stream, fr.L, fr.raw)
        fr2.lens.update(fr.lens)
        requests = []
        fr2.walk(q.flat(('call',)), Lin.sym('A'), {}, requests)
        fr.chunks.update(fr2.chunks)
        for ev, size, a in requests:
            n_reads += 1
            want = Lin.sym('L') - a
            got = under(size) if size is not None else None
            if got is None or not (got == want):
                prob('request-size', ev.node, 'inside the reassembly loop '
                     'the stream is asked for %s bytes (= %s under the '
                     'loop invariant) when %s bytes have been appended; '
                     'only the remaining %s may be requested, or bytes of '
                     'the next frame are consumed' % (size, got, a, want))
            # (III) an empty chunk must not let the loop go on
            chunk = ev.res
            nonempty = None
            for a_, pol, _ in q.conds:
                if a_[1] == 'truth' and a_[2][0] == chunk:
                    nonempty = pol
            if q.outcome[0] in ('fall', 'continue') and nonempty is not True:
                prob('eof-progress', ev.node, 'an iteration goes on '
                     'although the chunk read may be empty (decisions: '
                     '[%s]): after the peer closes, every read returns b"" '
                     'and the loop spins forever' % q.cond_text())
            if nonempty is False and q.outcome[0] != 'raise':
                prob('eof-progress', ev.node, 'an empty chunk leaves the '
                     'iteration by %s, not by an error' % q.outcome[0])
            if nonempty is False and dA.coef:
                prob('eof-progress', ev.node, 'an empty chunk is appended '
                     'before the loop is left')
        # (II) the loop condition
        conds = list(q.conds)
        head = None
        for a_, pol, node in conds:
            if a_[1] in ('<', '<='):
                l, r = fr2.lin(a_[2][0], {}), fr2.lin(a_[2][1], {})
                diff = under(r - l)
                head = (a_, pol, diff)
                break
            if a_[1] == 'truth':
                diff = under(fr2.lin(a_[2][0], {}))
                head = (('op', '<', (('const', 0), a_[2][0])), pol, diff)
                break
            break
        if q.outcome[0] == 'break' and len(q.outcome) == 2:
            continue        # the exit by the condition itself
        if head is None:
            prob('reassembly-condition', lp.node, 'the reassembly loop is '
                 'not governed by a comparison of the bytes received with '
                 'the length prefix')
        else:
            a_, pol, diff = head
            want = Lin.sym('L') - Lin.sym('A')
            strict = a_[1] == '<'
            if not (pol and strict and diff == want):
                prob('reassembly-condition', lp.node, 'the reassembly loop '
                     'runs while [%s%s], i.e. while %s %s 0; it must run '
                     'exactly while the bytes appended are fewer than the '
                     'length prefix (L - A > 0)' % (
                         '' if pol else 'not ', show(a_), diff,
                         '>' if strict else '>='))
    for q in leaves:
        prob('reassembly-break', lp.node, 'the reassembly loop is left by '
             '%s before the frame is complete: a partial frame would be '
             'decoded and delivered' % q.outcome[0])
    if not n_reads:
        prob('reassembly-condition', lp.node, 'no stream read in the loop')
    out['facts'].append('loop invariant: %s' % ', '.join(
        '%s = %s' % (ph[1], v) for ph, v in sorted(inv.items(),
                                                   key=repr)) if inv
        else 'requests computed from the buffer length')
