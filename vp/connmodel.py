"""Shared facts about minecraft/networking/connection.py derived from the
source: the connection classes, the write lock (found by what it is
assigned from, not by name), lock regions, must-hold locksets at function
entry, per-function CFG lookups."""
import ast

from .common import AnalysisError, rel
from .srcdb import ClassInfo, FuncInfo, External
from .cfg import cfg_of

CONN = 'minecraft.networking.connection'


class ConnModel(object):
    def __init__(self, db, cg):
        self.db = db
        self.cg = cg
        self.mod = db.modules.get(CONN)
        if self.mod is None:
            raise AnalysisError('anchor module vanished: %s' % CONN)
        self.conn = db.get_class(CONN, 'Connection')
        self.thread = db.get_class(CONN, 'NetworkingThread')
        self.reactor = db.get_class(CONN, 'PacketReactor')
        self.lock_attr = self._find_lock()
        self._parents = {}
        self._held = None

    def method(self, ci, name):
        fi = self.db.own_method(ci, name)
        if fi is None:
            raise AnalysisError('anchor method vanished: %s.%s'
                                % (ci.qualname, name))
        return fi

    def conn_method(self, name):
        return self.method(self.conn, name)

    # -- the write lock -----------------------------------------------------
    def _find_lock(self):
        init = self.method(self.conn, '__init__')
        found = []
        for n in ast.walk(init.node):
            if isinstance(n, ast.Assign) and isinstance(n.value, ast.Call):
                ent = self.db.resolve_dotted(self.mod, n.value.func)
                if isinstance(ent, External) and ent.dotted in (
                        'threading.RLock', 'threading.Lock'):
                    for t in n.targets:
                        if isinstance(t, ast.Attribute) and isinstance(
                                t.value, ast.Name) and t.value.id == 'self':
                            found.append((t.attr, ent.dotted, n))
        if len(found) != 1:
            raise AnalysisError('Connection.__init__: expected exactly one '
                                'lock attribute, found %r'
                                % [f[0] for f in found], init.node,
                                rel(init.path))
        self.lock_kind = found[0][1]
        self.lock_node = found[0][2]
        return found[0][0]

    def is_conn_expr(self, fi, e):
        return any(t[0] == 'inst' and t[1] is self.conn
                   for t in self.cg.etype(fi, e))

    def is_lock_with(self, fi, w):
        for it in w.items:
            e = it.context_expr
            if isinstance(e, ast.Attribute) and e.attr == self.lock_attr \
                    and self.is_conn_expr(fi, e.value):
                return True
        return False

    def lock_withs(self, fi):
        return [n for n in ast.walk(fi.node) if isinstance(n, ast.With)
                and self.is_lock_with(fi, n)]

    def parents(self, fi):
        key = id(fi.node)
        if key not in self._parents:
            par = {}
            for n in ast.walk(fi.node):
                for c in ast.iter_child_nodes(n):
                    par[id(c)] = n
            self._parents[key] = par
        return self._parents[key]

    def cfg_nodes_of(self, fi, node):
        """CFG nodes (all copies) of the statement/test containing `node`."""
        g = cfg_of(fi)
        par = self.parents(fi)
        cur = node
        while cur is not None:
            ns = g.nodes_for(cur)
            if ns:
                return ns
            cur = par.get(id(cur))
        return []

    def node_in_lock(self, fi, cfgnode):
        return any(self.is_lock_with(fi, w) for w in cfgnode.withs)

    def site_in_lock(self, fi, astnode):
        ns = self.cfg_nodes_of(fi, astnode)
        if not ns:
            # inside a lambda / comprehension of a statement: use ancestors
            par = self.parents(fi)
            cur = astnode
            while cur is not None:
                if isinstance(cur, ast.With) and self.is_lock_with(fi, cur):
                    return True
                cur = par.get(id(cur))
            return False
        return all(self.node_in_lock(fi, n) for n in ns)

    # -- must-hold lockset at function entry -----------------------------------
    def is_entry(self, fi):
        if isinstance(fi.node, ast.Lambda):
            return True
        if fi.cls is self.conn and not fi.name.startswith('_'):
            return True
        if fi.name == 'run':
            return True
        return not self.cg.callers_of(fi)

    def held_at_entry(self):
        if self._held is not None:
            return self._held
        funcs = list(self.db.funcs)
        callers = {}
        for f in funcs:
            for cs in self.cg.sites.get(f, []):
                for m, _, _ in cs.callees:
                    callers.setdefault(m, []).append((f, cs))
        held = {f: not self.is_entry(f) for f in funcs}
        for f in funcs:
            if f.outer is not None:
                held[f] = False       # closures may run anywhere
        changed = True
        while changed:
            changed = False
            for f in funcs:
                if not held[f]:
                    continue
                for caller, cs in callers.get(f, []):
                    if not (held[caller] or self.site_in_lock(caller,
                                                              cs.node)):
                        held[f] = False
                        changed = True
                        break
        self._held = held
        self._callers = callers
        return held

    def unlocked_path_to(self, target):
        """A call chain from an entry point to `target` on which the lock is
        not held, as a list of 'caller -> callee @line' strings."""
        held = self.held_at_entry()
        chain = []
        cur = target
        seen = set()
        while cur is not None and cur not in seen:
            seen.add(cur)
            nxt = None
            for caller, cs in self._callers.get(cur, []):
                if not (held[caller] or self.site_in_lock(caller, cs.node)):
                    chain.append('%s calls %s at line %d without the lock'
                                 % (caller.qualname, cur.qualname,
                                    cs.node.lineno))
                    nxt = caller
                    break
            if nxt is None:
                break
            if self.is_entry(nxt):
                break
            cur = nxt
        return chain
