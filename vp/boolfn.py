"""E10 -- propositional guard functions.

A guard is abstracted to a boolean function over its syntactic atoms
(maximal non-boolean sub-expressions, normalised so that `x is not None` and
`x is None` share one atom, likewise `in` / `not in`, `==` / `!=`), and
tabulated over all assignments.  Two guards are the same iff their tables
are equal -- robust to elif vs nested if, De Morgan rewrites and reordered
independent tests."""
import ast
import itertools


def _atom(e):
    """(atom text, polarity)"""
    if isinstance(e, ast.Compare) and len(e.ops) == 1:
        op = e.ops[0]
        l, r = ast.unparse(e.left), ast.unparse(e.comparators[0])
        if isinstance(op, ast.IsNot):
            return '%s is %s' % (l, r), False
        if isinstance(op, ast.Is):
            return '%s is %s' % (l, r), True
        if isinstance(op, ast.NotIn):
            return '%s in %s' % (l, r), False
        if isinstance(op, ast.In):
            return '%s in %s' % (l, r), True
        if isinstance(op, ast.NotEq):
            return '%s == %s' % (l, r), False
        if isinstance(op, ast.Eq):
            return '%s == %s' % (l, r), True
    return ast.unparse(e), True


def atoms(e, acc=None):
    acc = [] if acc is None else acc
    if isinstance(e, ast.BoolOp):
        for v in e.values:
            atoms(v, acc)
    elif isinstance(e, ast.UnaryOp) and isinstance(e.op, ast.Not):
        atoms(e.operand, acc)
    elif isinstance(e, ast.IfExp):
        atoms(e.test, acc)
        atoms(e.body, acc)
        atoms(e.orelse, acc)
    elif isinstance(e, ast.Constant):
        pass
    else:
        a, _ = _atom(e)
        if a not in acc:
            acc.append(a)
    return acc


def evaluate(e, env):
    """Truth of e under an assignment of its atoms (short-circuit does not
    matter for truth values)."""
    if isinstance(e, ast.BoolOp):
        vals = [evaluate(v, env) for v in e.values]
        return all(vals) if isinstance(e.op, ast.And) else any(vals)
    if isinstance(e, ast.UnaryOp) and isinstance(e.op, ast.Not):
        return not evaluate(e.operand, env)
    if isinstance(e, ast.IfExp):
        return evaluate(e.body, env) if evaluate(e.test, env) \
            else evaluate(e.orelse, env)
    if isinstance(e, ast.Constant):
        return bool(e.value)
    a, pol = _atom(e)
    v = env[a]
    return v if pol else not v


def table(e, order=None):
    order = order if order is not None else atoms(e)
    out = {}
    for bits in itertools.product((False, True), repeat=len(order)):
        env = dict(zip(order, bits))
        out[bits] = evaluate(e, env)
    return order, out


def same_function(e1, e2):
    order = sorted(set(atoms(e1)) | set(atoms(e2)))
    if len(order) > 10:
        return False
    _, t1 = table(e1, order)
    _, t2 = table(e2, order)
    return t1 == t2


def conj_satisfiable(conds, fixed=None):
    """conds: list of (expr, wanted truth).  Is there an assignment of the
    atoms, consistent with `fixed` (atom text -> bool), making every cond
    take its wanted truth?  Returns a witness assignment or None."""
    fixed = fixed or {}
    order = []
    for e, _ in conds:
        for a in atoms(e):
            if a not in order:
                order.append(a)
    for a in fixed:
        if a not in order:
            order.append(a)
    if len(order) > 14:
        return {}
    for bits in itertools.product((False, True), repeat=len(order)):
        env = dict(zip(order, bits))
        if any(env[a] != v for a, v in fixed.items()):
            continue
        if all(evaluate(e, env) == w for e, w in conds):
            return env
    return None


def path_conditions(g, node):
    """(test expr, truth) pairs that hold on *every* path from entry to
    `node`: dominating test nodes all of whose paths to `node` leave by the
    same label."""
    out = []
    dom = g.dominators().get(node, set())
    for t in sorted(dom, key=lambda n: n.id):
        if t.kind != 'test' or t is node:
            continue
        labels = set()
        for s, l in t.succ:
            if l not in ('true', 'false'):
                continue
            if s is node:
                labels.add(l)
                continue
            seen = set()
            stack = [s]
            found = False
            while stack:
                x = stack.pop()
                if x is node:
                    found = True
                    break
                if x in seen or x is t:
                    continue
                seen.add(x)
                stack.extend(y for y, _ in x.succ)
            if found:
                labels.add(l)
        if len(labels) == 1:
            out.append((t.ast, labels.pop() == 'true'))
    return out
