"""Rules shared by several properties (each property's checker calls them
under its own rule id)."""
import ast

from .common import AnalysisError, rel
from .cfg import cfg_of
from . import terms

ENC = 'minecraft.networking.encryption'
CONN = 'minecraft.networking.connection'


def is_empty_test(test, var):
    """(matches, empty_when_true) for tests of emptiness of `var`:
    not v / len(v) < 1 / len(v) == 0 / v == b'' / len(v) (non-empty when
    true) / v (non-empty when true)."""
    def is_var(e):
        return isinstance(e, ast.Name) and e.id == var

    def is_len(e):
        return isinstance(e, ast.Call) and isinstance(e.func, ast.Name) and \
            e.func.id == 'len' and len(e.args) == 1 and is_var(e.args[0])
    if isinstance(test, ast.UnaryOp) and isinstance(test.op, ast.Not):
        if is_var(test.operand) or is_len(test.operand):
            return True, True
    if is_var(test) or is_len(test):
        return True, False
    if isinstance(test, ast.Compare) and len(test.ops) == 1:
        l, r, op = test.left, test.comparators[0], test.ops[0]
        if is_len(l) and isinstance(r, ast.Constant):
            if isinstance(op, ast.Lt) and r.value == 1:
                return True, True
            if isinstance(op, ast.Eq) and r.value == 0:
                return True, True
            if isinstance(op, ast.LtE) and r.value == 0:
                return True, True
            if isinstance(op, (ast.Gt, ast.NotEq)) and r.value == 0:
                return True, False
            if isinstance(op, ast.GtE) and r.value == 1:
                return True, False
        if is_var(l) and isinstance(r, ast.Constant) and r.value in (b'', ''):
            if isinstance(op, ast.Eq):
                return True, True
            if isinstance(op, ast.NotEq):
                return True, False
    return False, None


def wrapper_passthrough(report, rid, db):
    """Each cipher-wrapper I/O method is one expression applying exactly one
    `update` of the right direction to exactly one underlying call of the
    same kind, no buffering: an empty read stays empty, segmentation is
    preserved, nothing is held back."""
    want = {
        'EncryptedFileObjectWrapper': {'read': ('decryptor', 'read', 'in')},
        'EncryptedSocketWrapper': {'recv': ('decryptor', 'recv', 'in'),
                                   'send': ('encryptor', 'send', 'out')},
    }
    n = 0
    for cname, meths in sorted(want.items()):
        ci = db.get_class(ENC, cname)
        init = db.own_method(ci, '__init__')
        if init is None:
            raise AnalysisError('%s.__init__ vanished' % cname)
        # field <- constructor parameter map
        fld = {}
        for st in init.body:
            if isinstance(st, ast.Assign) and len(st.targets) == 1 and \
                    isinstance(st.targets[0], ast.Attribute) and \
                    isinstance(st.value, ast.Name):
                fld[st.targets[0].attr] = st.value.id
        for mname, (cipher_param, under_meth, direction) in sorted(
                meths.items()):
            fi = db.own_method(ci, mname)
            if fi is None:
                raise AnalysisError('%s.%s vanished' % (cname, mname))
            n += 1
            try:
                val, effects, _ = terms.straight_line_value(fi)
            except AnalysisError:
                report.violation(rid, 'wrapper:%s.%s' % (cname, mname),
                                 fi.path, fi.node, fi.qualname,
                                 'wrapper method is not a single '
                                 'pass-through expression (buffering or '
                                 'branching)')
                continue
            expr = effects[0] if (effects and isinstance(
                val, ast.Constant) and val.value is None) else val
            if (effects and expr is val) or len(effects) > 1:
                report.violation(rid, 'wrapper:%s.%s' % (cname, mname),
                                 fi.path, fi.node, fi.qualname,
                                 'wrapper method has side effects besides '
                                 'the pass-through')
                continue
            calls = [x for x in ast.walk(expr) if isinstance(x, ast.Call)]
            upd = [c for c in calls if isinstance(c.func, ast.Attribute)
                   and c.func.attr == 'update']
            und = [c for c in calls if isinstance(c.func, ast.Attribute)
                   and c.func.attr in ('read', 'recv', 'send', 'sendall')]
            ok = len(calls) == 2 and len(upd) == 1 and len(und) == 1
            why = 'expected exactly one cipher update around one %s' \
                % under_meth
            if ok:
                u, d = upd[0], und[0]
                cf = u.func.value
                uf = d.func.value
                ok = (isinstance(cf, ast.Attribute) and isinstance(
                    uf, ast.Attribute) and fld.get(cf.attr) == cipher_param
                    and d.func.attr == under_meth)
                why = ('uses %s.update around .%s(); expected the %s '
                       'around .%s()' % (getattr(cf, 'attr', '?'),
                                         d.func.attr, cipher_param,
                                         under_meth))
                if ok and direction == 'in':
                    # update(underlying.read(n)) with the caller's length
                    ok = len(u.args) == 1 and u.args[0] is d and \
                        [ast.unparse(a) for a in d.args] == fi.params[1:]
                    why = 'the underlying %s is not asked for exactly the ' \
                          'caller\'s length, or its result is not passed ' \
                          'straight to update' % under_meth
                elif ok:
                    ok = len(d.args) == 1 and d.args[0] is u and \
                        [ast.unparse(a) for a in u.args] == fi.params[1:]
                    why = 'the ciphertext of exactly the caller\'s data is ' \
                          'not passed straight to the underlying send'
            if ok:
                report.ok(rid, '%s.%s = %s' % (cname, mname,
                                               ast.unparse(expr)))
            else:
                report.violation(rid, 'wrapper:%s.%s' % (cname, mname),
                                 fi.path, fi.node, fi.qualname, why)
    report.floor('cipher wrapper I/O methods', n, 3)


def eof_fallback(report, rid, db, cg):
    """PlayingStatusReactor.handle_exception handles exactly EOFError:
    disconnects immediately, takes the default-version path, returns True;
    every other path returns a false value."""
    ci = db.get_class(CONN, 'PlayingStatusReactor')
    fi = db.own_method(ci, 'handle_exception')
    if fi is None:
        raise AnalysisError('PlayingStatusReactor.handle_exception vanished')
    g = cfg_of(fi)
    tests = [n for n in g.reachable_nodes() if n.kind == 'test']
    exc = fi.all_params[1]
    iso = [n for n in tests if isinstance(n.ast, ast.Call)
           and isinstance(n.ast.func, ast.Name)
           and n.ast.func.id == 'isinstance' and len(n.ast.args) == 2
           and isinstance(n.ast.args[0], ast.Name)
           and n.ast.args[0].id == exc]
    rets_true = [n for n in g.reachable_nodes()
                 if isinstance(n.ast, ast.Return) and n.ast.value is not None
                 and isinstance(n.ast.value, ast.Constant)
                 and n.ast.value.value is True]
    if len(iso) != 1:
        report.violation(rid, 'eof-fallback:guard', fi.path, fi.node,
                         fi.qualname, 'the fallback is not guarded by one '
                         'isinstance(exc, ...) test')
        return
    t = iso[0]
    ty = ast.unparse(t.ast.args[1])
    if ty != 'EOFError':
        report.violation(rid, 'eof-fallback:type', fi.path, t.ast,
                         fi.qualname, 'the default-version fallback is '
                         'taken for %s, not exactly for EOFError (a server '
                         'closing without a status reply)' % ty)
    else:
        report.ok(rid, 'fallback guarded by isinstance(exc, EOFError)')
    for r in rets_true:
        if not g.dominates(t, r) or not any(
                l == 'true' for s, l in t.succ
                if s is r or g.exists_path(s, lambda n: n is r) or s is r):
            report.violation(rid, 'eof-fallback:return', fi.path, r.ast,
                             fi.qualname, '`return True` (exception '
                             'swallowed) is reachable without the EOFError '
                             'guard')
    if not rets_true:
        report.violation(rid, 'eof-fallback:noreturn', fi.path, fi.node,
                         fi.qualname, 'the EOF fallback never reports the '
                         'exception as handled')
    # inside the guarded arm: disconnect(immediate=True) then handle_failure
    order = []
    for n in sorted((x for x in g.reachable_nodes() if x.ast is not None),
                    key=lambda x: x.id):
        for c in n.calls():
            f = c.func
            if isinstance(f, ast.Attribute) and f.attr == 'disconnect':
                imm = any(k.arg == 'immediate' and isinstance(
                    k.value, ast.Constant) and k.value.value is True
                    for k in c.keywords) or (
                        c.args and isinstance(c.args[0], ast.Constant)
                        and c.args[0].value is True)
                order.append(('disconnect', imm, n))
            elif isinstance(f, ast.Attribute) and f.attr in (
                    'handle_failure', 'handle_proto_version'):
                order.append(('fallback', True, n))
    kinds = [k for k, _, _ in order]
    if kinds[:2] == ['disconnect', 'fallback'] and order[0][1] and \
            g.dominates(t, order[0][2]) and g.dominates(order[0][2],
                                                        order[1][2]):
        report.ok(rid, 'EOF arm: disconnect(immediate=True) then '
                  'handle_failure()')
    else:
        report.violation(rid, 'eof-fallback:arm', fi.path, fi.node,
                         fi.qualname, 'the EOF arm must close immediately '
                         'and then reconnect with the default version '
                         '(found %s)' % [(k, i) for k, i, _ in order])


# ---------------------------------------------------------------------------
# reactor arms, name agreement, field completeness (C09, C10, C11)
def reactor_arms(fi):
    """{packet_name literal: (test expr, body statements)} of the if/elif
    chain on `packet.packet_name == "<name>"` in a react method."""
    pk = fi.all_params[1]
    arms = {}

    def visit(stmts):
        for st in stmts:
            if isinstance(st, ast.If):
                t = st.test
                name = None
                if isinstance(t, ast.Compare) and len(t.ops) == 1 and \
                        isinstance(t.ops[0], ast.Eq):
                    l, r = t.left, t.comparators[0]
                    if ast.unparse(l) == '%s.packet_name' % pk and \
                            isinstance(r, ast.Constant):
                        name = r.value
                    elif ast.unparse(r) == '%s.packet_name' % pk and \
                            isinstance(l, ast.Constant):
                        name = l.value
                if name is not None:
                    arms[name] = (st, st.body)
                    visit(st.orelse)
                else:
                    visit(st.body)
                    visit(st.orelse)
    visit(fi.body)
    return arms


def packet_attr_reads(stmts, pk):
    out = set()
    for st in stmts:
        for n in ast.walk(st):
            if isinstance(n, ast.Attribute) and isinstance(n.value, ast.Name) \
                    and n.value.id == pk and isinstance(n.ctx, ast.Load):
                out.add(n.attr)
    return out


def version_truth(P, fi, e, v):
    """Truth of a condition built only from version predicates on the
    context (with not/and/or) under protocol version v; None when it
    involves anything else."""
    from .fold import Env
    if isinstance(e, ast.Call) and isinstance(e.func, ast.Attribute) and \
            e.func.attr.startswith('protocol_'):
        args = [P.F.eval(x, Env(fi.module)) for x in e.args]
        fv = P.F.getattr(P.ctx(v), e.func.attr, e, fi.module)
        return bool(P.F.call(fv, args, {}, e, Env(fi.module)))
    if isinstance(e, ast.UnaryOp) and isinstance(e.op, ast.Not):
        t = version_truth(P, fi, e.operand, v)
        return None if t is None else not t
    if isinstance(e, ast.BoolOp):
        vals = [version_truth(P, fi, x, v) for x in e.values]
        if isinstance(e.op, ast.And):
            if any(x is False for x in vals):
                return False
            return None if any(x is None for x in vals) else True
        if any(x is True for x in vals):
            return True
        return None if any(x is None for x in vals) else False
    return None


def version_conditions(P, fi, g, node):
    """callable v -> bool from the version-only conditions dominating a
    CFG node."""
    from . import boolfn
    conds = boolfn.path_conditions(g, node)

    def holds(v):
        for e, t in conds:
            r = version_truth(P, fi, e, v)
            if r is not None and r != t:
                return False
        return True
    return holds


def version_guard(P, fi, g, M, astnode):
    """callable v -> bool: is the statement holding `astnode` reachable
    under protocol version v, as far as version predicates dominating it
    say."""
    hs = [version_conditions(P, fi, g, n)
          for n in M.cfg_nodes_of(fi, astnode)]

    def holds(v):
        return any(h(v) for h in hs) if hs else True
    return holds


def name_agreement(report, rid, db, P, reactor_ci, state, M=None):
    """Every packet_name a reactor compares with is the packet_name of a
    class in its clientbound table, and every packet attribute the arm reads
    is a field of that class wherever it is registered."""
    from .protocol import Raises
    from .fold import ClassVal, FoldRaise
    fi = db.own_method(reactor_ci, 'react')
    if fi is None:
        raise AnalysisError('%s.react vanished' % reactor_ci.qualname)
    arms = reactor_arms(fi)
    pk = fi.all_params[1]
    names = {}
    for v in P.supported:
        t = P.table('clientbound', state, v)
        if isinstance(t, Raises):
            continue
        for cv in t:
            try:
                nm = P.F.getattr(cv, 'packet_name', cv.ci.node, cv.ci.module)
            except FoldRaise:
                continue
            names.setdefault(nm, {}).setdefault(cv, []).append(v)
    for nm, (st, body) in sorted(arms.items()):
        if nm not in names:
            report.violation(rid, 'arm-name:%s:%s' % (reactor_ci.name, nm),
                             fi.path, st.test, fi.qualname,
                             'the arm for %r can never fire: no class in '
                             'the clientbound %s table has that packet_name'
                             % (nm, state))
            continue
        reads = packet_attr_reads(body, pk) - {'packet_name'}
        guards = {}
        if M is not None:
            from .cfg import cfg_of
            g = cfg_of(fi)
            for s2 in body:
                for x in ast.walk(s2):
                    if isinstance(x, ast.Attribute) and isinstance(
                            x.value, ast.Name) and x.value.id == pk and \
                            isinstance(x.ctx, ast.Load):
                        guards.setdefault(x.attr, []).append(
                            version_guard(P, fi, g, M, x))
        for cv, vs in names[nm].items():
            missing = {}
            for v in vs:
                have = set()
                d = P.definition(cv, v)
                if isinstance(d, list):
                    for e in d:
                        have |= set(e)
                rd, _ = P.custom_codec(cv.ci)
                if rd is not None:
                    for x in ast.walk(rd.node):
                        if isinstance(x, ast.Attribute) and isinstance(
                                x.ctx, ast.Store):
                            have.add(x.attr)
                for a in reads:
                    if a in guards and not any(h(v) for h in guards[a]):
                        continue       # not read under this version
                    if a not in have and db.find_attr(cv.ci, a) is None:
                        missing.setdefault(a, []).append(v)
            if missing:
                for a, mv in missing.items():
                    report.violation(
                        rid, 'arm-field:%s:%s:%s' % (reactor_ci.name, nm, a),
                        fi.path, st.test, fi.qualname,
                        'the %r arm reads packet.%s, which %s does not '
                        'carry in protocol(s) %s...' % (
                            nm, a, cv.ci.qualname, mv[:3]))
            else:
                report.ok(rid, '%s arm %r: %s are fields of %s in %d '
                          'versions' % (reactor_ci.name, nm, sorted(reads),
                                        cv.ci.qualname, len(vs)))
    return arms


def constructed_packets(db, cg, P, fi):
    """Locals of fi bound to `SomePacket(...)` -> (ClassInfo, kwargs set,
    Assign node)."""
    out = {}
    for n in cg.shallow(fi):
        if isinstance(n, ast.Assign) and len(n.targets) == 1 and \
                isinstance(n.targets[0], ast.Name) and \
                isinstance(n.value, ast.Call):
            ent = db.resolve_dotted(fi.module, n.value.func)
            ent = db.deref(ent) if isinstance(ent, tuple) else ent
            if hasattr(ent, 'attrs') and db.is_subclass(ent, P.packet_ci):
                out[n.targets[0].id] = (ent, set(
                    k.arg for k in n.value.keywords if k.arg), n)
    return out


def field_completeness(report, rid, db, cg, P, M, fi):
    """Every packet object constructed in fi and handed to write_packet has
    all fields of its class's definition assigned, in every version in
    which that write is reachable."""
    from .cfg import cfg_of
    from .fold import ClassVal, FoldRaise, Env
    from . import boolfn
    g = cfg_of(fi)
    built = constructed_packets(db, cg, P, fi)
    n = 0
    for node in g.reachable_nodes():
        if node.ast is None:
            continue
        for c in node.calls():
            if not (isinstance(c.func, ast.Attribute) and
                    c.func.attr == 'write_packet' and c.args):
                continue
            a = c.args[0]
            ci = None
            assigned = set()
            if isinstance(a, ast.Name) and a.id in built:
                ci, kw, asn = built[a.id]
                assigned |= kw
                stores = {}
                for x in cg.shallow(fi):
                    if isinstance(x, ast.Attribute) and isinstance(
                            x.ctx, ast.Store) and isinstance(
                                x.value, ast.Name) and x.value.id == a.id:
                        stores.setdefault(x.attr, []).extend(
                            M.cfg_nodes_of(fi, x))
                ctor = M.cfg_nodes_of(fi, asn)
                for attr, sn in stores.items():
                    # set on every path from the construction to the write
                    if ctor and all(g.exists_path(
                            c0, lambda q: q is node,
                            avoid=lambda q: q in sn) is None for c0 in ctor):
                        assigned.add(attr)
            elif isinstance(a, ast.Call):
                ent = db.resolve_dotted(fi.module, a.func)
                ent = db.deref(ent) if isinstance(ent, tuple) else ent
                if hasattr(ent, 'attrs') and db.is_subclass(ent,
                                                            P.packet_ci):
                    ci = ent
                    assigned |= set(k.arg for k in a.keywords if k.arg)
            if ci is None:
                continue
            n += 1
            cv = ClassVal(ci)
            vholds = version_conditions(P, fi, g, node)
            missing = {}
            nv = 0
            for v in P.supported:
                if not vholds(v):
                    continue
                nv += 1
                _, wr = P.custom_codec(ci)
                need = set()
                if wr is None:
                    d = P.definition(cv, v)
                    if isinstance(d, list):
                        for e in d:
                            need |= set(e)
                else:
                    for st in wr.body:
                        if isinstance(st, ast.Expr):
                            for x in ast.walk(st):
                                if isinstance(x, ast.Attribute) and \
                                        isinstance(x.value, ast.Name) and \
                                        x.value.id == wr.all_params[0] and \
                                        x.attr != 'context':
                                    need.add(x.attr)
                for f in need:
                    if f in assigned or db.find_attr(ci, f) is not None:
                        continue
                    missing.setdefault(f, []).append(v)
            if missing:
                for f, vs in sorted(missing.items()):
                    report.violation(
                        rid, 'unset-field:%s:%s:%s' % (fi.qualname,
                                                       ci.qualname, f),
                        fi.path, c, fi.qualname,
                        '%s is written without its field %r being set '
                        '(needed in %d version(s), first %s): '
                        'AttributeError at write time' % (
                            ci.qualname, f, len(vs), P.vname(vs[0])))
            else:
                report.ok(rid, '%s: %s complete in %d version(s)' % (
                    fi.qualname, ci.qualname, nv))
    return n


# ---------------------------------------------------------------------------
def received_length_exprs(fi, buf):
    """Texts of expressions that denote "number of bytes of this frame
    received so far": `len(<buf>.get_writable())`, and any counter local c
    with the invariant  c == len(buffer contents):  every assignment to c is
    `c = len(d)` / `c = 0` with the buffer empty or freshly sent d, or
    `c += len(d)` in a block that also does `<buf>.send(d)` exactly once, and
    every `<buf>.send(d)` inside a loop is matched by such an increment."""
    ok = {'len(%s.get_writable())' % buf}
    sends = []          # (block id, arg text)
    assigns = {}        # name -> [(kind, arg text, block id)]

    def visit(stmts, in_loop):
        bid = id(stmts)
        for st in stmts:
            if isinstance(st, ast.Expr) and isinstance(st.value, ast.Call) \
                    and ast.unparse(st.value.func) == '%s.send' % buf and \
                    len(st.value.args) == 1:
                sends.append((bid, ast.unparse(st.value.args[0]), in_loop))
            elif isinstance(st, ast.Assign) and len(st.targets) == 1 and \
                    isinstance(st.targets[0], ast.Name):
                v = st.value
                if isinstance(v, ast.Call) and ast.unparse(v.func) == 'len' \
                        and len(v.args) == 1:
                    assigns.setdefault(st.targets[0].id, []).append(
                        ('set', ast.unparse(v.args[0]), bid, in_loop))
                elif isinstance(v, ast.Constant) and v.value == 0:
                    assigns.setdefault(st.targets[0].id, []).append(
                        ('zero', None, bid, in_loop))
                else:
                    assigns.setdefault(st.targets[0].id, []).append(
                        ('other', None, bid, in_loop))
            elif isinstance(st, ast.AugAssign) and isinstance(
                    st.target, ast.Name):
                v = st.value
                if isinstance(st.op, ast.Add) and isinstance(v, ast.Call) \
                        and ast.unparse(v.func) == 'len' and len(v.args) == 1:
                    assigns.setdefault(st.target.id, []).append(
                        ('inc', ast.unparse(v.args[0]), bid, in_loop))
                else:
                    assigns.setdefault(st.target.id, []).append(
                        ('other', None, bid, in_loop))
            for fld in ('body', 'orelse', 'finalbody'):
                sub = getattr(st, fld, None)
                if isinstance(sub, list) and sub and isinstance(sub[0],
                                                                ast.stmt):
                    visit(sub, in_loop or isinstance(st, (ast.While,
                                                          ast.For)))
            if isinstance(st, ast.Try):
                for h in st.handlers:
                    visit(h.body, in_loop)
    visit(fi.body, False)
    for name, lst in assigns.items():
        good = True
        incs = [a for a in lst if a[0] == 'inc']
        if any(a[0] == 'other' for a in lst) or not incs:
            continue
        for kind, arg, bid, in_loop in lst:
            if kind == 'inc':
                if sum(1 for b, a, _ in sends if b == bid and a == arg) != 1:
                    good = False
            elif kind == 'set':
                if in_loop or sum(1 for b, a, _ in sends
                                  if b == bid and a == arg) != 1:
                    good = False
            elif kind == 'zero' and in_loop:
                good = False
        # every send inside a loop is counted
        for b, a, in_loop in sends:
            if in_loop and not any(k == 'inc' and ar == a and bb == b
                                   for k, ar, bb, _ in lst):
                good = False
        if good:
            ok.add(name)
    return ok


# ---------------------------------------------------------------------------
# form-independent reading of values
def local_defs(fi):
    """name -> list of value expressions assigned to the bare local `name`
    anywhere in fi (tuple targets give Subscript projections of the value
    when it is not a literal tuple)."""
    import copy as _copy
    out = {}
    body = fi.node.body if not isinstance(fi.node, ast.Lambda) else []
    for n in (x for s in body for x in ast.walk(s)):
        if isinstance(n, ast.Assign):
            for t in n.targets:
                if isinstance(t, ast.Name):
                    out.setdefault(t.id, []).append(n.value)
                elif isinstance(t, (ast.Tuple, ast.List)):
                    for i, e in enumerate(t.elts):
                        if isinstance(e, ast.Name):
                            if isinstance(n.value, (ast.Tuple, ast.List)) \
                                    and len(n.value.elts) == len(t.elts):
                                out.setdefault(e.id, []).append(
                                    n.value.elts[i])
                            else:
                                out.setdefault(e.id, []).append(
                                    ast.Subscript(
                                        value=_copy.deepcopy(n.value),
                                        slice=ast.Constant(value=i),
                                        ctx=ast.Load()))
        elif isinstance(n, (ast.AugAssign, ast.AnnAssign)) and isinstance(
                n.target, ast.Name):
            out.setdefault(n.target.id, []).extend([None, None])
        elif isinstance(n, (ast.For, ast.comprehension)):
            for x in ast.walk(n.target):
                if isinstance(x, ast.Name):
                    out.setdefault(x.id, []).extend([None, None])
        elif isinstance(n, ast.With):
            for i in n.items:
                if i.optional_vars is not None:
                    for x in ast.walk(i.optional_vars):
                        if isinstance(x, ast.Name):
                            out.setdefault(x.id, []).extend([None, None])
        elif isinstance(n, ast.ExceptHandler) and n.name:
            out.setdefault(n.name, []).extend([None, None])
    for p in fi.params:
        out.setdefault(p, []).extend([None, None])
    return out


def expand_locals(fi, expr, depth=6, _defs=None):
    """Copy of `expr` in which every local of fi that has exactly one
    definition is replaced by the defining expression (recursively): the
    *provenance* of the value, independent of how many temporaries the
    source threads it through.  Not for rules about freshness of a read."""
    import copy as _copy
    defs = _defs if _defs is not None else local_defs(fi)

    class T(ast.NodeTransformer):
        def __init__(self, d):
            self.d = d

        def visit_Name(self, n):
            if isinstance(n.ctx, ast.Load) and self.d > 0:
                vs = defs.get(n.id)
                if vs and len(vs) == 1 and vs[0] is not None:
                    return T(self.d - 1).visit(_copy.deepcopy(vs[0]))
            return n
    return T(depth).visit(_copy.deepcopy(expr))


def expanded_text(fi, expr):
    return ast.unparse(expand_locals(fi, expr))


def call_args(db, module, call, cls_scope=None):
    """Parameter name -> argument expression for a call to an in-repo
    function or class (constructor), positional or keyword; None when the
    callee does not resolve."""
    from . import terms
    from .srcdb import ClassInfo, FuncInfo
    try:
        ent = db.resolve_dotted(module, call.func, class_scope=cls_scope)
    except AnalysisError:
        return None
    ent = db.deref(ent) if isinstance(ent, tuple) else ent
    if isinstance(ent, ClassInfo):
        init = db.find_method(ent, '__init__')
        if init is None:
            return None
        return terms.map_args(init, call, skip_first=True)
    if isinstance(ent, FuncInfo):
        return terms.map_args(ent, call, skip_first=ent.kind in (
            'instance', 'class'))
    return None


# ---------------------------------------------------------------------------
# path-summary based utilities for the connection logic (C09, C10, C11, ...)
CTX_MOD = 'minecraft.networking.connection'


def summariser(db, cg, inline=(), opaque=(), **kw):
    """PathSum with the package's conventions: helpers that are not units of
    the confirmed tree are inlined, Packet.set_values too (so keyword
    construction and attribute assignment of packet fields look the same),
    and the version predicates of ConnectionContext are pure."""
    from . import pathsum
    pk = db.get_class('minecraft.networking.packets.packet', 'Packet')
    sv = db.own_method(pk, 'set_values')
    ctx = db.get_class(CTX_MOD, 'ConnectionContext')
    pure = [f for f in db.funcs if f.cls is ctx
            and f.name.startswith('protocol_')]
    inl = set(inline)
    if sv is not None:
        inl.add(sv)
    S = pathsum.PathSum(db, cg, inline=inl, opaque=opaque,
                        inline_pred=pathsum.known_unit_pred(), **kw)
    S.pure = set(pure)
    return S


def version_atom(a):
    """(predicate name, constant args) when the atom is the truth of a
    ConnectionContext.protocol_* call with constant arguments."""
    if a[1] in ('<', '<=', '>', '>=', '==', '!=') and len(a[2]) == 2:
        # the context's protocol number compared with a literal: decidable
        # per version (whether such a guard *should* be numeric is R08.6)
        l, r = a[2]
        for x, y, flip in ((l, r, False), (r, l, True)):
            if x[0] == 'attr' and x[2] == 'protocol_version' and \
                    x[1][0] == 'attr' and x[1][2] == 'context' and \
                    y[0] == 'const' and isinstance(y[1], int) and \
                    not isinstance(y[1], bool):
                return ('#cmp', a[1], flip), (y[1],)
        return None
    if a[1] != 'truth':
        return None
    t = a[2][0]
    if t[0] != 'call':
        return None
    fn = t[1]
    name = None
    if fn[0] == 'fn':
        name = fn[1].name
    elif fn[0] == 'attr':
        name = fn[2]
    if not name or not name.startswith('protocol_'):
        return None
    args = []
    for x in t[2]:
        if x[0] != 'const':
            return None
        args.append(x[1])
    return name, tuple(args)


def path_versions(P, path, upto=None):
    """callable v -> bool: do the version decisions of the path (up to an
    event) hold under protocol version v?"""
    from .fold import Env
    conds = path.conds if upto is None else path.conds[:upto]
    tests = []
    for a, pol, _ in conds:
        va = version_atom(a)
        if va is not None:
            tests.append((va, pol))

    def holds(v):
        for (name, args), pol in tests:
            if isinstance(name, tuple) and name[0] == '#cmp':
                import operator as _o
                f = {'<': _o.lt, '<=': _o.le, '>': _o.gt, '>=': _o.ge,
                     '==': _o.eq, '!=': _o.ne}[name[1]]
                r = f(args[0], v) if name[2] else f(v, args[0])
                if bool(r) != pol:
                    return False
                continue
            fv = P.F.getattr(P.ctx(v), name, None, P.packet_ci.module)
            r = bool(P.F.call(fv, list(args), {}, None,
                              Env(P.packet_ci.module)))
            if r != pol:
                return False
        return True
    return holds


def arm_of(path, pk):
    """The packet_name literal the path's decisions select (`==` true), or
    None when every comparison on the path is false / absent."""
    from .pathsum import struct
    name = ('attr', pk, 'packet_name')
    for a, pol, _ in path.conds:
        if a[1] == '==' and pol:
            x, y = a[2]
            if struct(x) == name and y[0] == 'const':
                return y[1]
            if struct(y) == name and x[0] == 'const':
                return x[1]
    return None


def compared_names(paths, pk):
    from .pathsum import struct
    name = ('attr', pk, 'packet_name')
    out = {}
    for p in paths:
        for a, pol, node in p.conds:
            if a[1] == '==':
                x, y = a[2]
                if struct(x) == name and y[0] == 'const':
                    out.setdefault(y[1], node)
                elif struct(y) == name and x[0] == 'const':
                    out.setdefault(x[1], node)
    return out


def packet_reads(path, pk):
    """attribute names of the packet parameter the path reads"""
    from .pathsum import path_terms
    out = set()
    for t in path_terms(path):
        if t[0] == 'attr' and t[1] == pk:
            out.add(t[2])
    return out


def name_agreement_ps(report, rid, db, P, S, reactor_ci, state):
    """Every packet_name a reactor compares with is the packet_name of a
    class in its clientbound table, and every packet attribute a path of
    that arm reads is a field of that class in every version in which the
    path's version decisions hold."""
    from .protocol import Raises
    from .fold import FoldRaise
    fi = db.own_method(reactor_ci, 'react')
    if fi is None:
        raise AnalysisError('%s.react vanished' % reactor_ci.qualname)
    pk = ('sym', fi.all_params[1])
    paths = S.run(fi)
    names = {}
    for v in P.supported:
        t = P.table('clientbound', state, v)
        if isinstance(t, Raises):
            continue
        for cv in t:
            try:
                nm = P.F.getattr(cv, 'packet_name', cv.ci.node, cv.ci.module)
            except FoldRaise:
                continue
            names.setdefault(nm, {}).setdefault(cv, []).append(v)
    cmp_names = compared_names(paths, pk)
    for nm, node in sorted(cmp_names.items()):
        if nm not in names:
            report.violation(rid, 'arm-name:%s:%s' % (reactor_ci.name, nm),
                             fi.path, node, fi.qualname,
                             'the arm for %r can never fire: no class in '
                             'the clientbound %s table has that packet_name'
                             % (nm, state))
            continue
        arm_paths = [p for p in paths if arm_of(p, pk) == nm]
        allreads = set()
        missing = {}
        for cv, vs in names[nm].items():
            have_cache = {}
            for p in arm_paths:
                reads = packet_reads(p, pk) - {'packet_name'}
                allreads |= reads
                holds = path_versions(P, p)
                for v in vs:
                    if not holds(v):
                        continue
                    if v not in have_cache:
                        have = set()
                        d = P.definition(cv, v)
                        if isinstance(d, list):
                            for e in d:
                                have |= set(e)
                        rd, _ = P.custom_codec(cv.ci)
                        if rd is not None:
                            for x in ast.walk(rd.node):
                                if isinstance(x, ast.Attribute) and \
                                        isinstance(x.ctx, ast.Store):
                                    have.add(x.attr)
                        have_cache[v] = have
                    for a in reads:
                        if a not in have_cache[v] and db.find_attr(
                                cv.ci, a) is None:
                            missing.setdefault((cv, a), []).append(v)
        if missing:
            for (cv, a), mv in sorted(missing.items(),
                                      key=lambda kv: (kv[0][0].ci.qualname,
                                                      kv[0][1])):
                report.violation(
                    rid, 'arm-field:%s:%s:%s' % (reactor_ci.name, nm, a),
                    fi.path, node, fi.qualname,
                    'the %r arm reads packet.%s, which %s does not '
                    'carry in protocol(s) %s...' % (
                        nm, a, cv.ci.qualname, sorted(set(mv))[:3]))
        else:
            report.ok(rid, '%s arm %r: %s are fields of %s' % (
                reactor_ci.name, nm, sorted(allreads), sorted(
                    cv.ci.qualname for cv in names[nm])))
    return paths


def written_packets(path, P, db):
    """(event, packet object term, fields stored on it before the write)
    for every write_packet call of the path whose argument is a packet
    object built on the path."""
    out = []
    evs = path.flat()
    for i, e in enumerate(evs):
        if e.kind != 'call' or e.method() != 'write_packet':
            continue
        pos = [a for a in e.args if a[0] == 'obj']
        if not pos:
            continue
        o = pos[0]
        if o[3] is None or not db.is_subclass(o[3], P.packet_ci):
            continue
        fields = {}
        for x in evs[:i]:
            if x.kind == 'store' and x.base == o and isinstance(x.attr, str):
                fields[x.attr] = x.value
        out.append((e, o, fields))
    return out


def needed_fields(P, db, ci, v, S=None, obj=None, fields=None):
    from .fold import ClassVal
    cv = ClassVal(ci)
    _, wr = P.custom_codec(ci)
    need = set()
    if wr is not None and S is not None and obj is not None:
        # a hand-written writer: the attributes of the packet it reads on
        # the paths that the fields already known (constants) and the
        # version allow
        from .pathsum import path_terms
        heap = {(obj, k): val for k, val in (fields or {}).items()}
        holds_cache = {}
        try:
            paths = S.run(wr, self_term=obj, heap=heap)
        except AnalysisError:
            paths = None
        if paths is not None:
            for p in paths:
                key = id(p)
                if not path_versions(P, p)(v):
                    continue
                for t in path_terms(p):
                    if t[0] == 'attr' and t[1] == obj and \
                            t[2] != 'context' and db.find_attr(
                                ci, t[2]) is None:
                        need.add(t[2])
            return need
    if wr is None:
        d = P.definition(cv, v)
        if isinstance(d, list):
            for e in d:
                need |= set(e)
    else:
        for st in wr.body:
            if isinstance(st, ast.Expr):
                for x in ast.walk(st):
                    if isinstance(x, ast.Attribute) and isinstance(
                            x.value, ast.Name) and \
                            x.value.id == wr.all_params[0] and \
                            x.attr != 'context':
                        need.add(x.attr)
    return need


def field_completeness_ps(report, rid, db, P, S, fi, paths=None):
    """Every packet object built on a path of fi and handed to write_packet
    has all fields of its class's definition stored, in every version in
    which the path's version decisions hold."""
    paths = paths if paths is not None else S.run(fi)
    per = {}
    for p in paths:
        for e, o, fields in written_packets(p, P, db):
            ci = o[3]
            holds = path_versions(P, p, e.nconds)
            rec = per.setdefault((id(e.node), ci), dict(
                node=e.node, ci=ci, missing={}, nv=set()))
            for v in P.supported:
                if not holds(v):
                    continue
                rec['nv'].add(v)
                for f in needed_fields(P, db, ci, v, S, o, fields):
                    if f in fields or db.find_attr(ci, f) is not None:
                        continue
                    rec['missing'].setdefault(f, set()).add(v)
    for key, rec in sorted(per.items(), key=lambda kv: kv[1]['node'].lineno):
        ci = rec['ci']
        if rec['missing']:
            for f, vs in sorted(rec['missing'].items()):
                vs = sorted(vs, key=lambda v: P.index.get(v, 0))
                report.violation(
                    rid, 'unset-field:%s:%s:%s' % (fi.qualname, ci.qualname,
                                                   f),
                    fi.path, rec['node'], fi.qualname,
                    '%s is written without its field %r being set (needed '
                    'in %d version(s), first %s): AttributeError at write '
                    'time' % (ci.qualname, f, len(vs), P.vname(vs[0])))
        else:
            report.ok(rid, '%s: %s complete in %d version(s)' % (
                fi.qualname, ci.qualname, len(rec['nv'])))
    return len(per)


def eof_fallback_ps(report, rid, db, S, others_too=True):
    """PlayingStatusReactor.handle_exception handles exactly EOFError:
    disconnects immediately, then takes the default-version path, and
    reports the exception as handled; every other path reports it as not
    handled and does nothing."""
    from .pathsum import struct, show
    ci = db.get_class(CTX_MOD, 'PlayingStatusReactor')
    conn = db.get_class(CTX_MOD, 'Connection')
    fi = db.own_method(ci, 'handle_exception')
    if fi is None:
        raise AnalysisError('PlayingStatusReactor.handle_exception vanished')
    disconnect = db.own_method(conn, 'disconnect')
    exc = ('sym', fi.all_params[1])
    handled = 0
    for p in S.run(fi, exact_self=ci):
        tests = [(a, pol) for a, pol, _ in p.conds if a[1] == 'isinstance'
                 and struct(a[2][0]) == exc]
        v = p.value
        truthy = p.returns and not (v[0] == 'const' and not v[1])
        evs = p.flat(('call', 'store'))
        if truthy or evs:
            if len(tests) != 1 or not tests[0][1]:
                report.violation(rid, 'eof-fallback:guard', fi.path, fi.node,
                                 fi.qualname, 'the fallback runs / reports '
                                 '"handled" on a path that is not guarded by '
                                 'one isinstance(exc, ...) test [%s]'
                                 % p.cond_text())
                continue
            ty = tests[0][0][2][1]
            if ty != ('builtin', 'EOFError'):
                report.violation(rid, 'eof-fallback:type', fi.path, fi.node,
                                 fi.qualname, 'the default-version fallback '
                                 'is taken for %s, not exactly for EOFError '
                                 '(a server closing without a status reply)'
                                 % show(ty))
                continue
            handled += 1
            if not (truthy and v == ('const', True)):
                report.violation(rid, 'eof-fallback:noreturn', fi.path,
                                 fi.node, fi.qualname, 'the EOF fallback '
                                 'does not report the exception as handled')
            kinds = []
            for e in evs:
                if e.kind == 'call' and e.calls(disconnect):
                    kw = dict(e.kwargs)
                    pos = [a for a in e.args if a[0] == 'const']
                    imm = kw.get('immediate', pos[0] if pos else None)
                    kinds.append(('disconnect', imm == ('const', True)))
                elif e.kind == 'call' and e.method() in (
                        'handle_failure', 'handle_proto_version'):
                    kinds.append(('fallback', True))
            if kinds[:2] == [('disconnect', True), ('fallback', True)]:
                report.ok(rid, 'EOF arm: disconnect(immediate=True) then '
                          'handle_failure(); handled')
            else:
                report.violation(rid, 'eof-fallback:arm', fi.path, fi.node,
                                 fi.qualname, 'the EOF arm must close '
                                 'immediately and then reconnect with the '
                                 'default version (found %s)' % kinds)
    if not handled and not report.violations:
        report.violation(rid, 'eof-fallback:noreturn', fi.path, fi.node,
                         fi.qualname, 'the EOF fallback never reports the '
                         'exception as handled')
    # no other reactor claims an exception: a true result makes the
    # dispatcher return at once -- no handler runs, nothing is recorded, the
    # thread just ends
    if not others_too:
        return
    base = db.get_class(CTX_MOD, 'PacketReactor')
    others = 0
    for rc in [base] + sorted(db.subclasses(base), key=lambda c: c.fq):
        if rc is ci:
            continue
        hf = db.find_method(rc, 'handle_exception')
        if hf is None:
            continue
        others += 1
        for p in S.run(hf, exact_self=rc):
            if not p.returns:
                continue
            v = p.value
            if v[0] == 'const' and not v[1]:
                continue
            report.violation(
                rid, 'eof-fallback:claimed:%s' % rc.qualname, hf.path,
                hf.node, hf.qualname, '%s.handle_exception can report an '
                'exception as handled [%s]: the dispatcher then returns '
                'without running any handler or recording the exception, '
                'so the networking thread ends silently -- only the '
                'status probe of connect() may do that, for EOFError, by '
                'falling back to the default version'
                % (rc.qualname, p.cond_text()))
            break
    if others < 1:
        raise AnalysisError('PacketReactor.handle_exception vanished')
    report.ok(rid, '%d other reactor handler(s) never claim an exception'
              % others)


# -- sequences and mappings built from one iteration ------------------------
# However a table is spelt -- a dict comprehension, dict() of pairs, dict(zip
# (keys, values)), a loop filling an empty dict -- it is "for el in D:
# table[key(el)] = val(el)"; these helpers read D, key and val off the term.

def _strip_seq(t):
    """tuple(x) / list(x) / iter(x) iterate like x."""
    while t[0] == 'op' and t[1] in ('tuple', 'list', 'iter') and \
            len(t[2]) == 1:
        t = t[2][0]
    return t


def seq_form(t):
    """(domain, el, value, filtered): the sequence is [value for el in
    domain]; el is None for the domain itself."""
    from .pathsum import struct
    t = _strip_seq(t)
    if t[0] == 'op' and t[1] in ('genexp', 'listcomp') and \
            len(t[2][0][1]) == 1 and len(t[2][1][1]) == 1 and \
            len(t[2][1][1][0][1]) == 1:
        it = t[2][0][1][0]
        val = t[2][1][1][0][1][0]
        filtered = bool(t[2][2][1])
        el = None
        from .pathsum import subterms
        for x in subterms(val):
            if x[0] == 'elem' and struct(x[1]) == struct(it):
                el = x
                break
        if val[0] == 'elem' and struct(val[1]) == struct(it):
            el = val
        inner = seq_form(it)
        if inner[1] is None:
            return (inner[0], el, val, filtered or inner[3])
        return (it, el, val, filtered)
    if t[0] == 'op' and t[1] == 'map' and len(t[2]) == 2:
        inner = seq_form(t[2][1])
        if inner[1] is None:
            el = ('elem', inner[0], 0)
            return (inner[0], el, ('call', t[2][0], (el,), (), 0),
                    inner[3])
    return (t, None, None, False)


def mapping_form(v, path=None):
    """(domain, el, key, val) of a mapping-valued term, or None."""
    from .pathsum import struct, replace
    if v[0] == 'op' and v[1] == 'dictcomp' and len(v[2][0][1]) == 1 and \
            len(v[2][1][1]) == 1 and not v[2][2][1]:
        it = v[2][0][1][0]
        key, val = v[2][1][1][0][1]
        el = next((x for x in (val, key) if x[0] == 'elem'), None)
        dom = seq_form(it)
        return (dom[0] if dom[1] is None else it, el, key, val)
    if v[0] == 'op' and v[1] in ('dict', 'OrderedDict') and len(v[2]) == 1:
        a = _strip_seq(v[2][0])
        if a[0] == 'op' and a[1] == 'zip' and len(a[2]) == 2:
            k, w = seq_form(a[2][0]), seq_form(a[2][1])
            if k[3] or w[3] or struct(k[0]) != struct(w[0]):
                return None
            el = k[1] or w[1] or ('elem', k[0], 0)
            key = el if k[1] is None else replace(k[2], k[1], el)
            val = el if w[1] is None else replace(w[2], w[1], el)
            return (k[0], el, key, val)
        s = seq_form(a)
        if s[1] is not None and not s[3] and s[2][0] == 'tuple' and \
                len(s[2][1]) == 2:
            return (s[0], s[1], s[2][1][0], s[2][1][1])
        return None
    if v[0] == 'phi' and path is not None:
        for lp in [e for e in path.events if e.kind == 'loop']:
            pre = (lp.pre or {}).get(v[1])
            if pre != ('dict', ()):
                continue
            ph = (lp.phis or {}).get(v[1])
            for q in lp.paths:
                sets = [e for e in q.flat(('setitem',)) if e.base == ph]
                others = [e for e in q.flat(('setitem', 'delitem', 'call'))
                          if e not in sets and any(
                              t == ph for t in [e.base] + list(
                                  e.args or ()) if t is not None)]
                if len(sets) == 1 and not others and \
                        q.outcome[0] in ('fall', 'continue') and \
                        len(lp.paths) == 1:
                    dom = seq_form(lp.ctx)
                    el = next((x for x in (sets[0].value, sets[0].key)
                               if x[0] == 'elem'), None)
                    return (dom[0] if dom[1] is None else lp.ctx, el,
                            sets[0].key, sets[0].value)
    return None


def wrapper_passthrough_ps(report, rid, db, S=None):
    """The cipher wrappers' I/O methods, read off their path summaries: on
    the single path, exactly one cipher `update` of the right direction and
    exactly one call of the wrapped endpoint, no other effect; inbound, the
    endpoint is asked for the caller's length and its result goes straight
    into update, whose result is returned; outbound, update of the caller's
    data goes straight into the endpoint's send.  No buffering: an empty read
    stays empty, nothing is held back."""
    from .pathsum import struct, show, sym
    if S is None:
        from .callgraph import CallGraph
        S = summariser(db, CallGraph(db), implicit_raises=False)
    want = {
        'EncryptedFileObjectWrapper': {'read': ('decryptor', 'read', 'in')},
        'EncryptedSocketWrapper': {'recv': ('decryptor', 'recv', 'in'),
                                   'send': ('encryptor', 'send', 'out')},
    }
    n = 0
    for cname, meths in sorted(want.items()):
        ci = db.get_class(ENC, cname)
        init = db.find_method(ci, '__init__')
        if init is None or init.cls is None:
            raise AnalysisError('%s.__init__ vanished' % cname)
        me = ('obj', 0, ci.qualname, ci)
        ips = [p for p in S.run(init, self_term=me) if not p.raises]
        if len(ips) != 1:
            raise AnalysisError('%s.__init__: expected one path, found %d'
                                % (cname, len(ips)), init.node,
                                rel(init.path))
        heap = dict(ips[0].heap)
        params = {struct(sym(x)): x for x in init.params[1:]}
        fld = {}        # field -> constructor parameter
        for (b, a), v in heap.items():
            if struct(b) == struct(me) and struct(v) in params:
                fld[a] = params[struct(v)]
        endpoint = init.all_params[1] if len(init.params) > 1 else None
        for mname, (cipher_param, under_meth, direction) in sorted(
                meths.items()):
            fi = db.find_method(ci, mname)
            if fi is None:
                raise AnalysisError('%s.%s vanished' % (cname, mname))
            n += 1
            item = 'wrapper:%s.%s' % (cname, mname)

            def bad(why, fi=fi, item=item):
                report.violation(rid, item, fi.path, fi.node, fi.qualname,
                                 why)
            paths = S.run(fi, self_term=me, heap=heap)
            live = [p for p in paths if not p.raises]
            if len(paths) != 1 or len(live) != 1:
                bad('wrapper method is not a single pass-through (%d paths:'
                    ' buffering or branching)' % len(paths))
                continue
            p = live[0]
            evs = p.flat(('call', 'store', 'setitem', 'delitem', 'loop'))
            calls = [e for e in evs if e.kind == 'call']

            def field_of(e):
                f = e.fn
                if f[0] == 'attr' and struct(f[1]) in params:
                    return params[struct(f[1])], f[2]
                if f[0] == 'fn' and len(f) > 2 and f[2] is not None and \
                        struct(f[2]) in params:
                    return params[struct(f[2])], f[1].name
                return None, None
            upd = [e for e in calls if field_of(e)[1] == 'update']
            und = [e for e in calls if field_of(e)[0] == endpoint]
            if len(evs) != 2 or len(upd) != 1 or len(und) != 1:
                bad('expected exactly one cipher update around one %s and '
                    'no other effect; found %s' % (under_meth, [
                        repr(e)[:60] for e in evs]))
                continue
            u, d = upd[0], und[0]
            if field_of(u)[0] != cipher_param or field_of(d)[1] != \
                    under_meth:
                bad('uses %s.update around .%s(); expected the %s around '
                    '.%s()' % (field_of(u)[0], field_of(d)[1], cipher_param,
                               under_meth))
                continue
            caller = [struct(sym(x)) for x in fi.params[1:]]
            if direction == 'in':
                ok = [struct(a) for a in d.args] == caller and not d.kwargs \
                    and len(u.args) == 1 and u.args[0] == d.res and \
                    not u.kwargs and p.returns and p.value == u.res and \
                    evs.index(d) < evs.index(u)
                why = 'the underlying %s is not asked for exactly the ' \
                      'caller\'s length, or its result is not passed ' \
                      'straight to update and returned' % under_meth
            else:
                ok = [struct(a) for a in u.args] == caller and not u.kwargs \
                    and len(d.args) == 1 and d.args[0] == u.res and \
                    not d.kwargs and evs.index(u) < evs.index(d)
                why = 'the ciphertext of exactly the caller\'s data is ' \
                      'not passed straight to the underlying send'
            if ok:
                report.ok(rid, '%s.%s: %s' % (cname, mname, ' ; '.join(
                    repr(e) for e in evs)))
            else:
                bad(why)
    report.floor('cipher wrapper I/O methods', n, 3)


# -- what a new connection must start from ------------------------------------
def fresh_connection_state(report, R, db, S, M, want):
    """Every returning path of Connection._connect has, by the time it
    returns, stored the per-connection state named in `want`:
      'framing' -- options.compression_enabled = False (and a threshold that
                   means "none"): a connection always starts unframed, however
                   the previous one ended;
      'queue'   -- the outgoing queue is a new, empty, unbounded deque: a
                   packet left over from the previous connection must not be
                   the first thing the new server sees.
    (Both are also reset when the owner reconnects from a handler without
    calling disconnect() first, which the library allows.)"""
    from .pathsum import struct, show
    cn = M.conn_method('_connect')
    me = ('sym', cn.all_params[0])
    opts = ('attr', me, 'options')
    paths = [p for p in S.run(cn) if p.returns]
    if not paths:
        raise AnalysisError('_connect: no returning path', cn.node,
                            rel(cn.path))
    prob = {}
    for p in paths:
        st = p.flat(('store',))
        if 'framing' in want:
            en = [e for e in st if struct(e.base) == opts
                  and e.attr == 'compression_enabled']
            if not en or en[-1].value != ('const', False):
                prob['connect:framing-carried-over'] = (
                    'a new connection can start with compression_enabled %s: '
                    'if the previous connection negotiated compression and '
                    'the owner reconnects without disconnect() (from an '
                    'exception handler, say), handshake and login go out '
                    'with a data-length prefix nobody asked for' % (
                        'left as the last connection set it' if not en
                        else 'set to %s' % show(en[-1].value)))
        if 'queue' in want:
            qs = [e for e in st if struct(e.base) == me and
                  e.attr == '_outgoing_packet_queue']
            ok = bool(qs)
            if ok:
                v = qs[-1].value
                ok = v[0] == 'call' and v[1] in (
                    ('ext', 'collections.deque'),) and not v[2] and not v[3]
            if not ok:
                prob['connect:queue-carried-over'] = (
                    'a new connection does not start from an empty outgoing '
                    'queue (%s): a packet that was still queued when the '
                    'previous connection died is the first frame the new '
                    'server receives, ahead of the handshake' % (
                        'the queue is not re-created' if not qs
                        else 'it is set to %s' % show(qs[-1].value)))
    for key, msg in sorted(prob.items()):
        report.violation(R, key, cn.path, cn.node, cn.qualname, msg)
    if not prob:
        report.ok(R, '_connect resets %s on all %d returning paths' % (
            ' and '.join(sorted(want)), len(paths)))


def context_imposed(report, R, db, S, M):
    """Whatever a packet carried before, Connection.write_packet gives it the
    context of *this* connection before it is queued or written, on every
    path: the wire form of a packet follows the protocol of the connection it
    is sent on."""
    from .pathsum import struct, show
    wp = M.conn_method('write_packet')
    me, pk = ('sym', wp.all_params[0]), ('sym', wp.all_params[1])
    ctx = ('attr', me, 'context')
    inner = M.conn_method('_write_packet')
    n = 0
    for p in S.run(wp):
        evs = p.flat(('call', 'store'))
        uses = [e for e in evs if e.kind == 'call' and (
            e.calls(inner) or e.method() in ('append', 'appendleft'))
            and any(struct(a) == pk for a in e.args)]
        if not uses:
            continue
        n += 1
        before = evs[:evs.index(uses[0])]
        sets = [e for e in before if e.kind == 'store'
                and struct(e.base) == pk and e.attr == 'context']
        if not sets or struct(sets[-1].value) != ctx:
            report.violation(
                R, 'write:context-not-imposed', wp.path, uses[0].node,
                wp.qualname, 'a packet can be queued or written without '
                'having been given this connection\'s context [%s]: one that '
                'already carries another connection\'s context is encoded '
                'with that connection\'s protocol version' % p.cond_text())
            return
    if not n:
        raise AnalysisError('write_packet: no path queues or writes the '
                            'packet', wp.node, rel(wp.path))
    report.ok(R, 'write_packet sets packet.context = self.context before '
              'queueing or writing, on all %d paths' % n)


def forced_write_is_synchronous(report, R, db, S, M):
    """write_packet(packet, force=True) has put the packet on the wire when it
    returns: every returning path taken under `force` calls _write_packet
    (with the write lock held) and none queues the packet instead.  The login
    reaction relies on it: the encryption response must leave in the clear
    before the cipher is installed."""
    from .pathsum import struct
    wp = M.conn_method('write_packet')
    inner = M.conn_method('_write_packet')
    me, pk = ('sym', wp.all_params[0]), ('sym', wp.all_params[1])
    if 'force' not in wp.params:
        raise AnalysisError('write_packet lost its force parameter', wp.node,
                            rel(wp.path))
    n = 0
    paths = S.run(wp, args={'force': ('const', True)})
    for p in paths:
        if not p.returns:
            continue
        n += 1
        evs = p.flat(('call',))
        wr = [e for e in evs if e.calls(inner)
              and any(struct(a) == pk for a in e.args)]
        q = [e for e in evs if e.method() in ('append', 'appendleft',
                                              'insert', 'extend')
             and any(struct(a) == pk for a in e.args)]
        if not wr or q:
            report.violation(
                R, 'forced-write:deferred', wp.path,
                (q[0] if q else wp).node if q else wp.node, wp.qualname,
                'write_packet(force=True) can return with the packet only '
                'queued [%s]: what the caller does next (the login reaction '
                'installs the cipher) then happens before the packet is on '
                'the wire' % p.cond_text())
            return
        if not all(any(struct(h) == ('attr', me, M.lock_attr)
                       for h in e.held) for e in wr):
            report.violation(R, 'forced-write:unlocked', wp.path,
                             wr[0].node, wp.qualname, 'the forced write is '
                             'not made under the write lock')
            return
        # ... and only that packet: the caller switches the framing right
        # after the call, so anything else written here leaves in the old
        # framing although it follows the switch-over point on the wire
        writers = wire_writers(db, S.cg, M) if getattr(S, 'cg', None) \
            is not None else {inner}
        more = [e for e in evs if e not in wr and any(
            t in writers and t is not wp for t in (e.targets or ()))]
        if more:
            report.violation(
                R, 'forced-write:writes-others', wp.path, more[0].node,
                wp.qualname, 'write_packet(force=True) also calls %s(), '
                'which can put other packets on the wire [%s]: the login '
                'reaction installs the cipher right after its forced '
                'write, so those packets leave unencrypted after the point '
                'from which the server decrypts' % (
                    more[0].method(), p.cond_text()))
            return
    if not n:
        raise AnalysisError('write_packet(force=True): no returning path',
                            wp.node, rel(wp.path))
    report.ok(R, 'write_packet(force=True): the packet has been written, '
              'under the lock, on all %d returning paths' % n)


# ---------------------------------------------------------------------------
# functions of their arguments: no path changes an object that outlives the
# call (a module-level or class-level container), directly or through a local
# name bound to that very object
_MUTATING = ('append', 'add', 'update', 'extend', 'insert', 'pop', 'remove',
             'clear', 'setdefault', 'popitem', 'sort', 'reverse', 'discard',
             'difference_update', 'intersection_update',
             'symmetric_difference_update', 'appendleft', 'popleft')
_MUTABLE_CTORS = ('set', 'list', 'dict', 'defaultdict', 'OrderedDict',
                  'deque', 'bytearray', 'Counter')


def _mutable_value(v):
    """True/False when the defining expression visibly is / is not a mutable
    container, None when that cannot be told from its shape."""
    if isinstance(v, (ast.Set, ast.List, ast.Dict, ast.ListComp, ast.SetComp,
                      ast.DictComp)):
        return True
    if isinstance(v, (ast.Constant, ast.Tuple, ast.JoinedStr, ast.Lambda,
                      ast.GeneratorExp, ast.Compare)):
        return False
    if isinstance(v, ast.Call):
        f = v.func
        nm = f.id if isinstance(f, ast.Name) else (
            f.attr if isinstance(f, ast.Attribute) else None)
        if nm in _MUTABLE_CTORS:
            return True
        if nm in ('frozenset', 'tuple', 'int', 'str', 'bytes', 'float',
                  'bool', 'len', 'max', 'min', 'compile'):
            return False
    if isinstance(v, (ast.BinOp, ast.UnaryOp)):
        return None
    return None


def shared_state_mutations(db, fi):
    """Sites of `fi` where an object that outlives the call is changed in
    place: [(ast node, shared expression text, how, via-alias bool)].  A
    forward may-alias dataflow over the function's CFG tracks the local names
    that can hold the very object of a module-level name / an attribute of a
    class (`x = TABLE`, `x = TABLE if c else y`); a plain rebinding of the
    local (`x = set(TABLE)`, `x = x | {..}`) ends the alias."""
    from .cfg import cfg_of
    node = fi.node
    if isinstance(node, ast.Lambda):
        return []
    glob = set()
    for x in ast.walk(node):
        if isinstance(x, (ast.Global, ast.Nonlocal)):
            glob.update(x.names)
    local = set(a.arg for a in ast.walk(node.args) if isinstance(a, ast.arg))
    for x in ast.walk(node):
        if isinstance(x, ast.Name) and isinstance(x.ctx, (ast.Store, ast.Del)):
            local.add(x.id)
        elif isinstance(x, (ast.FunctionDef, ast.ClassDef)) and x is not node:
            local.add(x.name)
        elif isinstance(x, ast.ExceptHandler) and x.name:
            local.add(x.name)
        elif isinstance(x, ast.alias):
            local.add((x.asname or x.name).split('.')[0])
    local -= glob
    first = fi.all_params[0] if fi.params else None

    def shared_def(e):
        """the defining expression of a module-/class-level object `e`
        names, or None"""
        if isinstance(e, ast.Name):
            if e.id in local:
                return None
            try:
                ent = db.resolve_dotted(fi.module, e, class_scope=None)
            except AnalysisError:
                return None
            if isinstance(ent, tuple) and ent[0] == 'value':
                return ent[1]
            return None
        if isinstance(e, ast.Attribute):
            b = e.value
            ci = None
            if isinstance(b, ast.Name) and b.id == first and fi.cls is not None \
                    and fi.kind == 'class':
                ci = fi.cls
            elif isinstance(b, ast.Name) and b.id not in local:
                try:
                    ent = db.deref(db.resolve_dotted(fi.module, b))
                except AnalysisError:
                    ent = None
                from .srcdb import ClassInfo, Module
                if isinstance(ent, ClassInfo):
                    ci = ent
                elif isinstance(ent, Module):
                    r = db.module_attr(ent.name, e.attr)
                    if isinstance(r, tuple) and r[0] == 'value':
                        return r[1]
                    return None
            if ci is not None:
                ad = db.find_attr(ci, e.attr)
                if ad is not None and ad.kind == 'assign':
                    return ad.value
        return None

    def holders(e, alias):
        """shared objects `e` may evaluate to: list of (text, defining expr)"""
        if isinstance(e, ast.IfExp):
            return holders(e.body, alias) + holders(e.orelse, alias)
        if isinstance(e, ast.BoolOp):
            out = []
            for v in e.values:
                out += holders(v, alias)
            return out
        if isinstance(e, ast.NamedExpr):
            return holders(e.value, alias)
        if isinstance(e, ast.Name) and e.id in alias:
            return list(alias[e.id])
        d = shared_def(e)
        if d is not None:
            return [(ast.unparse(e), d)]
        return []

    g = cfg_of(fi)
    IN = {n.id: {} for n in g.nodes}
    work = [g.entry]
    seen_once = set()

    def transfer(n, st):
        st = {k: set(v) for k, v in st.items()}
        a = n.ast
        if n.kind == 'stmt' and isinstance(a, ast.Assign):
            h = holders(a.value, st)
            for t in a.targets:
                if isinstance(t, ast.Name):
                    if h:
                        st[t.id] = set(h)
                    else:
                        st.pop(t.id, None)
                elif isinstance(t, (ast.Tuple, ast.List)):
                    for x in ast.walk(t):
                        if isinstance(x, ast.Name):
                            st.pop(x.id, None)
        elif n.kind == 'stmt' and isinstance(a, ast.AnnAssign) and \
                isinstance(a.target, ast.Name):
            h = holders(a.value, st) if a.value is not None else []
            if h:
                st[a.target.id] = set(h)
            else:
                st.pop(a.target.id, None)
        elif n.kind in ('for', 'with', 'handler'):
            for root in ([a.target] if n.kind == 'for' else
                         [it.optional_vars for it in a.items
                          if it.optional_vars is not None]
                         if n.kind == 'with' else []):
                for x in ast.walk(root):
                    if isinstance(x, ast.Name):
                        st.pop(x.id, None)
            if n.kind == 'handler' and a.name:
                st.pop(a.name, None)
        elif n.kind == 'stmt' and isinstance(a, ast.AugAssign) and \
                isinstance(a.target, ast.Name):
            # an immutable value is rebound by the augmented assignment
            cur = st.get(a.target.id)
            if cur and all(_mutable_value(d) is False for _, d in cur):
                st.pop(a.target.id, None)
        for x in n.walk():
            if isinstance(x, ast.NamedExpr) and isinstance(x.target, ast.Name):
                h = holders(x.value, st)
                if h:
                    st[x.target.id] = set(h)
                else:
                    st.pop(x.target.id, None)
        return st

    while work:
        n = work.pop()
        out = transfer(n, IN[n.id])
        for s, _ in n.succ:
            cur = IN[s.id]
            changed = s.id not in seen_once
            seen_once.add(s.id)
            for k, v in out.items():
                if not v <= cur.get(k, set()):
                    cur.setdefault(k, set()).update(v)
                    changed = True
            if changed:
                work.append(s)

    hits = []
    seen = set()
    for n in g.nodes:
        if n.ast is None or n.id not in seen_once and n is not g.entry:
            continue
        st = IN[n.id]
        for x in n.walk():
            tgt = how = None
            if isinstance(x, ast.AugAssign):
                tgt, how = x.target, 'is changed in place by `%s`' % \
                    ast.unparse(x)[:60]
                if isinstance(tgt, ast.Subscript):
                    tgt, how = tgt.value, 'has an entry changed by `%s`' % \
                        ast.unparse(x)[:60]
                aug = True
            elif isinstance(x, ast.Call) and isinstance(x.func, ast.Attribute) \
                    and x.func.attr in _MUTATING:
                tgt, how, aug = x.func.value, 'is changed by .%s()' % \
                    x.func.attr, False
            elif isinstance(x, ast.Subscript) and isinstance(
                    x.ctx, (ast.Store, ast.Del)):
                tgt, how, aug = x.value, 'has an entry stored / deleted', False
            if tgt is None:
                continue
            for text, d in holders(tgt, st):
                mv = _mutable_value(d)
                if mv is False:
                    continue
                if mv is None and aug and not isinstance(
                        getattr(x, 'target', None), ast.Subscript):
                    raise AnalysisError(
                        '`%s` is applied to %s, whose kind (mutable or not) '
                        'is not visible from its definition `%s`' % (
                            ast.unparse(x)[:50], text,
                            ast.unparse(d)[:50]), x, rel(fi.path))
                key = (id(x), text)
                if key in seen:
                    continue
                seen.add(key)
                via = not (shared_def(tgt) is not None)
                hits.append((x, text, how, via))
    return hits


def pure_of_shared_state(report, R, db, funcs, what, consequence):
    """None of `funcs` changes a module-/class-level object."""
    n = 0
    bad = 0
    for fi in funcs:
        if isinstance(fi.node, ast.Lambda):
            n += 1
            continue
        n += 1
        for x, text, how, via in shared_state_mutations(db, fi):
            bad += 1
            report.violation(
                R, 'shared-state:%s:%s' % (fi.qualname, text), fi.path, x,
                fi.qualname, '%s%s %s: %s' % (
                    text, ' (through a local name bound to that very object)'
                    if via else '', how, consequence))
    if not bad:
        report.ok(R, '%d %s: none changes an object that outlives the call '
                  '(module-level or class-level container), directly or '
                  'through a local alias' % (n, what))
    return n


# ---------------------------------------------------------------------------
# a change of framing applies to what follows it on the wire
def wire_writers(db, cg, M):
    """Connection methods whose call can put bytes of a packet on the wire
    (they reach _write_packet in the call graph)."""
    inner = M.conn_method('_write_packet')
    out = set()
    for name in sorted(M.conn.attrs):
        fi = db.own_method(M.conn, name)
        if fi is None:
            continue
        if fi is inner or inner in cg.reachable([fi]):
            out.add(fi)
    return out


def _may_write_now(e, M, writers):
    """does this call event put a packet on the wire before it returns?"""
    from .pathsum import is_const
    tg = [t for t in (e.targets or ()) if t in writers]
    if not tg:
        return False
    wp = M.conn_method('write_packet')
    if all(t is wp for t in tg):
        # write_packet only queues unless forced
        force = None
        if 'force' in wp.params:
            i = wp.params.index('force') - 1
            if len(e.args) > i:
                force = e.args[i]
            for k, v in e.kwargs or ():
                if k == 'force':
                    force = v
        if force is None or (is_const(force) and not force[1]):
            return False
    return True


def switch_is_quiet(report, R, db, S, M, cg, fi, paths, arm, is_switch,
                    allowed=None, what='framing'):
    """On every path of the reactor arm `arm` that performs the switch (the
    stores `is_switch` selects), nothing is put on the wire before the last
    of those stores except the calls `allowed` accepts: a packet written
    there still leaves in the old framing, after the peer has changed."""
    from .pathsum import struct
    writers = wire_writers(db, cg, M)
    if len(writers) < 3:
        raise AnalysisError('fewer than three Connection methods reach '
                            '_write_packet', fi.node, rel(fi.path))
    pk = ('sym', fi.all_params[1])
    n = 0
    for p in paths:
        if arm_of(p, pk) != arm:
            continue
        evs = p.flat(('call', 'store'))
        last = max([i for i, e in enumerate(evs)
                    if e.kind == 'store' and is_switch(e)] or [-1])
        if last < 0:
            continue
        n += 1
        for e in evs[:last]:
            if e.kind != 'call' or not _may_write_now(e, M, writers):
                continue
            if allowed is not None and allowed(e):
                continue
            report.violation(
                R, 'switch:%s:early-write:%s' % (arm, e.method()), e.fi.path
                if e.fi is not None else fi.path, e.node, fi.qualname,
                'while reacting to "%s", %s() can put packets on the wire '
                'before the %s is switched [%s]: the peer has switched '
                'already, so those packets leave in the framing it no '
                'longer reads' % (arm, e.method(), what, p.cond_text()))
            return n
    if not n:
        raise AnalysisError('no path of the "%s" arm performs the %s '
                            'switch' % (arm, what), fi.node, rel(fi.path))
    report.ok(R, '"%s" arm of %s: nothing is written between the packet and '
              'the %s switch on %d path(s)' % (arm, fi.qualname, what, n))
    return n


# ---------------------------------------------------------------------------
# protocol numbers are ordered by publication, never numerically
_PV_ATTRS = ('protocol_version', 'server_protocol')
_PV_PARAMS = ('pv', 'pv1', 'pv2', 'start_pv', 'end_pv', 'protocol_version',
              'server_protocol')
_ORD = {ast.Lt: lambda a, b: a < b, ast.LtE: lambda a, b: a <= b,
        ast.Gt: lambda a, b: a > b, ast.GtE: lambda a, b: a >= b}


def numeric_version_order(report, R, db, P, funcs=None, collections=True):
    """No function orders protocol numbers with < <= > >= (or an unkeyed
    max / min / sorted): snapshot numbers (PRE | n) are numerically above
    every release number, so numeric order disagrees with the order of
    publication for supported versions.  A comparison with a literal is a
    violation only when a supported version exists on which the numeric
    verdict differs from the publication-order verdict."""
    funcs = list(db.funcs) if funcs is None else list(funcs)
    nbad = [len(report.violations)]
    n = sites = 0
    for fi in funcs:
        n += 1
        node = fi.node
        params = set(fi.params or ())
        pv_names = set(p for p in params if p in _PV_PARAMS)
        body = node.body if isinstance(node.body, list) else [node.body]
        # local aliases of a protocol number
        changed = True
        while changed:
            changed = False
            for st in body:
                for x in ast.walk(st):
                    if isinstance(x, ast.Assign) and len(x.targets) == 1 and \
                            isinstance(x.targets[0], ast.Name) and \
                            x.targets[0].id not in pv_names and is_pv(
                                x.value, pv_names):
                        pv_names.add(x.targets[0].id)
                        changed = True
        for st in body:
            for x in ast.walk(st):
                if isinstance(x, ast.Compare):
                    left = x.left
                    for op, right in zip(x.ops, x.comparators):
                        if type(op) in _ORD and (is_pv(left, pv_names) or
                                                 is_pv(right, pv_names)):
                            sites += 1
                            _judge(report, R, db, P, fi, x, op, left, right,
                                   pv_names)
                        left = right
                elif isinstance(x, ast.Call) and isinstance(x.func, ast.Name) \
                        and x.func.id in ('max', 'min', 'sorted') and \
                        not any(k.arg == 'key' for k in x.keywords) and \
                        x.args and (
                            (len(x.args) > 1 and any(is_pv(a, pv_names)
                                                     for a in x.args))
                            or (collections and len(x.args) == 1
                                and is_pv_collection(x.args[0]))):
                    sites += 1
                    report.violation(
                        R, 'numeric-order:%s:%s' % (fi.qualname, x.func.id),
                        fi.path, x, fi.qualname, '%s() orders protocol '
                        'numbers numerically (no key): snapshot numbers are '
                        'above every release number, so this is not the '
                        'order of publication' % x.func.id)
    if nbad[0] == len(report.violations):
        report.ok(R, '%d functions: no protocol number is ordered '
                  'numerically (%d ordering sites judged)' % (n, sites))
    return n


_PV_COLLECTIONS = ('allowed_proto_versions', 'SUPPORTED_PROTOCOL_VERSIONS',
                   'KNOWN_PROTOCOL_VERSIONS', 'RELEASE_PROTOCOL_VERSIONS')


def is_pv_collection(e):
    """an expression that is a collection of protocol numbers by name"""
    if isinstance(e, ast.Attribute):
        return e.attr in _PV_COLLECTIONS
    if isinstance(e, ast.Name):
        return e.id in _PV_COLLECTIONS
    if isinstance(e, ast.Call) and isinstance(e.func, ast.Name) and \
            e.func.id in ('set', 'list', 'tuple', 'sorted') and e.args:
        return is_pv_collection(e.args[0])
    return False


def is_pv(e, names):
    if isinstance(e, ast.Attribute) and e.attr in _PV_ATTRS:
        return True
    if isinstance(e, ast.Name) and e.id in names:
        return True
    return False


def _judge(report, R, db, P, fi, x, op, left, right, names):
    f = _ORD[type(op)]
    lit = None
    flip = False
    both = is_pv(left, names) and is_pv(right, names)
    if not both:
        a, b, flip = (left, right, False) if is_pv(left, names) else \
            (right, left, True)
        v = None
        try:
            v = ast.literal_eval(b)
        except Exception:
            if isinstance(b, (ast.Name, ast.Attribute)):
                try:
                    ent = db.resolve_dotted(fi.module, b)
                except AnalysisError:
                    ent = None
                if isinstance(ent, tuple) and ent[0] == 'value':
                    try:
                        v = ast.literal_eval(ent[1])
                    except Exception:
                        v = None
        if isinstance(v, int) and not isinstance(v, bool):
            lit = v
        else:
            raise AnalysisError('a protocol number is ordered against `%s`, '
                                'which does not fold to a number'
                                % ast.unparse(b)[:40], x, rel(fi.path))
    where = ast.unparse(x)[:70]
    if lit is None:
        report.violation(
            R, 'numeric-order:%s:%s' % (fi.qualname, where), fi.path, x,
            fi.qualname, '`%s` orders two protocol numbers numerically: '
            'snapshot numbers (PRE | n) are above every release number, so '
            'for supported versions this is not the order of publication'
            % where)
        return
    if lit not in P.index:
        report.violation(
            R, 'numeric-order:%s:%s' % (fi.qualname, where), fi.path, x,
            fi.qualname, '`%s` compares a protocol number with %d, which is '
            'not a known protocol version' % (where, lit))
        return
    bad = []
    for v in P.supported:
        num = f(lit, v) if flip else f(v, lit)
        pub = f(P.index[lit], P.index[v]) if flip else \
            f(P.index[v], P.index[lit])
        if num != pub:
            bad.append(v)
    if bad:
        report.violation(
            R, 'numeric-order:%s:%s' % (fi.qualname, where), fi.path, x,
            fi.qualname, '`%s` orders protocol numbers numerically; for %d '
            'supported version(s), e.g. %s, that differs from the order of '
            'publication the version predicates use (snapshot numbers are '
            'above every release number)' % (where, len(bad),
                                             P.vname(bad[0])))
    else:
        report.ok(R)


# ---------------------------------------------------------------------------
_OSERROR_SUPERS = ('OSError', 'IOError', 'EnvironmentError', 'Exception',
                   'BaseException', 'socket.error', 'select.error',
                   'builtins.OSError', 'builtins.IOError',
                   'builtins.Exception', 'builtins.BaseException',
                   'builtins.EnvironmentError', 'os.error')


def handler_covers_oserror(db, fi, h):
    """Does the except clause `h` (in function fi) take *every* OSError --
    what a socket call raises when the peer is gone (ENOTCONN is a plain
    OSError, not a ConnectionError)?  True / False, or None when a handler
    class cannot be resolved."""
    from .srcdb import External, ClassInfo
    if h.type is None:
        return True
    types = h.type.elts if isinstance(h.type, ast.Tuple) else [h.type]
    unknown = False
    for t in types:
        name = None
        if isinstance(t, ast.Name) and db.module_attr(
                fi.module.name, t.id) is None:
            name = t.id                   # a builtin
        else:
            try:
                ent = db.deref(db.resolve_dotted(fi.module, t))
            except AnalysisError:
                ent = None
            if isinstance(ent, External):
                name = ent.dotted
            elif isinstance(ent, ClassInfo):
                continue                  # an in-repo class: not OSError
            else:
                unknown = True
                continue
        if name in _OSERROR_SUPERS:
            return True
    return None if unknown else False


def is_packet_decode(e):
    """The call event hands a buffer to a packet's decoder: `.read(buf)`
    resolved to Packet.read (or an override), or -- when the receiver's
    class is only known at run time -- `.read(buf)` on an instance the path
    has just made by calling something (the class looked up in the decoder
    table)."""
    if e.kind != 'call' or e.method() != 'read':
        return False
    if any(t.name == 'read' and t.cls is not None and t.cls.name == 'Packet'
           for t in (e.targets or ())):
        return True
    if not (e.targets or ()) and e.fn[0] == 'attr' and \
            e.fn[1][0] == 'call' and len(e.args) == 1:
        return True
    return False


def compression_arms(report, R, db, S, M):
    """Every reactor arm that handles a set-compression packet stores the
    announced threshold *and* switches compression on, on every returning
    path (reader and writer consult both options)."""
    from .pathsum import struct, show
    CONN = 'minecraft.networking.connection'
    n = 0
    base = db.get_class(CONN, 'PacketReactor')
    for rc in sorted(db.subclasses(base), key=lambda c: c.fq):
        fi = db.own_method(rc, 'react')
        if fi is None:
            continue
        me, pk = ('sym', fi.all_params[0]), ('sym', fi.all_params[1])
        opts = ('attr', ('attr', me, 'connection'), 'options')
        for p in S.run(fi):
            if arm_of(p, pk) != 'set compression' or not p.returns and \
                    p.outcome[0] != 'fall':
                continue
            n += 1
            stores = {e.attr: e.value for e in p.flat(('store',))
                      if struct(e.base) == opts}
            thr = stores.get('compression_threshold')
            if thr is not None and struct(thr) == ('attr', pk, 'threshold') \
                    and stores.get('compression_enabled') == ('const', True):
                report.ok(R, '%s: threshold from the packet, compression '
                          'on' % fi.qualname)
            else:
                report.violation(
                    R, 'comp:stores:%s' % rc.name, fi.path, fi.node,
                    fi.qualname, 'the set-compression arm of %s stores %s; '
                    'it must take the threshold from the packet and switch '
                    'compression on, otherwise reader and writer stay in '
                    'the old framing while the peer has switched' % (
                        rc.name, {k: show(v) for k, v in sorted(
                            stores.items())}))
    return n


# ---------------------------------------------------------------------------
def partial_decorator(report, R, db, S, M, lst, reg, outer_name):
    """The decorator factory spelt `return partial(F, register, types,
    options)` with F(register, types, options, handler) a module-level
    function, and <reg>(handler, *types, **options) forwarding to the same
    `register(handler, types, options)`.  Decided here: F hands the handler
    and the captured types to `register`, returns the handler, and gives
    `register` its *own copy* of the captured options unless `register`
    leaves its options argument unchanged.  False when the factory is not of
    this form."""
    from .pathsum import MUTATORS, struct, show
    from .srcdb import FuncInfo

    def sy(n):
        return ('sym', n)
    body = [b for b in lst.node.body if not (isinstance(b, ast.Expr) and
                                             isinstance(b.value,
                                                        ast.Constant))]
    if len(body) != 1 or not isinstance(body[0], ast.Return) or \
            not isinstance(body[0].value, ast.Call):
        return False
    call = body[0].value
    try:
        ent = db.resolve_dotted(lst.module, call.func)
    except AnalysisError:
        return False
    if getattr(ent, 'dotted', None) != 'functools.partial' or \
            call.keywords or len(call.args) != 4:
        return False
    try:
        F = db.deref(db.resolve_dotted(lst.module, call.args[0]))
    except AnalysisError:
        return False
    if not isinstance(F, FuncInfo) or len(F.all_params) != 4:
        return False
    va, kw = lst.node.args.vararg, lst.node.args.kwarg
    a_reg, a_types, a_opts = call.args[1:]
    if not (va and kw and isinstance(a_types, ast.Name) and
            a_types.id == va.arg and isinstance(a_opts, ast.Name) and
            a_opts.id == kw.arg and isinstance(a_reg, ast.Attribute) and
            isinstance(a_reg.value, ast.Name) and
            a_reg.value.id == lst.params[0]):
        return False
    H = db.find_method(M.conn, a_reg.attr)
    if H is None:
        return False
    p_reg, p_types, p_opts, p_fn = F.all_params
    prob = []
    # the direct registration does what H does: either it calls H with its
    # own arguments unchanged, or (H having been inlined into it) its path
    # summaries equal H's, parameter for parameter
    from . import pathsum as _ps
    S2 = summariser(db, S.cg, opaque=[H])
    rva, rkw = reg.node.args.vararg, reg.node.args.kwarg
    if not (rva and rkw) or len(H.all_params) != 4:
        return False

    def signature(fi, ren):
        out = []
        for p in S.run(fi):
            def r(t):
                for a, b in ren:
                    t = _ps.replace(t, a, b)
                return repr(struct(t))
            evs = []
            for e in p.flat(('call', 'store', 'setitem', 'delitem')):
                evs.append((e.kind, r(e.fn) if e.fn else None,
                            tuple(r(a) for a in (e.args or ())),
                            tuple((k, r(v)) for k, v in (e.kwargs or ())),
                            r(e.value) if e.value is not None else None))
            out.append((tuple((r(a), pol) for a, pol, _ in p.conds),
                        tuple(evs), p.outcome[0]))
        return sorted(out)
    ren = list(zip([sy(x) for x in H.all_params],
                   [sy(reg.all_params[0]), sy(reg.all_params[1]),
                    sy('*' + rva.arg), sy('**' + rkw.arg)]))
    forwards = False
    for p in S2.run(reg):
        cs = [e for e in p.calls() if e.calls(H)]
        if cs:
            forwards = True
    if not forwards and signature(H, ren) != signature(reg, []):
        return False
    # does H change the options it is given?
    changes = False
    o = sy(H.all_params[-1])
    for p in S.run(H):
        for e in p.flat(('call', 'setitem', 'delitem')):
            recv = e.fn[1] if e.kind == 'call' and e.fn[0] == 'attr' and \
                e.fn[2] in MUTATORS else (
                    e.base if e.kind in ('setitem', 'delitem') else None)
            if recv is not None and struct(recv) == o:
                changes = True
    n = 0
    site = F.node
    for p in S2.run(F):
        if not p.returns:
            continue
        n += 1
        cs = [e for e in p.calls() if e.fn == sy(p_reg) or
              struct(e.fn) == sy(p_reg)]
        if len(cs) != 1:
            prob.append('an application registers %d times' % len(cs))
            continue
        e = cs[0]
        site = e.node
        if len(e.args) != 3 or e.kwargs:
            prob.append('the registration is called with %d arguments'
                        % len(e.args))
            continue
        if struct(e.args[0]) != sy(p_fn):
            prob.append('the decorated function is not the handler that is '
                        'registered')
        if struct(e.args[1]) != sy(p_types):
            prob.append('the types given to the decorator factory are not '
                        'passed on')
        opt = e.args[2]
        fresh = (opt[0] == 'op' and opt[1] in ('dict',) and
                 [struct(x) for x in opt[2]] == [sy(p_opts)]) or (
            opt[0] == 'call' and opt[1] == ('attr', sy(p_opts), 'copy'))
        if struct(opt) == sy(p_opts):
            if changes:
                prob.append('the decorator hands the captured options '
                            'object itself to %s, which removes entries '
                            'from it: the second handler the same decorator '
                            'is applied to is registered without the '
                            'options (early / outgoing) given to the '
                            'factory' % H.name)
        elif not fresh:
            prob.append('the options given to the decorator factory are '
                        'not what the registration receives (%s)'
                        % show(opt)[:50])
        if p.value is None or struct(p.value) != sy(p_fn):
            prob.append('the decorator does not return the function it '
                        'decorated')
    if not n:
        return False
    if prob:
        report.violation(R, 'decorator:%s' % outer_name, F.path, site,
                         F.qualname, '; '.join(sorted(set(prob))))
    else:
        report.ok(R, outer_name + '(...)(f): partial application of %s: one '
                  'registration of f with the captured types and a copy of '
                  'the options, f returned' % F.name)
    return True


def decorator_form(report, R, db, S, M, outer_name, reg_name, option_keys):
    """Connection.<outer>(*types, **options) returns a decorator; applying it
    registers the handler exactly as <reg>(handler, *types, **options) would
    -- every time it is applied: the decorator must not use up what it
    captured."""
    from .pathsum import MUTATORS, struct, show

    def sy(n):
        return ('sym', n)
    lst = db.own_method(M.conn, outer_name)
    if lst is None:
        raise AnalysisError('Connection.%s vanished' % outer_name)
    reg = M.conn_method(reg_name)
    inner = [f for f in db.funcs if f.outer is lst]
    if not inner and partial_decorator(report, R, db, S, M, lst, reg,
                                       outer_name):
        return
    if len(inner) != 1:
        raise AnalysisError('Connection.%s: expected one nested ' % outer_name +
                            'decorator, found %d' % len(inner), lst.node,
                            rel(lst.path))
    dec = inner[0]
    va = lst.node.args.vararg
    kw = lst.node.args.kwarg
    captured = set(lst.params) | ({va.arg} if va else set()) | (
        {kw.arg} if kw else set())
    prob = []
    site = dec.node
    n = 0
    for p in S.run(dec):
        evs = p.flat(('call', 'setitem', 'delitem', 'store'))
        for e in evs:
            recv = None
            if e.kind == 'call' and e.fn[0] == 'attr' and \
                    e.fn[2] in MUTATORS:
                recv = e.fn[1]
            elif e.kind in ('setitem', 'delitem'):
                recv = e.base
            if recv is not None and recv[0] == 'sym' and recv[1] in captured:
                prob.append('the decorator changes the captured `%s` (%s): '
                            'the second handler it is applied to is '
                            'registered with what the first one left'
                            % (recv[1], repr(e)[:50]))
                site = e.node
        if not p.returns:
            if p.raises and len(p.outcome) == 3:
                continue        # an explicit refusal of bad options
            continue
        n += 1
        regs = [e for e in evs if e.kind == 'call' and e.calls(reg)]
        if len(regs) != 1:
            prob.append('an application registers %d listeners [%s]'
                        % (len(regs), p.cond_text()))
            continue
        e = regs[0]
        args = [a for a in e.args if struct(a) != sy(lst.all_params[0])]
        if not args or struct(args[0]) != sy(dec.all_params[0]):
            prob.append('the decorated function is not the handler that is '
                        'registered')
        if va and not any(a[0] == 'op' and a[1] == 'star' and
                          struct(a[2][0]) == sy(va.arg) for a in args[1:]):
            prob.append('the types given to the decorator factory are not '
                        'passed on')
        if kw:
            kws = dict(e.kwargs)
            if struct(kws.get('**', ('none',))) != sy(kw.arg):
                for k in option_keys:
                    v = kws.get(k)
                    ok = v is not None and (
                        (v[0] == 'call' and v[1][0] == 'attr'
                         and struct(v[1][1]) == sy(kw.arg)
                         and v[1][2] in ('get', 'pop') and v[2]
                         and v[2][0] == ('const', k))
                        or (v[0] == 'op' and v[1] == 'index'
                            and struct(v[2][0]) == sy(kw.arg)
                            and v[2][1] == ('const', k)))
                    if not ok:
                        prob.append('the option `%s` given to the decorator factory is '
                                    'not what the registration receives (%s)'
                                    % (k, show(v) if v is not None
                                       else 'nothing'))
        if p.value is None or struct(p.value) != sy(dec.all_params[0]):
            prob.append('the decorator does not return the function it '
                        'decorated')
    if not n:
        raise AnalysisError('%s decorator: no returning path' % outer_name,
                            dec.node, rel(dec.path))
    if prob:
        report.violation(R, 'decorator:%s' % outer_name, dec.path, site,
                         dec.qualname, '; '.join(sorted(set(prob))))
    else:
        report.ok(R, outer_name + '(...)(f): one registration of f with the '
                  'captured types and options, nothing captured is changed, '
                  'f returned')


# ---------------------------------------------------------------------------
def shared_defaults(report, R, db, funcs, consequence):
    """A default argument value is made once, when the function is defined.
    A mutable one (a list / dict / set literal or constructor, an instance of
    an in-repo class) that the function keeps (stores in an attribute or a
    container, returns) or changes in place is shared by every call that
    relies on the default."""
    from .srcdb import ClassInfo
    n = 0
    bad = 0
    for fi in funcs:
        node = fi.node
        if isinstance(node, ast.Lambda):
            continue
        a = node.args
        pos = a.posonlyargs + a.args
        pairs = list(zip(pos[len(pos) - len(a.defaults):], a.defaults)) + [
            (x, d) for x, d in zip(a.kwonlyargs, a.kw_defaults)
            if d is not None]
        for arg, d in pairs:
            n += 1
            mut = _mutable_value(d)
            if mut is None and isinstance(d, ast.Call):
                try:
                    ent = db.deref(db.resolve_dotted(fi.module, d.func))
                except AnalysisError:
                    ent = None
                mut = isinstance(ent, ClassInfo)
            if not mut:
                continue
            nm = arg.arg
            kept = None
            for x in ast.walk(node):
                if isinstance(x, ast.Assign) and isinstance(
                        x.value, ast.Name) and x.value.id == nm and any(
                            isinstance(t, (ast.Attribute, ast.Subscript))
                            for t in x.targets):
                    kept = (x, 'is stored in %s' % ast.unparse(x.targets[0]))
                elif isinstance(x, ast.Return) and isinstance(
                        x.value, ast.Name) and x.value.id == nm:
                    kept = (x, 'is returned')
                elif isinstance(x, ast.Call) and isinstance(
                        x.func, ast.Attribute) and isinstance(
                            x.func.value, ast.Name) and \
                        x.func.value.id == nm and x.func.attr in _MUTATING:
                    kept = (x, 'is changed by .%s()' % x.func.attr)
                elif isinstance(x, (ast.Subscript, ast.Attribute)) and \
                        isinstance(x.ctx, (ast.Store, ast.Del)) and \
                        isinstance(x.value, ast.Name) and x.value.id == nm:
                    kept = (x, 'has %s assigned' % (
                        'an item' if isinstance(x, ast.Subscript)
                        else 'an attribute'))
                elif isinstance(x, ast.Call) and any(
                        isinstance(y, ast.Name) and y.id == nm
                        for y in x.args) and isinstance(
                            x.func, ast.Attribute) and x.func.attr in (
                                'append', 'add', 'setdefault', 'insert'):
                    kept = (x, 'is put into a container')
                if kept:
                    break
            if kept:
                bad += 1
                report.violation(
                    R, 'shared-default:%s:%s' % (fi.qualname, nm), fi.path,
                    kept[0], fi.qualname, 'the default of `%s` (%s) is one '
                    'object made when the function was defined, and it %s: '
                    '%s' % (nm, ast.unparse(d)[:30], kept[1], consequence))
    if not bad:
        report.ok(R, '%d default values: none is a mutable object the '
                  'function keeps or changes' % n)
    return n
