"""E2/E3 -- constant-folding abstract interpreter.

Evaluates the *pure, table-defining* code of the package (version records,
initglobals, the five version predicates, get_id ladders, definitions,
get_packets) over abstract values: Python constants and containers of them,
references to program entities of the index (classes, functions, modules),
instances of in-repo classes (an attribute map), and Opaque for run-time data.
Conditions must fold to a constant; anything else is an AnalysisError (fail
closed).  Nothing from /repo is imported or executed: this walks syntax."""
import ast
import operator
import re as _re

from .common import AnalysisError, rel
from .srcdb import Module, ClassInfo, FuncInfo, External


class Opaque(object):
    """A value only known at run time."""
    __slots__ = ('why',)
    made = 0        # how many were created (a try body is folded only when
                    # nothing in it depended on run-time data)

    def __init__(self, why=''):
        self.why = why
        Opaque.made += 1

    def __repr__(self):
        return 'Opaque(%s)' % self.why


class ClassVal(object):
    __slots__ = ('ci',)

    def __init__(self, ci):
        self.ci = ci

    def __eq__(self, o):
        return isinstance(o, ClassVal) and o.ci is self.ci

    def __hash__(self):
        return hash(('cls', id(self.ci)))

    def __repr__(self):
        return '<class %s>' % self.ci.qualname


class FuncVal(object):
    __slots__ = ('fi', 'bound', 'closure')

    def __init__(self, fi, bound=None, closure=None):
        self.fi = fi
        self.bound = bound        # value bound as first argument, or None
        self.closure = closure    # Env of the defining scope for nested defs

    def __repr__(self):
        return '<func %s>' % self.fi.qualname


class LambdaVal(object):
    __slots__ = ('node', 'env', 'module')

    def __init__(self, node, env, module):
        self.node = node
        self.env = env
        self.module = module


class ModuleVal(object):
    __slots__ = ('m',)

    def __init__(self, m):
        self.m = m

    def __repr__(self):
        return '<module %s>' % self.m.name


class ExtVal(object):
    __slots__ = ('dotted',)

    def __init__(self, dotted):
        self.dotted = dotted

    def __eq__(self, o):
        return isinstance(o, ExtVal) and o.dotted == self.dotted

    def __hash__(self):
        return hash(('extval', self.dotted))

    def __repr__(self):
        return '<ext %s>' % self.dotted


class Instance(object):
    """An instance of an in-repo class: class + attribute map + ctor args."""
    __slots__ = ('ci', 'attrs', 'ctor_args')

    def __init__(self, ci, attrs=None, ctor_args=None):
        self.ci = ci
        self.attrs = attrs if attrs is not None else {}
        self.ctor_args = ctor_args

    def key(self):
        try:
            return ('inst', id(self.ci),
                    tuple(sorted((k, _hashable(v))
                                 for k, v in self.attrs.items())))
        except TypeError:
            return None

    def __eq__(self, o):
        return isinstance(o, Instance) and o.ci is self.ci and \
            o.attrs == self.attrs

    def __hash__(self):
        k = self.key()
        if k is None:
            raise TypeError('unhashable instance')
        return hash(k)

    def __repr__(self):
        return '%s(%s)' % (self.ci.qualname, ', '.join(
            '%s=%r' % kv for kv in sorted(self.attrs.items())))


class ExtInstance(object):
    """Result of calling something outside the repository with folded args
    (e.g. property(...), RLock()).  Carried around, never inspected."""
    __slots__ = ('callee', 'args', 'kwargs')

    def __init__(self, callee, args, kwargs):
        self.callee = callee
        self.args = args
        self.kwargs = kwargs

    def __repr__(self):
        return '<%s(...)>' % self.callee


class NTClass(object):
    def __init__(self, name, fields):
        self.name = name
        self.fields = tuple(fields)

    def __repr__(self):
        return '<namedtuple %s>' % self.name


class NTVal(tuple):
    def __new__(cls, ntc, values):
        o = tuple.__new__(cls, values)
        o.ntc = ntc
        return o

    def attr(self, name):
        return self[self.ntc.fields.index(name)]


class FoldRaise(Exception):
    """The folded code raises."""

    def __init__(self, exc_type, args=(), node=None):
        self.exc_type = exc_type
        self.exc_args = args
        self.node = node
        Exception.__init__(self, '%s%r' % (exc_type, tuple(args)))


class _Return(Exception):
    def __init__(self, value):
        self.value = value


class _Break(Exception):
    pass


class _Continue(Exception):
    pass


def _hashable(v):
    hash(v)
    return v


class Env(object):
    __slots__ = ('vars', 'parent', 'module', 'cls')

    def __init__(self, module, parent=None, cls=None):
        self.vars = {}
        self.parent = parent
        self.module = module
        self.cls = cls        # class scope for value expressions

    def lookup(self, name):
        e = self
        while e is not None:
            if name in e.vars:
                return True, e.vars[name]
            e = e.parent
        return False, None


BINOPS = {
    ast.Add: operator.add, ast.Sub: operator.sub, ast.Mult: operator.mul,
    ast.Div: operator.truediv, ast.FloorDiv: operator.floordiv,
    ast.Mod: operator.mod, ast.Pow: operator.pow, ast.LShift: operator.lshift,
    ast.RShift: operator.rshift, ast.BitOr: operator.or_,
    ast.BitAnd: operator.and_, ast.BitXor: operator.xor,
}
CMPOPS = {
    ast.Eq: operator.eq, ast.NotEq: operator.ne, ast.Lt: operator.lt,
    ast.LtE: operator.le, ast.Gt: operator.gt, ast.GtE: operator.ge,
    ast.Is: operator.is_, ast.IsNot: operator.is_not,
    ast.In: lambda a, b: a in b, ast.NotIn: lambda a, b: a not in b,
}
SAFE_BUILTINS = {
    'len': len, 'max': max, 'min': min, 'set': set, 'int': int, 'str': str,
    'range': range, 'sorted': sorted, 'tuple': tuple, 'list': list,
    'dict': dict, 'bool': bool, 'zip': zip, 'reversed': reversed,
    'enumerate': enumerate, 'repr': repr, 'frozenset': frozenset,
    'abs': abs, 'sum': sum, 'any': any, 'all': all, 'pow': pow,
    'divmod': divmod, 'round': round, 'bytes': bytes, 'float': float,
}
import operator as _op
OPERATOR_BIN = {
    'add': _op.add, 'sub': _op.sub, 'mul': _op.mul, 'truediv': _op.truediv,
    'floordiv': _op.floordiv, 'mod': _op.mod, 'pow': _op.pow,
    'lshift': _op.lshift, 'rshift': _op.rshift, 'and': _op.and_,
    'or': _op.or_, 'xor': _op.xor, 'lt': _op.lt, 'le': _op.le,
    'eq': _op.eq, 'ne': _op.ne, 'ge': _op.ge, 'gt': _op.gt,
    'is': _op.is_, 'is_not': _op.is_not, 'concat': _op.concat,
}
OPERATOR_UN = {'neg': _op.neg, 'pos': _op.pos, 'invert': _op.invert,
               'inv': _op.inv, 'not': _op.not_, 'truth': _op.truth,
               'abs': _op.abs, 'index': _op.index}
EXC_NAMES = ('ValueError', 'TypeError', 'KeyError', 'AttributeError',
             'NotImplementedError', 'IOError', 'EOFError', 'Exception',
             'AssertionError', 'IndexError', 'RuntimeError', 'OSError')


class Folder(object):
    def __init__(self, db):
        self.db = db
        self.globals_cache = {}     # (modname, name) -> value
        self.inited = set()
        self.initing = set()
        self.attr_cache = {}        # id(AttrDef) -> value
        self.memo = {}
        self.depth = 0
        self.steps = 0
        self.overrides = {}         # (modname, name) -> value (experiments)

    # ------------------------------------------------------------------
    def err(self, msg, node, module):
        return AnalysisError(msg, node, rel(module.path) if module else None)

    # -- module globals --------------------------------------------------
    def module_global(self, m, name, node=None):
        self.ensure_init(m)
        key = (m.name, name)
        if key in self.overrides:
            return self.overrides[key]
        if key in self.globals_cache:
            return self.globals_cache[key]
        ent = self.db.module_attr(m.name, name)
        if ent is None:
            if name in SAFE_BUILTINS:
                return ExtVal('builtins.' + name)
            if name in ('staticmethod', 'classmethod', 'property', 'object',
                        'isinstance', 'issubclass', 'getattr', 'hasattr',
                        'setattr', 'type', 'super', 'map', 'filter', 'iter',
                        'next', 'print', 'ord', 'chr', 'format', 'hash',
                        'bytearray', 'delattr', 'vars') or name in EXC_NAMES:
                return ExtVal('builtins.' + name)
            raise self.err('unbound name %r' % name, node, m)
        val = self.entity_value(ent, m, name)
        self.globals_cache[key] = val
        return val

    def entity_value(self, ent, m=None, name=None):
        if isinstance(ent, Module):
            return ModuleVal(ent)
        if isinstance(ent, ClassInfo):
            return ClassVal(ent)
        if isinstance(ent, FuncInfo):
            return FuncVal(ent)
        if isinstance(ent, External):
            return ExtVal(ent.dotted)
        if isinstance(ent, tuple) and ent[0] == 'value':
            expr, mod = ent[1], ent[2]
            target = ent[4] if len(ent) > 4 else None
            owner = ent[5] if len(ent) > 5 else None
            if owner is None:
                self.ensure_init(mod)
                # a module-level assignment; evaluate in that module
                key = None
                if isinstance(target, ast.Name):
                    key = (mod.name, target.id)
                    if key in self.globals_cache:
                        return self.globals_cache[key]
                v = self.eval(expr, Env(mod))
                if isinstance(target, ast.Tuple) and name is not None:
                    idx = [i for i, e in enumerate(target.elts)
                           if isinstance(e, ast.Name) and e.id == name]
                    v = v[idx[0]]
                if key is not None:
                    self.globals_cache[key] = v
                return v
            return self.eval(expr, Env(mod, cls=owner))
        raise AnalysisError('cannot evaluate entity %r' % (ent,))

    def ensure_init(self, m):
        """Modules whose top level *calls* something (minecraft/__init__ runs
        initglobals) are folded eagerly, in statement order, so the tables
        that call fills are the ones later reads see."""
        if m.name in self.inited or m.name in self.initing:
            return
        has_call = any(isinstance(s, ast.Expr) and isinstance(s.value, ast.Call)
                       for s in m.tree.body)
        if not has_call:
            self.inited.add(m.name)
            return
        self.initing.add(m.name)
        env = Env(m)
        for st in m.tree.body:
            if isinstance(st, ast.Assign):
                v = self.eval(st.value, env)
                for t in st.targets:
                    if isinstance(t, ast.Name):
                        self.globals_cache[(m.name, t.id)] = v
                    else:
                        raise self.err('unsupported module-level target',
                                       st, m)
            elif isinstance(st, ast.Expr) and isinstance(st.value, ast.Call):
                self.eval(st.value, env)
        self.initing.discard(m.name)
        self.inited.add(m.name)

    # -- names -----------------------------------------------------------
    def lookup(self, name, env, node):
        found, v = env.lookup(name)
        if found:
            return v
        cs = env.cls
        busy = self.__dict__.setdefault('_binding', set())
        while cs is not None:
            # (a name used in its own class-level definition, `X = X`, is
            # not bound in the class yet: it is the global)
            if name in cs.attrs and (id(cs), name) not in busy:
                return self.class_attr(ClassVal(cs), name, node, env.module,
                                       own=cs)
            cs = cs.outer
        return self.module_global(env.module, name, node)

    # -- expressions -----------------------------------------------------
    def e_Yield(self, n, env):
        found, out = env.lookup('$yield')
        if not found:
            raise self.err('yield outside a folded generator function', n,
                           env.module)
        out.append(self.eval(n.value, env) if n.value is not None else None)
        return None

    def e_NamedExpr(self, n, env):
        v = self.eval(n.value, env)
        self.assign(n.target, v, env)
        return v

    def eval(self, n, env):
        self.steps += 1
        meth = getattr(self, 'e_' + type(n).__name__, None)
        if meth is None:
            raise self.err('unsupported expression %s in folded code'
                           % type(n).__name__, n, env.module)
        return meth(n, env)

    def e_Constant(self, n, env):
        return n.value

    def e_Name(self, n, env):
        return self.lookup(n.id, env, n)

    def e_Tuple(self, n, env):
        return tuple(self.eval_seq(n.elts, env))

    def e_List(self, n, env):
        return list(self.eval_seq(n.elts, env))

    def eval_seq(self, elts, env):
        out = []
        for e in elts:
            if isinstance(e, ast.Starred):
                v = self.eval(e.value, env)
                if isinstance(v, Opaque):
                    out.append(Opaque('starred'))
                else:
                    out.extend(list(v))
            else:
                out.append(self.eval(e, env))
        return out

    def e_Set(self, n, env):
        vals = self.eval_seq(n.elts, env)
        return set(vals)

    def e_Dict(self, n, env):
        d = {}
        for k, v in zip(n.keys, n.values):
            if k is None:
                d.update(self.eval(v, env))
            else:
                d[self.eval(k, env)] = self.eval(v, env)
        return d

    def e_JoinedStr(self, n, env):
        """an f-string over folded strings / integers / None is its text"""
        out = []
        for part in n.values:
            if isinstance(part, ast.Constant):
                out.append(str(part.value))
                continue
            if not isinstance(part, ast.FormattedValue):
                return Opaque('fstring')
            v = self.eval(part.value, env)
            if isinstance(v, Opaque) or not (
                    v is None or type(v) in (str, int, bool, float)):
                return Opaque('fstring')
            spec = ''
            if part.format_spec is not None:
                spec = self.e_JoinedStr(part.format_spec, env)
                if isinstance(spec, Opaque):
                    return spec
            if part.conversion == ord('r'):
                v = repr(v)
            elif part.conversion == ord('s'):
                v = str(v)
            elif part.conversion == ord('a'):
                v = ascii(v)
            try:
                out.append(format(v, spec))
            except (ValueError, TypeError) as e:
                raise FoldRaise(type(e).__name__, e.args, n)
        return ''.join(out)

    def e_Lambda(self, n, env):
        return LambdaVal(n, env, env.module)

    def e_IfExp(self, n, env):
        c = self.truth(self.eval(n.test, env), n.test, env)
        return self.eval(n.body if c else n.orelse, env)

    def truth(self, v, node, env):
        if isinstance(v, Opaque):
            raise self.err('condition does not fold to a constant (%s)'
                           % v.why, node, env.module)
        if isinstance(v, (ClassVal, FuncVal, ModuleVal, ExtVal, LambdaVal,
                          ExtInstance)):
            return True
        if isinstance(v, Instance):
            fi = self.db.find_method(v.ci, '__bool__')
            if fi is not None:
                return bool(self.call_func(FuncVal(fi, bound=v), [], {},
                                           node, env))
            return True
        return bool(v)

    def e_BoolOp(self, n, env):
        is_and = isinstance(n.op, ast.And)
        v = None
        for e in n.values:
            v = self.eval(e, env)
            t = self.truth(v, e, env)
            if is_and and not t:
                return v
            if not is_and and t:
                return v
        return v

    def e_UnaryOp(self, n, env):
        v = self.eval(n.operand, env)
        if isinstance(n.op, ast.Not):
            return not self.truth(v, n.operand, env)
        if isinstance(v, Opaque):
            return v
        if isinstance(n.op, ast.USub):
            return -v
        if isinstance(n.op, ast.UAdd):
            return +v
        if isinstance(n.op, ast.Invert):
            return ~v
        raise self.err('unsupported unary operator', n, env.module)

    def e_BinOp(self, n, env):
        a = self.eval(n.left, env)
        b = self.eval(n.right, env)
        if isinstance(a, Opaque) or isinstance(b, Opaque):
            return Opaque('binop')
        if isinstance(n.op, ast.Mod) and isinstance(a, str):
            items = b if isinstance(b, tuple) else (b,)
            concrete = all(x is None or isinstance(
                x, (str, bytes, int, float, bool)) for x in items)
            try:
                return a % (b,) if not isinstance(b, tuple) else a % b
            except (TypeError, ValueError) as e:
                if concrete:
                    # '%d' % None and the like raise at run time
                    raise FoldRaise(type(e).__name__, e.args, n)
                return Opaque('format')
            except Exception:
                return Opaque('format')
        try:
            return BINOPS[type(n.op)](a, b)
        except KeyError:
            raise self.err('unsupported binary operator', n, env.module)
        except TypeError:
            return Opaque('binop-type')

    def e_Compare(self, n, env):
        left = self.eval(n.left, env)
        for op, r in zip(n.ops, n.comparators):
            right = self.eval(r, env)
            if isinstance(left, Opaque) or isinstance(right, Opaque):
                return Opaque('compare')
            try:
                ok = CMPOPS[type(op)](left, right)
            except TypeError:
                return Opaque('compare-type')
            if not ok:
                return False
            left = right
        return True

    def e_Subscript(self, n, env):
        v = self.eval(n.value, env)
        if isinstance(n.slice, ast.Slice):
            lo = self.eval(n.slice.lower, env) if n.slice.lower else None
            hi = self.eval(n.slice.upper, env) if n.slice.upper else None
            step = self.eval(n.slice.step, env) if n.slice.step else None
            if isinstance(v, Opaque):
                return v
            if any(isinstance(x, Opaque) for x in (lo, hi, step)):
                return Opaque('slice')
            return v[lo:hi:step]
        k = self.eval(n.slice, env)
        return self.subscript(v, k, n, env)

    def subscript(self, v, k, n, env):
        if isinstance(v, Opaque) or isinstance(k, Opaque):
            return Opaque('subscript')
        if isinstance(v, ExtInstance) and v.callee == 'class.__dict__':
            ci = v.args[0].ci
            defs = ci.attrs.get(k)
            if not defs:
                raise FoldRaise('KeyError', (k,), n)
            return self.attrdef_value(defs[-1], ClassVal(ci), raw=True)
        try:
            return v[k]
        except KeyError:
            raise FoldRaise('KeyError', (k,), n)
        except IndexError:
            raise FoldRaise('IndexError', (k,), n)
        except TypeError:
            raise self.err('subscript of %r' % (v,), n, env.module)

    def e_Attribute(self, n, env):
        v = self.eval(n.value, env)
        return self.getattr(v, n.attr, n, env.module)

    def e_ListComp(self, n, env):
        return list(self.comp(n, env))

    def e_SetComp(self, n, env):
        return set(self.comp(n, env))

    def e_GeneratorExp(self, n, env):
        return list(self.comp(n, env))

    def e_DictComp(self, n, env):
        out = {}
        for sub in self.comp_envs(n.generators, env):
            out[self.eval(n.key, sub)] = self.eval(n.value, sub)
        return out

    def comp(self, n, env):
        for sub in self.comp_envs(n.generators, env):
            yield self.eval(n.elt, sub)

    def comp_envs(self, gens, env):
        if not gens:
            yield env
            return
        g = gens[0]
        it = self.eval(g.iter, env)
        if isinstance(it, Opaque):
            raise self.err('comprehension over run-time data', g.iter,
                           env.module)
        if isinstance(it, dict):
            it = list(it)
        for item in list(it):
            sub = Env(env.module, parent=env, cls=env.cls)
            self.assign(g.target, item, sub)
            if all(self.truth(self.eval(c, sub), c, sub) for c in g.ifs):
                for e2 in self.comp_envs(gens[1:], sub):
                    yield e2

    # -- attribute access --------------------------------------------------
    def getattr(self, v, attr, node, module):
        if isinstance(v, Opaque):
            return Opaque('attr %s of opaque' % attr)
        if isinstance(v, ModuleVal):
            return self.module_global(v.m, attr, node)
        if isinstance(v, ClassVal):
            return self.class_attr(v, attr, node, module)
        if isinstance(v, Instance):
            if attr in v.attrs:
                return v.attrs[attr]
            ad = self.db.find_attr(v.ci, attr)
            if ad is None:
                raise FoldRaise('AttributeError', (attr,), node)
            val = self.attrdef_value(ad, v)
            return self._through_descriptor(val, v, ClassVal(v.ci), ad, node)
        if isinstance(v, NTVal):
            if attr in v.ntc.fields:
                return v.attr(attr)
            raise self.err('unknown namedtuple attribute %s' % attr, node,
                           module)
        if isinstance(v, ExtVal):
            return ExtVal(v.dotted + '.' + attr)
        if isinstance(v, (dict, list, set, str, tuple, bytes, int)):
            return ('boundmethod', v, attr)
        if isinstance(v, ExtInstance) and v.callee == 'class.__dict__' and \
                attr in ('items', 'keys', 'values', 'get'):
            # the class's own namespace, in definition order
            ci = v.args[0].ci
            d = {}
            for name, defs in ci.attrs.items():
                try:
                    d[name] = self.attrdef_value(defs[-1], ClassVal(ci),
                                                 raw=True)
                except (AnalysisError, FoldRaise):
                    d[name] = Opaque('class attribute %s' % name)
            return ('boundmethod', d, attr)
        if isinstance(v, ExtInstance):
            return Opaque('attr of external object')
        if isinstance(v, FuncVal):
            return Opaque('function attribute')
        raise self.err('attribute %s of %r' % (attr, v), node, module)

    def class_attr(self, cv, attr, node, module, own=None):
        if attr == '__dict__':
            return ExtInstance('class.__dict__', [cv], {})
        if attr == '__name__':
            return cv.ci.name
        if attr == '__mro__':
            # the in-repo linearisation; `object` (no namespace entry a
            # program of this repo reads) is left out, a base from outside
            # the repo is not representable
            from .srcdb import ClassInfo as _CI
            mro = self.db.mro(cv.ci)
            for c in mro:
                for b in c.bases:
                    if not isinstance(b, _CI) and getattr(
                            b, 'dotted', None) != 'object':
                        raise self.err('__mro__ of %s: base %s is not a '
                                       'class of this repository'
                                       % (cv.ci.name, getattr(b, 'dotted',
                                                              b)), node,
                                       module)
            return tuple(ClassVal(c) for c in mro)
        if own is not None:
            defs = own.attrs.get(attr)
            ad = defs[-1] if defs else None
        else:
            ad = self.db.find_attr(cv.ci, attr)
        if ad is None:
            if attr == '__subclasses__':
                return ('subclasses', cv)
            if attr == 'register':       # ABCMeta.register
                return ExtVal('abc.register')
            raise FoldRaise('AttributeError', (attr,), node)
        val = self.attrdef_value(ad, cv)
        return self._through_descriptor(val, None, cv, ad, node)

    def _through_descriptor(self, val, instance, owner, ad, node):
        """A class attribute that was *assigned* an instance of an in-repo
        class with __get__ (id = overridable_property(getter)) is read
        through that __get__, as the interpreter does."""
        if ad.kind != 'assign' or not isinstance(val, Instance):
            return val
        get = self.db.find_method(val.ci, '__get__')
        if get is None:
            return val
        return self.call_func(FuncVal(get, bound=val), [instance, owner], {},
                              node, Env(get.module))

    def attrdef_value(self, ad, receiver, raw=False):
        """Value of a class attribute definition, bound for `receiver`
        (ClassVal or Instance)."""
        reb = self.db.dict_rebinding(ad) if ad.kind == 'assign' else None
        if reb is not None:
            ad = reb
        if ad.kind == 'class':
            return ClassVal(ad.value)
        if ad.kind == 'def':
            fi = ad.value
            if raw:
                return FuncVal(fi)
            k = fi.kind
            if k == 'static':
                return FuncVal(fi)
            if k == 'class':
                cv = receiver if isinstance(receiver, ClassVal) \
                    else ClassVal(receiver.ci)
                return FuncVal(fi, bound=cv)
            if k == 'class_and_instance':
                return FuncVal(fi, bound=receiver)
            if k == 'instance':
                if isinstance(receiver, Instance):
                    return FuncVal(fi, bound=receiver)
                return FuncVal(fi)
            if k.startswith('property') or k == 'descriptor':
                if isinstance(receiver, Instance) and k.startswith(
                        'property'):
                    getter = fi
                    if k != 'property':
                        # the last definition is the setter/deleter: the
                        # getter is the sibling definition of kind property
                        getter = None
                        for d in ad.owner.attrs.get(ad.name, []):
                            if d.kind == 'def' and d.value.kind == 'property':
                                getter = d.value
                    if getter is not None:
                        return self.call_func(
                            FuncVal(getter, bound=receiver), [], {},
                            getter.node, Env(getter.module))
                return Opaque('property %s' % fi.qualname)
            raise AnalysisError('unknown function kind %s' % k, fi.node,
                                rel(fi.path))
        key = id(ad)
        if key in self.attr_cache:
            return self.attr_cache[key]
        busy = self.__dict__.setdefault('_binding', set())
        mark = (id(ad.owner), ad.name)
        fresh = mark not in busy
        busy.add(mark)
        try:
            v = self.eval(ad.value, Env(ad.owner.module, cls=ad.owner))
        finally:
            if fresh:
                busy.discard(mark)
        self.attr_cache[key] = v
        return v

    # -- calls -------------------------------------------------------------
    def e_Call(self, n, env):
        f = self.eval(n.func, env)
        args = self.eval_seq(n.args, env)
        kwargs = {}
        for kw in n.keywords:
            if kw.arg is None:
                kwargs.update(self.eval(kw.value, env))
            else:
                kwargs[kw.arg] = self.eval(kw.value, env)
        return self.call(f, args, kwargs, n, env)

    def call(self, f, args, kwargs, n, env):
        if isinstance(f, FuncVal):
            return self.call_func(f, args, kwargs, n, env)
        if isinstance(f, LambdaVal):
            return self.call_lambda(f, args, kwargs, n)
        if isinstance(f, ClassVal):
            return self.instantiate(f, args, kwargs, n, env)
        if isinstance(f, NTClass):
            vals = list(args) + [kwargs[k] for k in f.fields[len(args):]]
            if len(vals) != len(f.fields):
                raise FoldRaise('TypeError', ('namedtuple arity',), n)
            return NTVal(f, vals)
        if isinstance(f, tuple) and f and f[0] == 'boundmethod':
            return self.call_builtin_method(f[1], f[2], args, kwargs, n, env)
        if isinstance(f, tuple) and f and f[0] == 'subclasses':
            return [ClassVal(c) for c in self.db.classes
                    if f[1].ci in [b for b in c.bases
                                   if isinstance(b, ClassInfo)]]
        if isinstance(f, ExtVal):
            return self.call_external(f, args, kwargs, n, env)
        if isinstance(f, Opaque):
            return Opaque('call of opaque')
        if isinstance(f, ExtInstance):
            r = self.call_library_object(f, args, kwargs, n, env)
            if r is not NotImplemented:
                return r
        raise self.err('call of %r' % (f,), n, env.module)

    def call_library_object(self, f, args, kwargs, n, env):
        """Calls of the callable objects the standard library hands out."""
        c = f.callee
        if c == 'functools.partial':
            kw = dict(f.kwargs)
            kw.update(kwargs)
            return self.call(f.args[0], list(f.args[1:]) + list(args), kw,
                             n, env)
        if c == 'operator.attrgetter' and len(args) == 1 and not kwargs:
            def one(path):
                v = args[0]
                for part in path.split('.'):
                    v = self.getattr(v, part, n, env.module)
                return v
            vals = [one(a) for a in f.args]
            return vals[0] if len(vals) == 1 else tuple(vals)
        if c == 'operator.itemgetter' and len(args) == 1 and not kwargs:
            vals = [self.subscript(args[0], k, n, env) for k in f.args]
            return vals[0] if len(vals) == 1 else tuple(vals)
        if c == 'operator.methodcaller' and len(args) == 1 and not kwargs:
            m = self.getattr(args[0], f.args[0], n, env.module)
            return self.call(m, list(f.args[1:]), dict(f.kwargs), n, env)
        return NotImplemented

    def call_external(self, f, args, kwargs, n, env):
        d = f.dotted
        base = d.split('.')[-1]
        r = self.call_library(d, args, kwargs, n, env)
        if r is not NotImplemented:
            return r
        if d.startswith('builtins.'):
            if base in ('staticmethod', 'classmethod'):
                return args[0]
            if base == 'isinstance':
                return self.isinstance(args[0], args[1], n, env)
            if base == 'getattr':
                try:
                    return self.getattr(args[0], args[1], n, env.module)
                except FoldRaise:
                    if len(args) > 2:
                        return args[2]
                    raise
            if base == 'vars' and len(args) == 1 and not kwargs:
                return self.getattr(args[0], '__dict__', n, env.module)
            if base == 'hasattr':
                try:
                    self.getattr(args[0], args[1], n, env.module)
                    return True
                except FoldRaise:
                    return False
            if base == 'setattr':
                if isinstance(args[0], Instance):
                    args[0].attrs[args[1]] = args[2]
                    return None
                return Opaque('setattr')
            if base == 'map':
                return [self.call(args[0], [x], {}, n, env)
                        for x in list(args[1])]
            if base in ('max', 'min') and 'key' in kwargs:
                key = kwargs['key']
                items = list(args[0]) if len(args) == 1 else list(args)
                keyed = [(self.call(key, [x], {}, n, env), i, x)
                         for i, x in enumerate(items)]
                if any(isinstance(k[0], Opaque) for k in keyed):
                    return Opaque('max/min')
                pick = max if base == 'max' else min
                # first maximal element, like the builtin
                best = keyed[0]
                for k in keyed[1:]:
                    if (k[0] > best[0]) if base == 'max' else (k[0] < best[0]):
                        best = k
                return best[2]
            if base == 'sorted' and len(args) == 1 and set(kwargs) <= {
                    'key', 'reverse'} and not isinstance(args[0], Opaque):
                items = list(args[0])
                key = kwargs.get('key')
                rev = kwargs.get('reverse', False)
                if isinstance(rev, Opaque):
                    return Opaque('sorted')
                keys = items if key is None else [
                    self.call(key, [x], {}, n, env) for x in items]
                if any(isinstance(k, (Opaque, ExtInstance)) for k in keys):
                    return Opaque('sorted')
                try:
                    order = sorted(range(len(items)), key=keys.__getitem__,
                                   reverse=bool(rev))
                except TypeError as e:
                    raise FoldRaise('TypeError', e.args, n)
                return [items[i] for i in order]
            if base in EXC_NAMES:
                return ExtInstance(d, args, kwargs)
            if base == 'bool' and len(args) == 1:
                if isinstance(args[0], Opaque):
                    return Opaque('bool')
                return self.truth(args[0], n, env)
            if base in SAFE_BUILTINS:
                if any(isinstance(a, (Opaque, ExtInstance)) for a in args):
                    return Opaque(base)
                try:
                    r = SAFE_BUILTINS[base](*args, **kwargs)
                except TypeError as e:
                    raise self.err('builtin %s failed: %s' % (base, e), n,
                                   env.module)
                if base in ('zip', 'reversed', 'enumerate', 'range'):
                    r = list(r)
                return r
            if base in ('property', 'object', 'super', 'type', 'print'):
                return ExtInstance(d, args, kwargs)
            return ExtInstance(d, args, kwargs)
        if d in ('collections.OrderedDict',):
            return dict(*args, **kwargs)
        if d in ('collections.OrderedDict.fromkeys', 'builtins.dict.fromkeys',
                 'dict.fromkeys') and len(args) in (1, 2) and not kwargs:
            if isinstance(args[0], Opaque):
                return Opaque('fromkeys')
            try:
                return dict.fromkeys(list(args[0]), *args[1:])
            except TypeError as e:
                raise FoldRaise('TypeError', e.args, n)
        if d == 'itertools.groupby' and len(args) == 1 and not kwargs:
            # groups of adjacent equal items (no key): (item, [items])
            if isinstance(args[0], Opaque):
                return Opaque('groupby')
            out = []
            for x in list(args[0]):
                if isinstance(x, Opaque):
                    return Opaque('groupby')
                if out and out[-1][0] == x:
                    out[-1][1].append(x)
                else:
                    out.append((x, [x]))
            return out

        if d == 'collections.namedtuple':
            fields = args[1]
            if isinstance(fields, str):
                fields = fields.replace(',', ' ').split()
            return NTClass(args[0], fields)
        if d == 're.match':
            if any(isinstance(a, Opaque) for a in args):
                return Opaque('re.match')
            return _re.match(*args) is not None and ExtInstance(
                're.Match', args, {}) or None
        if d == 'abc.register':
            return args[0] if args else None
        return ExtInstance(d, args, kwargs)

    def call_library(self, d, args, kwargs, n, env):
        """The pure functions of operator / functools / itertools and the
        lazy builtins, over folded values (iterables are lists here)."""
        opaque = any(isinstance(a, Opaque) for a in args)
        if d.startswith('operator.') or d.startswith('_operator.'):
            nm = d.split('.', 1)[1].strip('_')
            if nm.startswith('i') and nm[1:] in OPERATOR_BIN and \
                    nm not in OPERATOR_BIN:
                nm = nm[1:]
            if nm in OPERATOR_BIN and len(args) == 2:
                if opaque:
                    return Opaque(d)
                a, b = args
                if nm == 'mod' and isinstance(a, str):
                    try:
                        return a % (b,) if not isinstance(b, tuple) else a % b
                    except Exception:
                        return Opaque('format')
                try:
                    return OPERATOR_BIN[nm](a, b)
                except TypeError:
                    return Opaque(d)
            if nm in OPERATOR_UN and len(args) == 1:
                if nm == 'not':
                    return not self.truth(args[0], n, env)
                if nm == 'truth':
                    return self.truth(args[0], n, env)
                return Opaque(d) if opaque else OPERATOR_UN[nm](args[0])
            if nm == 'getitem' and len(args) == 2:
                return self.subscript(args[0], args[1], n, env)
            if nm == 'contains' and len(args) == 2:
                return Opaque(d) if opaque else args[1] in args[0]
            return NotImplemented
        if d == 'functools.reduce':
            items = list(args[1])
            if len(args) > 2:
                acc = args[2]
            elif items:
                acc, items = items[0], items[1:]
            else:
                raise FoldRaise('TypeError', ('reduce of empty',), n)
            for x in items:
                acc = self.call(args[0], [acc, x], {}, n, env)
            return acc
        if d in ('builtins.any', 'builtins.all') and len(args) == 1 and \
                not kwargs:
            if isinstance(args[0], Opaque):
                return Opaque(d)
            want = d == 'builtins.any'
            for x in list(args[0]):
                # truth of folded values (an instance may define __bool__)
                if self.truth(x, n, env) is want:
                    return want
            return not want
        if d == 'builtins.next':
            if isinstance(args[0], Opaque):
                return Opaque('next')
            items = list(args[0])
            if items:
                return items[0]
            if len(args) > 1:
                return args[1]
            raise FoldRaise('StopIteration', (), n)
        if d == 'builtins.iter' and len(args) == 1:
            return args[0] if isinstance(args[0], Opaque) else list(args[0])
        if d == 'builtins.filter':
            if isinstance(args[1], Opaque):
                return Opaque('filter')
            return [x for x in list(args[1])
                    if self.truth(x if args[0] is None else self.call(
                        args[0], [x], {}, n, env), n, env)]
        if d.startswith('itertools.'):
            if opaque:
                return Opaque(d)
            nm = d.split('.', 1)[1]
            if nm == 'chain':
                return [x for a in args for x in list(a)]
            if nm == 'chain.from_iterable':
                return [x for a in list(args[0]) for x in list(a)]
            if nm == 'compress':
                return [x for x, sel in zip(list(args[0]), list(args[1]))
                        if self.truth(sel, n, env)]
            if nm in ('dropwhile', 'takewhile', 'filterfalse'):
                items = list(args[1])
                flags = [self.truth(self.call(args[0], [x], {}, n, env), n,
                                    env) for x in items]
                if nm == 'filterfalse':
                    return [x for x, f in zip(items, flags) if not f]
                k = 0
                while k < len(items) and flags[k]:
                    k += 1
                return items[k:] if nm == 'dropwhile' else items[:k]
            if nm == 'islice' and len(args) in (2, 3, 4):
                return list(list(args[0])[slice(*args[1:])])
            if nm == 'accumulate':
                items, out = list(args[0]), []
                fn = args[1] if len(args) > 1 else kwargs.get('func')
                for x in items:
                    out.append(x if not out else (
                        out[-1] + x if fn is None else self.call(
                            fn, [out[-1], x], {}, n, env)))
                return out
            if nm == 'starmap':
                return [self.call(args[0], list(x), {}, n, env)
                        for x in list(args[1])]
            if nm == 'repeat' and len(args) == 2:
                return [args[0]] * args[1]
            if nm == 'product' and not kwargs:
                import itertools as _it
                return [tuple(x) for x in _it.product(
                    *[list(a) for a in args])]
            if nm == 'zip_longest':
                import itertools as _it
                return [tuple(x) for x in _it.zip_longest(
                    *[list(a) for a in args], **kwargs)]
            return NotImplemented
        return NotImplemented

    def isinstance(self, v, t, n, env):
        if isinstance(v, Opaque):
            return Opaque('isinstance')
        types = t if isinstance(t, tuple) else (t,)
        for ty in types:
            if isinstance(ty, ExtVal):
                nm = ty.dotted.split('.')[-1]
                pyt = {'str': str, 'int': int, 'bool': bool, 'bytes': bytes,
                       'tuple': tuple, 'list': list, 'dict': dict,
                       'float': float, 'type': type}.get(nm)
                if pyt is None:
                    raise self.err('isinstance against %s' % ty.dotted, n,
                                   env.module)
                if pyt is type:
                    if isinstance(v, ClassVal):
                        return True
                    continue
                if isinstance(v, pyt) and not isinstance(
                        v, (Instance, ClassVal)):
                    return True
            elif isinstance(ty, ClassVal):
                if isinstance(v, Instance) and \
                        self.db.is_subclass(v.ci, ty.ci):
                    return True
        return False

    def call_builtin_method(self, obj, name, args, kwargs, n, env):
        if any(isinstance(a, Opaque) for a in args):
            if name in ('append', 'add', 'insert', 'extend', 'update'):
                getattr(obj, name)(*args)
                return None
            return Opaque('method %s with opaque arg' % name)
        if name in ('items', 'keys', 'values') and isinstance(obj, dict):
            return list(getattr(obj, name)())
        if name == 'format' or name == 'join':
            try:
                return getattr(obj, name)(*args, **kwargs)
            except Exception:
                return Opaque('str.%s' % name)
        if name == 'sort' and isinstance(obj, list) and not args and \
                set(kwargs) <= {'key', 'reverse'} and kwargs.get(
                    'key') is not None:
            # the key is a folded callable: compute the keys here
            keys = [self.call(kwargs['key'], [x], {}, n, env) for x in obj]
            if any(isinstance(k, (Opaque, ExtInstance)) for k in keys) or \
                    isinstance(kwargs.get('reverse'), Opaque):
                return Opaque('sort')
            try:
                order = sorted(range(len(obj)), key=keys.__getitem__,
                               reverse=bool(kwargs.get('reverse', False)))
            except TypeError as e:
                raise FoldRaise('TypeError', e.args, n)
            obj[:] = [obj[i] for i in order]
            return None
        try:
            meth = getattr(obj, name)
        except AttributeError:
            raise FoldRaise('AttributeError', (name,), n)
        try:
            return meth(*args, **kwargs)
        except KeyError as e:
            raise FoldRaise('KeyError', e.args, n)
        except (TypeError, ValueError, IndexError) as e:
            raise FoldRaise(type(e).__name__, e.args, n)

    def instantiate(self, cv, args, kwargs, n, env):
        inst = Instance(cv.ci, {}, (list(args), dict(kwargs)))
        init = self.db.find_method(cv.ci, '__init__')
        if init is not None:
            self.call_func(FuncVal(init, bound=inst), args, kwargs, n, env)
        return inst

    def bind_args(self, fnode, args, kwargs, n, module, qual):
        a = fnode.args
        names = [x.arg for x in a.posonlyargs + a.args]
        vals = {}
        args = list(args)
        kwargs = dict(kwargs)
        if len(args) > len(names) and a.vararg is None:
            raise FoldRaise('TypeError', ('%s takes %d positional arguments '
                                          'but %d were given'
                                          % (qual, len(names), len(args)),), n)
        for nm, v in zip(names, args):
            vals[nm] = v
        extra = args[len(names):]
        defaults = a.defaults
        first_default = len(names) - len(defaults)
        for i, nm in enumerate(names):
            if nm in vals:
                if nm in kwargs:
                    raise FoldRaise('TypeError', ('multiple values for %s'
                                                  % nm,), n)
                continue
            if nm in kwargs:
                vals[nm] = kwargs.pop(nm)
            elif i >= first_default:
                vals[nm] = ('default', defaults[i - first_default])
            else:
                raise FoldRaise('TypeError', ('%s missing argument %s'
                                              % (qual, nm),), n)
        for kwn, kwd in zip(a.kwonlyargs, a.kw_defaults):
            if kwn.arg in kwargs:
                vals[kwn.arg] = kwargs.pop(kwn.arg)
            elif kwd is not None:
                vals[kwn.arg] = ('default', kwd)
            else:
                raise FoldRaise('TypeError', ('missing kw-only %s'
                                              % kwn.arg,), n)
        if a.vararg is not None:
            vals[a.vararg.arg] = tuple(extra)
        if a.kwarg is not None:
            vals[a.kwarg.arg] = kwargs
        elif kwargs:
            raise FoldRaise('TypeError', ('%s got unexpected keyword %s'
                                          % (qual, sorted(kwargs)[0]),), n)
        return vals

    def call_func(self, f, args, kwargs, n, env):
        fi = f.fi
        args = list(args)
        if f.bound is not None:
            args = [f.bound] + args
        memo_key = None
        body = fi.body
        if len(body) <= 2 and isinstance(body[-1], ast.Return) and \
                f.closure is None:
            try:
                memo_key = (id(fi), tuple(_hashable(a) for a in args),
                            tuple(sorted((k, _hashable(v))
                                         for k, v in kwargs.items())))
                hash(memo_key)
            except TypeError:
                memo_key = None
            if memo_key is not None and memo_key in self.memo:
                return self.memo[memo_key]
        parent = f.closure
        fenv = Env(fi.module, parent=parent,
                   cls=None)
        vals = self.bind_args(fi.node, args, kwargs, n, fi.module,
                              fi.qualname)
        for k, v in vals.items():
            if isinstance(v, tuple) and len(v) == 2 and v[0] == 'default':
                v = self.eval(v[1], Env(fi.module, cls=fi.cls))
            fenv.vars[k] = v
        self.depth += 1
        if self.depth > 60:
            raise AnalysisError('fold recursion too deep at %s' % fi.qualname)
        is_gen = any(isinstance(x, (ast.Yield, ast.YieldFrom))
                     for st in body for x in ast.walk(st))
        if is_gen:
            # a generator function over concrete values: evaluated eagerly,
            # its elements handed out as a list (the same elements in the
            # same order; if producing them raises, a lazy consumer might
            # never have got that far -- not decided)
            fenv.vars['$yield'] = []
        try:
            self.exec_block(body, fenv, fi)
            res = None
        except _Return as r:
            res = r.value
        except FoldRaise as e:
            if is_gen:
                raise AnalysisError('generator %s raises %s while its '
                                    'elements are folded' % (
                                        fi.qualname, e.exc_type))
            raise
        finally:
            self.depth -= 1
        if is_gen:
            return list(fenv.vars['$yield'])
        if memo_key is not None:
            self.memo[memo_key] = res
        return res

    def call_lambda(self, lv, args, kwargs, n):
        fenv = Env(lv.module, parent=lv.env, cls=lv.env.cls if lv.env else None)
        vals = self.bind_args(lv.node, args, kwargs, n, lv.module, '<lambda>')
        for k, v in vals.items():
            if isinstance(v, tuple) and len(v) == 2 and v[0] == 'default':
                v = self.eval(v[1], lv.env)
            fenv.vars[k] = v
        return self.eval(lv.node.body, fenv)

    # -- statements --------------------------------------------------------
    def exec_block(self, stmts, env, fi=None):
        for st in stmts:
            self.exec(st, env, fi)

    def exec(self, st, env, fi):
        self.steps += 1
        if isinstance(st, ast.Return):
            raise _Return(self.eval(st.value, env) if st.value else None)
        if isinstance(st, ast.Expr):
            if isinstance(st.value, ast.Constant):
                return
            self.eval(st.value, env)
            return
        if isinstance(st, ast.Assign):
            v = self.eval(st.value, env)
            for t in st.targets:
                self.assign(t, v, env)
            return
        if isinstance(st, ast.AugAssign):
            cur = self.eval(st.target, env)
            rhs = self.eval(st.value, env)
            if isinstance(cur, Opaque) or isinstance(rhs, Opaque):
                new = Opaque('augassign')
            elif isinstance(st.op, ast.BitOr) and isinstance(cur, set):
                cur |= rhs
                new = cur
            elif isinstance(st.op, ast.Add) and isinstance(cur, list):
                cur += list(rhs)
                new = cur
            else:
                new = BINOPS[type(st.op)](cur, rhs)
            self.assign(st.target, new, env)
            return
        if isinstance(st, ast.If):
            c = self.truth(self.eval(st.test, env), st.test, env)
            self.exec_block(st.body if c else st.orelse, env, fi)
            return
        if isinstance(st, ast.For):
            it = self.eval(st.iter, env)
            if isinstance(it, Opaque):
                raise self.err('loop over run-time data in folded code',
                               st, env.module)
            if isinstance(it, dict):
                it = list(it)
            broke = False
            for item in list(it):
                self.assign(st.target, item, env)
                try:
                    self.exec_block(st.body, env, fi)
                except _Continue:
                    continue
                except _Break:
                    broke = True
                    break
            if not broke:
                self.exec_block(st.orelse, env, fi)
            return
        if isinstance(st, ast.While):
            n_iter = 0
            broke = False
            while self.truth(self.eval(st.test, env), st.test, env):
                n_iter += 1
                if n_iter > 100000:
                    raise self.err('while loop does not fold to a bounded '
                                   'iteration', st, env.module)
                try:
                    self.exec_block(st.body, env, fi)
                except _Continue:
                    continue
                except _Break:
                    broke = True
                    break
            if not broke:
                self.exec_block(st.orelse, env, fi)
            return
        if isinstance(st, ast.Continue):
            raise _Continue()
        if isinstance(st, ast.Break):
            raise _Break()
        if isinstance(st, ast.Pass):
            return
        if isinstance(st, ast.Raise):
            exc = self.eval(st.exc, env) if st.exc else None
            if isinstance(exc, ExtInstance):
                raise FoldRaise(exc.callee.split('.')[-1], exc.args, st)
            if isinstance(exc, ExtVal):
                raise FoldRaise(exc.dotted.split('.')[-1], (), st)
            if isinstance(exc, Instance):
                raise FoldRaise(exc.ci.name, (exc,), st)
            if isinstance(exc, ClassVal):
                raise FoldRaise(exc.ci.name, (), st)
            raise FoldRaise('Exception', (exc,), st)
        if isinstance(st, (ast.FunctionDef,)):
            sub = None
            for cand in self.db.funcs:
                if cand.node is st:
                    sub = cand
                    break
            if sub is None:
                raise self.err('nested function not indexed', st, env.module)
            env.vars[st.name] = FuncVal(sub, closure=env)
            return
        if isinstance(st, ast.ClassDef):
            env.vars[st.name] = Opaque('local class %s' % st.name)
            return
        if isinstance(st, ast.Assert):
            return
        if isinstance(st, ast.Try):
            return self.exec_try(st, env, fi)
        if isinstance(st, ast.Global):
            for nm in st.names:
                env.vars[('global', nm)] = True
            return
        raise self.err('unsupported statement %s in folded code'
                       % type(st).__name__, st, env.module)

    BUILTIN_EXC_BASES = {
        'KeyError': ('LookupError',), 'IndexError': ('LookupError',),
        'NotImplementedError': ('RuntimeError',),
        'IOError': ('OSError', 'EnvironmentError'),
        'OSError': ('IOError', 'EnvironmentError'),
        'UnicodeDecodeError': ('UnicodeError', 'ValueError'),
        'ZeroDivisionError': ('ArithmeticError',),
        'OverflowError': ('ArithmeticError',)}

    def handler_matches(self, h, r, env):
        if h.type is None:
            return True
        names = []
        for t in (h.type.elts if isinstance(h.type, ast.Tuple)
                  else [h.type]):
            if isinstance(t, ast.Name):
                names.append(t.id)
            elif isinstance(t, ast.Attribute):
                names.append(t.attr)
            else:
                raise self.err('computed exception class in a handler of '
                               'folded code', h, env.module)
        have = {r.exc_type, 'Exception', 'BaseException'}
        have.update(self.BUILTIN_EXC_BASES.get(r.exc_type, ()))
        for ci in self.db.classes:
            if ci.name == r.exc_type:
                for b in self.db.mro(ci) if hasattr(self.db, 'mro') else []:
                    have.add(b.name)
                    for bn in b.node.bases:
                        if isinstance(bn, ast.Name):
                            have.add(bn.id)
                            have.update(self.BUILTIN_EXC_BASES.get(bn.id, ()))
        return any(nm in have for nm in names)

    def exec_try(self, st, env, fi):
        """try/except/else/finally over folded code.  Which handler runs is
        decided from the exception the folded body raises; a body that
        touches run-time data could raise what the fold cannot see, so that
        is not folded."""
        try:
            made = Opaque.made
            try:
                self.exec_block(st.body, env, fi)
            except FoldRaise as r:
                for h in st.handlers:
                    if self.handler_matches(h, r, env):
                        if h.name:
                            env.vars[h.name] = Opaque('caught exception')
                        self.exec_block(h.body, env, fi)
                        break
                else:
                    raise
            else:
                if st.handlers and Opaque.made != made:
                    raise self.err('try body over run-time data in folded '
                                   'code', st, env.module)
                self.exec_block(st.orelse, env, fi)
        finally:
            self.exec_block(st.finalbody, env, fi)

    def assign(self, t, v, env):
        if isinstance(t, ast.Name):
            if env.lookup(('global', t.id))[0]:
                self.globals_cache[(env.module.name, t.id)] = v
            else:
                env.vars[t.id] = v
        elif isinstance(t, (ast.Tuple, ast.List)):
            if isinstance(v, Opaque):
                for e in t.elts:
                    self.assign(e, Opaque('unpack'), env)
                return
            vals = list(v)
            if len(vals) != len(t.elts):
                raise FoldRaise('ValueError', ('unpack',), t)
            for e, x in zip(t.elts, vals):
                self.assign(e, x, env)
        elif isinstance(t, ast.Attribute):
            obj = self.eval(t.value, env)
            if isinstance(obj, Instance):
                setter = None
                for c in self.db.mro(obj.ci):
                    defs = c.attrs.get(t.attr)
                    if defs:
                        for d in defs:
                            if d.kind == 'def' and \
                                    d.value.kind == 'property_setter':
                                setter = d.value
                        break
                if setter is not None:
                    self.call_func(FuncVal(setter, bound=obj), [v], {}, t,
                                   env)
                else:
                    obj.attrs[t.attr] = v
            elif isinstance(obj, Opaque):
                pass
            else:
                raise self.err('attribute store on %r' % (obj,), t,
                               env.module)
        elif isinstance(t, ast.Subscript):
            obj = self.eval(t.value, env)
            k = self.eval(t.slice, env)
            if isinstance(obj, Opaque):
                return
            if isinstance(k, Opaque):
                raise self.err('store under run-time key', t, env.module)
            obj[k] = v
        else:
            raise self.err('unsupported assignment target', t, env.module)

    # -- convenience ---------------------------------------------------------
    def context(self, version):
        ci = self.db.get_class('minecraft.networking.connection',
                               'ConnectionContext')
        return self.instantiate(ClassVal(ci), [],
                                {'protocol_version': version}, ci.node,
                                Env(ci.module))

    def tables(self):
        m = self.db.modules['minecraft']
        names = ['KNOWN_MINECRAFT_VERSION_RECORDS', 'KNOWN_MINECRAFT_VERSIONS',
                 'SUPPORTED_MINECRAFT_VERSIONS', 'RELEASE_MINECRAFT_VERSIONS',
                 'KNOWN_PROTOCOL_VERSIONS', 'SUPPORTED_PROTOCOL_VERSIONS',
                 'RELEASE_PROTOCOL_VERSIONS', 'PROTOCOL_VERSION_INDICES']
        return {n: self.module_global(m, n) for n in names}
