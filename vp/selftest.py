"""Tests the checkers both ways (not part of any verdict).

For each catalogue entry a scratch copy of /repo's package is made under
mktemp (outside /repo and /verif, removed afterwards), one edit applied, the
edited file compiled, and the property's check run against it:
  mutant  -> must print VIOLATION (exit 1) naming the expected rule
  twin    -> must stay silent (exit 0)
  undecided -> must end in ANALYSIS-ERROR (exit 2)
Seeded patches under /verif/seeded/*/patch.diff are run the same way.

  python -m vp.selftest [--only C06] [--jobs 16] [--seeded]
"""
import argparse
import json
import os
import py_compile
import shutil
import subprocess
import sys
import tempfile
from concurrent.futures import ThreadPoolExecutor

from .common import VERIF, REPO

PY = sys.executable


def make_copy():
    d = tempfile.mkdtemp(prefix='vpself-')
    shutil.copytree(os.path.join(REPO, 'minecraft'),
                    os.path.join(d, 'minecraft'),
                    ignore=shutil.ignore_patterns('__pycache__'))
    shutil.copy(os.path.join(REPO, 'README.rst'), d)
    return d


def apply_edit(d, m):
    edits = m.get('edits') or [dict(file=m['file'], find=m['find'],
                                    repl=m['repl'], count=m.get('count', 1))]
    for e in edits:
        path = os.path.join(d, e['file'])
        s = open(path).read()
        cnt = s.count(e['find'])
        if cnt != e.get('count', 1):  # noqa
            return 'edit anchor %r occurs %d times in %s' % (
                e['find'][:50], cnt, e['file'])
        s = s.replace(e['find'], e['repl'])
        open(path, 'w').write(s)
        try:
            compile(s, path, 'exec')
        except SyntaxError as ex:
            return 'mutant does not compile: %s' % ex
    return None


def run_check(d, pid, tier='quick'):
    out = os.path.join(d, '_out')
    env = dict(os.environ, PYCRAFT_REPO=d, VP_OUT=out)
    p = subprocess.run([PY, '-m', 'vp.check', pid, '--tier', tier],
                       cwd=VERIF, env=env, capture_output=True, text=True)
    return p.returncode, p.stdout + p.stderr


def run_one(m):
    d = make_copy()
    try:
        err = apply_edit(d, m)
        if err:
            return dict(id=m['id'], ok=False, status='HARNESS', detail=err)
        rc, out = run_check(d, m['prop'], m.get('tier', 'quick'))
        exp = m.get('expect', 'violation')
        want_rc = {'violation': 1, 'silent': 0, 'undecided': 2}[exp]
        ok = rc == want_rc
        rule = m.get('rule')
        if ok and exp == 'violation' and rule:
            ok = any(('[%s]' % rule) in ln for ln in out.splitlines()
                     if ln.startswith('FINDING'))
        findings = [ln for ln in out.splitlines()
                    if ln.startswith(('FINDING', 'ANALYSIS-ERROR'))]
        return dict(id=m['id'], prop=m['prop'], ok=ok, expect=exp, rc=rc,
                    status='ok' if ok else 'MISS',
                    detail='\n'.join(findings[:4])[:700])
    finally:
        shutil.rmtree(d, ignore_errors=True)


def run_seeded(sd):
    meta = json.load(open(os.path.join(sd, 'meta.json')))
    d = tempfile.mkdtemp(prefix='vpseed-')
    try:
        shutil.copytree(os.path.join(REPO, 'minecraft'),
                        os.path.join(d, 'minecraft'),
                        ignore=shutil.ignore_patterns('__pycache__'))
        shutil.copy(os.path.join(REPO, 'README.rst'), d)
        p = subprocess.run(['patch', '-p1', '-s', '-i',
                            os.path.join(sd, 'patch.diff')], cwd=d,
                           capture_output=True, text=True)
        if p.returncode != 0:
            return dict(id=os.path.basename(sd), ok=False, status='HARNESS',
                        detail=(p.stdout + p.stderr)[:300])
        res = {}
        props = meta.get('detected_by_checks_of') or [meta['property']]
        if meta.get('expect') == 'silent':
            # a behaviour-preserving refactoring: no check may raise an alarm
            ids = [json.loads(l)['id'] for l in open(os.path.join(
                VERIF, 'properties.jsonl'))]
            alarms = []
            for pid in ids:
                rc, out = run_check(d, pid)
                res[pid] = rc
                if rc == 1:
                    alarms.append(pid)
            okall = not alarms
            return dict(id=os.path.basename(sd), prop=meta['property'],
                        ok=okall, status='ok' if okall else 'FALSE-ALARM',
                        rc={k: v for k, v in res.items() if v},
                        expect='silent', detail=' '.join(alarms))
        okall = False
        details = []
        for pid in props:
            rc, out = run_check(d, pid)
            res[pid] = rc
            if rc == 1:
                okall = True
            details += [ln for ln in out.splitlines()
                        if ln.startswith(('FINDING', 'ANALYSIS-ERROR'))][:2]
        exp = meta.get('expect', 'violation')
        if exp == 'missed':
            okall = not okall
        return dict(id=os.path.basename(sd), prop=meta['property'], ok=okall,
                    status='ok' if okall else 'MISS', rc=res, expect=exp,
                    detail='\n'.join(details)[:600])
    finally:
        shutil.rmtree(d, ignore_errors=True)


def main(argv=None):
    ap = argparse.ArgumentParser()
    ap.add_argument('--only', default=None)
    ap.add_argument('--jobs', type=int, default=16)
    ap.add_argument('--seeded', action='store_true')
    ap.add_argument('--id', default=None)
    args = ap.parse_args(argv)
    from .mutants import MUTANTS
    todo = [m for m in MUTANTS
            if (not args.only or m['prop'] in args.only.split(','))
            and (not args.id or args.id in m['id'])]
    results = []
    with ThreadPoolExecutor(max_workers=args.jobs) as ex:
        results = list(ex.map(run_one, todo))
    if args.seeded or not (args.only or args.id):
        sroot = os.path.join(VERIF, 'seeded')
        if os.path.isdir(sroot):
            sds = [os.path.join(sroot, x) for x in sorted(os.listdir(sroot))
                   if os.path.exists(os.path.join(sroot, x, 'patch.diff'))]
            with ThreadPoolExecutor(max_workers=args.jobs) as ex:
                results += list(ex.map(run_seeded, sds))
    bad = [r for r in results if not r['ok']]
    for r in results:
        print('%-8s %-44s %s' % (r['status'], r['id'],
                                 '' if r['ok'] else
                                 ('expected %s got rc=%s\n    %s' % (
                                     r.get('expect'), r.get('rc'),
                                     r.get('detail', '').replace('\n',
                                                                 '\n    ')))))
    print('%d entries, %d as expected, %d not' % (
        len(results), len(results) - len(bad), len(bad)))
    und = [(r['id'], sorted(k for k, v in r['rc'].items() if v == 2))
           for r in results if r.get('expect') == 'silent'
           and isinstance(r.get('rc'), dict)
           and any(v == 2 for v in r['rc'].values())]
    if und:
        print('behaviour-preserving variants a check could not decide '
              '(exit 2, no alarm): %d cells -- %s' % (
                  sum(len(c) for _, c in und),
                  ', '.join('%s:%s' % (i, '+'.join(c)) for i, c in und)))
    if not (args.only or args.id):
        with open(os.path.join(VERIF, 'selftest_report.json'), 'w') as fh:
            json.dump(results, fh, indent=1)
    return 1 if bad else 0


if __name__ == '__main__':
    sys.exit(main())
