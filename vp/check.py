"""Entry point:  python -m vp.check <ID> [--tier quick|thorough] [--replay p]

Parses /repo afresh on every run.  Exit 0 held, 1 + VIOLATION line, 2 +
ANALYSIS-ERROR (analysis does not understand the tree: never a pass)."""
import argparse
import importlib
import json
import os
import sys
import traceback

from .common import AnalysisError, Report, finish, REPO

LEVELS = {'C04': 'proof', 'C06': 'proof', 'C08': 'proof'}


def main(argv=None):
    ap = argparse.ArgumentParser()
    ap.add_argument('pid')
    ap.add_argument('--tier', default=os.environ.get('VERIF_TIER') or 'quick',
                    choices=['quick', 'thorough'])
    ap.add_argument('--replay', default=None)
    args = ap.parse_args(argv)
    pid = args.pid.upper()
    cmd = 'cd /verif && /venv/bin/python -m vp.check %s --tier %s' % (
        pid, args.tier)
    report = Report(pid, args.tier, LEVELS.get(pid, 'other'))
    only = None
    if args.replay:
        rec = json.load(open(args.replay))
        only = rec.get('key')
        print('replaying %s (%s)' % (only, rec.get('message')))
    try:
        mod = importlib.import_module('vp.props.%s' % pid.lower())
        from . import srcdb
        db = srcdb.load(REPO)
        st = db.norm_stats
        if st is not None:
            report.note('normal form (E0)', '%d helper call(s) inlined%s, %d '
                        'module constant use(s), %d stable alias(es) and %d '
                        'single-use temporaries substituted' % (
                            st['inlined_calls'] + st['inlined_generators'],
                            (' (' + ', '.join(st['helpers']) + ')')
                            if st['helpers'] else '', st['constants'],
                            st['copies'], st['temps']))
        # E12: a remembered answer must be determined by its key
        from . import memo
        from .callgraph import CallGraph
        memo.check_property(report, db, CallGraph(db), pid)
        mod.run(report, db, args.tier)
        from . import pathsum
        for fn, k in sorted(pathsum.RUNS.items()):
            report.note('path summaries (E11)', '%s: %d' % (fn, k))
        if only is not None:
            report.violations = [f for f in report.violations
                                 if f.key == only]
            if not report.violations:
                print('replay: finding %s no longer reported' % only)
        return finish(report, cmd)
    except AnalysisError as e:
        if report.violations:
            # rules that ran to completion already found violations; those
            # findings stand on their own.  The part of the analysis that
            # could not follow the tree is reported alongside.
            print('ANALYSIS-INCOMPLETE property=%s %s (findings of the '
                  'completed rules follow)' % (pid, e))
            if only is not None:
                report.violations = [f for f in report.violations
                                     if f.key == only]
            return finish(report, cmd) or 2
        print('ANALYSIS-ERROR property=%s %s' % (pid, e))
        return 2
    except Exception:
        tb = traceback.format_exc()
        print('ANALYSIS-ERROR property=%s internal error in the checker:\n%s'
              % (pid, tb))
        return 2


if __name__ == '__main__':
    sys.exit(main())
