"""Mutant / benign-twin catalogue for vp.selftest (DESIGN appendix B).
Each entry is one textual edit of /repo's package applied to a scratch copy.
expect: violation (default) | silent (benign twin) | undecided (exit 2)."""

CB_PLAY = 'minecraft/networking/packets/clientbound/play/__init__.py'
SB_PLAY = 'minecraft/networking/packets/serverbound/play/__init__.py'
CB_LOGIN = 'minecraft/networking/packets/clientbound/login/__init__.py'
SB_LOGIN = 'minecraft/networking/packets/serverbound/login/__init__.py'
CONN = 'minecraft/networking/connection.py'
BASIC = 'minecraft/networking/types/basic.py'
INIT = 'minecraft/__init__.py'
UTIL = 'minecraft/utility.py'
PACKET = 'minecraft/networking/packets/packet.py'
ENC = 'minecraft/networking/encryption.py'
AUTH = 'minecraft/authentication.py'
BLOCK = 'minecraft/networking/packets/clientbound/play/block_change_packet.py'
COMBAT = 'minecraft/networking/packets/clientbound/play/combat_event_packet.py'
MAP = 'minecraft/networking/packets/clientbound/play/map_packet.py'
PLIST = 'minecraft/networking/packets/clientbound/play/player_list_item_packet.py'
PPL = ('minecraft/networking/packets/clientbound/play/'
       'player_position_and_look_packet.py')
FACE = 'minecraft/networking/packets/clientbound/play/face_player_packet.py'
SPAWN = 'minecraft/networking/packets/clientbound/play/spawn_object_packet.py'
SOUND = 'minecraft/networking/packets/clientbound/play/sound_effect_packet.py'
EXPL = 'minecraft/networking/packets/clientbound/play/explosion_packet.py'
JOIN = ('minecraft/networking/packets/clientbound/play/'
        'join_game_and_respawn_packets.py')
KEEP = 'minecraft/networking/packets/keep_alive_packet.py'
LISTENER = 'minecraft/networking/packets/packet_listener.py'
TUTIL = 'minecraft/networking/types/utility.py'
MUTIL = 'minecraft/utility.py'

MUTANTS = []


def M(id, prop, file, find, repl, expect='violation', rule=None, **kw):
    MUTANTS.append(dict(id=id, prop=prop, file=file, find=find, repl=repl,
                        expect=expect, rule=rule, **kw))


# ---------------------------------------------------------------- C06
M('C06-chat-317', 'C06', CB_PLAY,
  "0x10 if context.protocol_later_eq(318) else \\\n               0x0F if context.protocol_later_eq(107) else \\\n               0x02",
  "0x10 if context.protocol_later_eq(317) else \\\n               0x0F if context.protocol_later_eq(107) else \\\n               0x02",
  rule='R06.2')
M('C06-joingame-nudge', 'C06', JOIN,
  "0x25 if context.protocol_later_eq(721) else \\\n               0x26 if context.protocol_later_eq(550) else \\\n               0x25 if context.protocol_later_eq(389)",
  "0x25 if context.protocol_later_eq(722) else \\\n               0x26 if context.protocol_later_eq(550) else \\\n               0x25 if context.protocol_later_eq(389)",
  rule='R06.2')
M('C06-sb-chat-nudge', 'C06', SB_PLAY,
  "0x02 if context.protocol_later_eq(389) else \\\n               0x01 if context.protocol_later_eq(343) else \\\n               0x02 if context.protocol_later_eq(336) else \\\n               0x03 if context.protocol_later_eq(318) else \\\n               0x02 if context.protocol_later_eq(107) else \\\n               0x01",
  "0x02 if context.protocol_later_eq(389) else \\\n               0x01 if context.protocol_later_eq(345) else \\\n               0x02 if context.protocol_later_eq(336) else \\\n               0x03 if context.protocol_later_eq(318) else \\\n               0x02 if context.protocol_later_eq(107) else \\\n               0x01",
  rule='R06.2')
M('C06-login-success-nudge', 'C06', CB_LOGIN,
  "return 0x02 if context.protocol_later_eq(391) else \\\n               0x03 if context.protocol_later_eq(385) else \\\n               0x02",
  "return 0x02 if context.protocol_later_eq(391) else \\\n               0x03 if context.protocol_later_eq(386) else \\\n               0x02",
  rule='R06.2')
M('C06-enter-combat-0x35', 'C06', COMBAT,
  "    packet_name = 'enter combat event'\n    id = 0x34",
  "    packet_name = 'enter combat event'\n    id = 0x35", rule='R06.2')
M('C06-getid-none', 'C06', CB_PLAY,
  "        return 0x03 if context.protocol_later_eq(755) else \\\n               0x46",
  "        return 0x03 if context.protocol_later_eq(755) else \\\n               None",
  rule='R06.1')
M('C06-unknown-constant', 'C06', CB_PLAY,
  "{'is_locked': Boolean} if context.protocol_later_eq(464) else {}",
  "{'is_locked': Boolean} if context.protocol_later_eq(465) else {}"
  if False else
  "{'is_locked': Boolean} if context.protocol_later_eq(99999) else {}",
  rule='R06.5')
M('C06-class-in-two-tables', 'C06', SB_LOGIN,
  "    packets = {\n        LoginStartPacket,\n        EncryptionResponsePacket\n    }",
  "    packets = {\n        LoginStartPacket,\n        EncryptionResponsePacket,\n        Packet\n    }",
  rule='R06.1')
M('C06-reactor-wrong-table', 'C06', CONN,
  "class LoginReactor(PacketReactor):\n    get_clientbound_packets = staticmethod(clientbound.login.get_packets)",
  "class LoginReactor(PacketReactor):\n    get_clientbound_packets = staticmethod(clientbound.status.get_packets)",
  rule='R06.3')
M('C06-twin-reorder-set', 'C06', SB_PLAY,
  "        KeepAlivePacket,\n        ChatPacket,\n        PositionAndLookPacket,",
  "        ChatPacket,\n        PositionAndLookPacket,\n        KeepAlivePacket,",
  expect='silent')
M('C06-twin-ladder-as-if', 'C06', SB_LOGIN,
  "        return 0x02 if context.protocol_later_eq(391) else \\\n               0x00\n",
  "        if context.protocol_later_eq(391):\n            return 0x02\n        else:\n            return 0x00\n",
  expect='silent')
M('C06-twin-earlier-form', 'C06', CB_LOGIN,
  "        return 0x04 if context.protocol_later_eq(391) else \\\n               0x00",
  "        return 0x00 if context.protocol_earlier(391) else \\\n               0x04",
  expect='silent')

# ---------------------------------------------------------------- C08
M('C08-earlier-le', 'C08', UTIL,
  "return PROTOCOL_VERSION_INDICES[pv1] < PROTOCOL_VERSION_INDICES[pv2]",
  "return PROTOCOL_VERSION_INDICES[pv1] <= PROTOCOL_VERSION_INDICES[pv2]",
  rule='R08.1')
M('C08-earlier-numeric', 'C08', UTIL,
  "return PROTOCOL_VERSION_INDICES[pv1] < PROTOCOL_VERSION_INDICES[pv2]",
  "return pv1 < pv2", rule='R08.1')
M('C08-later-swapped', 'C08', CONN,
  "return utility.protocol_earlier(other_pv, self.protocol_version)",
  "return utility.protocol_earlier(self.protocol_version, other_pv)",
  rule='R08.1')
M('C08-in-range-inclusive-end', 'C08', CONN,
  "return (utility.protocol_earlier(self.protocol_version, end_pv) and",
  "return (utility.protocol_earlier_eq(self.protocol_version, end_pv) and",
  rule='R08.1')
M('C08-drop-clear', 'C08', INIT,
  "        KNOWN_PROTOCOL_VERSIONS.clear()\n", "", rule='R08.4')
M('C08-drop-clear-supported', 'C08', INIT,
  "    SUPPORTED_PROTOCOL_VERSIONS.clear()\n", "", rule='R08.4')
M('C08-first-occurrence-guard-removed', 'C08', INIT,
  "            if version.protocol not in KNOWN_PROTOCOL_VERSIONS:\n                PROTOCOL_VERSION_INDICES[version.protocol] \\\n                    = len(KNOWN_PROTOCOL_VERSIONS)\n                KNOWN_PROTOCOL_VERSIONS.append(version.protocol)",
  "            if True:\n                PROTOCOL_VERSION_INDICES[version.protocol] \\\n                    = len(KNOWN_PROTOCOL_VERSIONS)\n                KNOWN_PROTOCOL_VERSIONS.append(version.protocol)",
  rule='R08.2')
M('C08-swap-records', 'C08', INIT,
  "    Version('1.17',                  755,      True),\n    Version('1.17.1',                756,      True),",
  "    Version('1.17.1',                756,      True),\n    Version('1.17',                  755,      True),",
  rule='R08.3')
M('C08-release-regex-unanchored', 'C08', INIT,
  "if re.match(r'\\d+(\\.\\d+)+$', version_id):",
  "if re.match(r'\\d+(\\.\\d+)+', version_id):", rule='R08.2')
M('C08-rebind-table', 'C08', INIT,
  "    SUPPORTED_PROTOCOL_VERSIONS.clear()\n",
  "    global SUPPORTED_PROTOCOL_VERSIONS\n    SUPPORTED_PROTOCOL_VERSIONS = []\n",
  expect='violation')
M('C08-readme-unsupported', 'C08', INIT,
  "    Version('1.12.2',                340,      True),",
  "    Version('1.12.2',                340,      False),", rule='R08.5')
M('C08-twin-index-after-append', 'C08', INIT,
  "                PROTOCOL_VERSION_INDICES[version.protocol] \\\n                    = len(KNOWN_PROTOCOL_VERSIONS)\n                KNOWN_PROTOCOL_VERSIONS.append(version.protocol)",
  "                KNOWN_PROTOCOL_VERSIONS.append(version.protocol)\n                PROTOCOL_VERSION_INDICES[version.protocol] \\\n                    = len(KNOWN_PROTOCOL_VERSIONS)",
  expect='silent')
M('C08-twin-rename-loopvar', 'C08', INIT,
  "    for (version_id, protocol) in SUPPORTED_MINECRAFT_VERSIONS.items():\n        if re.match(r'\\d+(\\.\\d+)+$', version_id):\n            RELEASE_MINECRAFT_VERSIONS[version_id] = protocol",
  "    for (vid, protocol) in SUPPORTED_MINECRAFT_VERSIONS.items():\n        version_id = vid\n        if re.match(r'\\d+(\\.\\d+)+$', vid):\n            RELEASE_MINECRAFT_VERSIONS[vid] = protocol",
  expect='silent')
M('C08-twin-gt-form', 'C08', UTIL,
  "return PROTOCOL_VERSION_INDICES[pv1] <= PROTOCOL_VERSION_INDICES[pv2]",
  "return not PROTOCOL_VERSION_INDICES[pv1] > PROTOCOL_VERSION_INDICES[pv2]",
  expect='silent')

# ---------------------------------------------------------------- C02
M('C02-short-send-little-endian', 'C02', BASIC,
  "socket.send(struct.pack('>h', value))", "socket.send(struct.pack('<h', value))",
  rule='R02.1')
M('C02-short-read-4', 'C02', BASIC,
  "return struct.unpack('>h', file_object.read(2))[0]",
  "return struct.unpack('>h', file_object.read(4))[0]", rule='R02.1')
M('C02-integer-read-unsigned', 'C02', BASIC,
  "return struct.unpack('>i', file_object.read(4))[0]",
  "return struct.unpack('>I', file_object.read(4))[0]", rule='R02.1')
M('C02-both-sides-unsigned-long', 'C02', BASIC,
  "return struct.unpack('>q', file_object.read(8))[0]\n\n    @staticmethod\n    def send(value, socket):\n        socket.send(struct.pack('>q', value))",
  "return struct.unpack('>Q', file_object.read(8))[0]\n\n    @staticmethod\n    def send(value, socket):\n        socket.send(struct.pack('>Q', value))",
  rule='R02.1')
M('C02-string-prefix-of-str', 'C02', BASIC,
  "        value = value.encode('utf-8')\n        VarInt.send(len(value), socket)\n        socket.send(value)",
  "        VarInt.send(len(value), socket)\n        socket.send(value.encode('utf-8'))",
  rule='R02.4')
M('C02-string-latin1', 'C02', BASIC,
  "        value = value.encode('utf-8')\n", "        value = value.encode('latin-1')\n",
  rule='R02.4')
M('C02-bytearray-prefix-short', 'C02', BASIC,
  "        VarInt.send(len(value), socket)\n        socket.send(struct.pack(str(len(value)) + \"s\", value))",
  "        Short.send(len(value), socket)\n        socket.send(struct.pack(str(len(value)) + \"s\", value))",
  rule='R02.4')
M('C02-prefixedarray-len-plus-one', 'C02', BASIC,
  "        self.length_type.send(len(value), socket)",
  "        self.length_type.send(len(value) + 1, socket)", rule='R02.4')
M('C02-fixedpoint-read-multiplies', 'C02', BASIC,
  "return self.integer_type.read(file_object) / self.denominator",
  "return self.integer_type.read(file_object) * self.denominator",
  rule='R02.6')
M('C02-angle-send-255', 'C02', BASIC,
  "round(256 * ((value % 360) / 360)) % 256", "round(255 * ((value % 360) / 360)) % 256",
  rule='R02.6')
M('C02-angle-drop-mod', 'C02', BASIC,
  "round(256 * ((value % 360) / 360)) % 256", "round(256 * ((value % 360) / 360))",
  rule='R02.5')
M('C02-rebreak-D1', 'C02', BASIC,
  "self.integer_type.send(int(value * self.denominator), socket)",
  "self.integer_type.send(int(value * self.denominator))", rule='R02.2')
M('C02-rebreak-D3', 'C02', BASIC,
  "        data = file_object.read(length)\n        if len(data) < length:\n            raise EOFError(\"Unexpected end of message.\")\n        return data.decode(\"utf-8\")",
  "        return file_object.read(length).decode(\"utf-8\")", rule='R02.3')
M('C02-uuid-bytes-le', 'C02', BASIC,
  "return str(uuid.UUID(bytes=file_object.read(16)))",
  "return str(uuid.UUID(bytes_le=file_object.read(16)))", rule='R02.8')
M('C02-dispatch-swapped', 'C02', BASIC,
  "return cls_or_self.send(value, socket)", "return cls_or_self.send(socket, value)",
  rule='R02.7')
M('C02-effectposition-scale', 'C02', SOUND,
  "Integer.send(int(coordinate * 8), socket)", "Integer.send(int(coordinate * 32), socket)",
  rule='R02.6')
M('C02-twin-format-constant', 'C02', BASIC,
  "class Short(Type):\n    @staticmethod\n    def read(file_object):\n        return struct.unpack('>h', file_object.read(2))[0]",
  "SHORT_FMT = '!h'\n\n\nclass Short(Type):\n    @staticmethod\n    def read(file_object):\n        return struct.unpack(SHORT_FMT, file_object.read(2))[0]",
  expect='silent')
M('C02-twin-local-data', 'C02', BASIC,
  "        return struct.unpack('>i', file_object.read(4))[0]",
  "        data = file_object.read(4)\n        return struct.unpack('>i', data)[0]",
  expect='silent')
M('C02-twin-not-data', 'C02', BASIC,
  "        if len(data) < length:\n            raise EOFError(\"Unexpected end of message.\")",
  "        if len(data) != length:\n            raise EOFError(\"Unexpected end of message.\")",
  expect='silent')

# ---------------------------------------------------------------- C03
M('C03-max-bytes-50', 'C03', BASIC, "class VarInt(Type):\n    max_bytes = 5",
  "class VarInt(Type):\n    max_bytes = 50", rule='R03.1')
M('C03-varlong-max-bytes-5', 'C03', BASIC, "class VarLong(VarInt):\n    max_bytes = 10",
  "class VarLong(VarInt):\n    max_bytes = 5", rule='R03.1')
M('C03-counter-increment-removed', 'C03', BASIC,
  "            bytes_encountered += 1\n            if bytes_encountered > cls.max_bytes:",
  "            if bytes_encountered > cls.max_bytes:", rule='R03.1')
M('C03-guard-removed', 'C03', BASIC,
  "            if bytes_encountered > cls.max_bytes:\n                raise ValueError(\"Tried to read too long of a VarInt\")\n",
  "", rule='R03.1')
M('C03-extra-read-after-break', 'C03', BASIC,
  "                raise ValueError(\"Tried to read too long of a VarInt\")\n        return number",
  "                raise ValueError(\"Tried to read too long of a VarInt\")\n        file_object.read(1)\n        return number",
  rule='R03.2')
M('C03-read-two-bytes', 'C03', BASIC, "            byte = file_object.read(1)\n            if len(byte) < 1:",
  "            byte = file_object.read(2)\n            if len(byte) < 1:", rule='R03.1')
M('C03-eof-test-removed', 'C03', BASIC,
  "            if len(byte) < 1:\n                raise EOFError(\"Unexpected end of message.\")\n\n            byte = ord(byte)",
  "            byte = ord(byte or b'\\x00')", rule='R03.1')
M('C03-send-mask-ff', 'C03', BASIC, "            byte = value & 0x7F\n", "            byte = value & 0xFF\n",
  rule='R03.5')
M('C03-read-shift-8', 'C03', BASIC, "number |= (byte & 0x7F) << 7 * bytes_encountered",
  "number |= (byte & 0x7F) << 8 * bytes_encountered", rule='R03.5')
M('C03-break-on-set-bit', 'C03', BASIC, "            if not byte & 0x80:\n                break",
  "            if byte & 0x80:\n                break", rule='R03.1')
M('C03-size-table-entry', 'C03', BASIC, "    2 ** 21: 3,", "    2 ** 21: 4,", rule='R03.5')
M('C03-size-table-order', 'C03', BASIC, "    2 ** 7: 1,\n    2 ** 14: 2,", "    2 ** 14: 2,\n    2 ** 7: 1,",
  rule='R03.5')
M('C03-size-le', 'C03', BASIC, "            if value < max_value:", "            if value <= max_value:",
  rule='R03.5')
M('C03-rebreak-D4', 'C03', BASIC,
  "        if value < 0:\n            raise ValueError(\"Cannot encode a negative number as a VarInt\")\n",
  "", rule='R03.4')
M('C03-send-flag-ge', 'C03', BASIC, "byte | (0x80 if value > 0 else 0)", "byte | (0x80 if value >= 0 else 0)",
  rule='R03.5')
M('C03-twin-counter-renamed', 'C03', BASIC, "bytes_encountered", "count", expect='silent', count=4)
M('C03-twin-guard-before-increment', 'C03', BASIC,
  "            bytes_encountered += 1\n            if bytes_encountered > cls.max_bytes:\n                raise ValueError(\"Tried to read too long of a VarInt\")",
  "            if bytes_encountered >= cls.max_bytes:\n                raise ValueError(\"Tried to read too long of a VarInt\")\n            bytes_encountered += 1",
  expect='silent')
M('C03-twin-mask-negative', 'C03', BASIC,
  "        if value < 0:\n            raise ValueError(\"Cannot encode a negative number as a VarInt\")\n",
  "        value &= 0xFFFFFFFFFFFFFFFF\n", expect='silent')

# wave r5: the bound as the loop test (while ... else: raise)
_VREAD_OLD = ("        while True:\n            byte = file_object.read(1)\n            if len(byte) < 1:\n"
              "                raise EOFError(\"Unexpected end of message.\")\n\n            byte = ord(byte)\n"
              "            number |= (byte & 0x7F) << 7 * bytes_encountered\n            if not byte & 0x80:\n"
              "                break\n\n            bytes_encountered += 1\n"
              "            if bytes_encountered > cls.max_bytes:\n"
              "                raise ValueError(\"Tried to read too long of a VarInt\")\n        return number\n")


def _vread(test, tail):
    return ("        while %s:\n            byte = file_object.read(1)\n            if len(byte) < 1:\n"
            "                raise EOFError(\"Unexpected end of message.\")\n\n            byte = ord(byte)\n"
            "            number |= (byte & 0x7F) << 7 * bytes_encountered\n            if not byte & 0x80:\n"
            "                break\n\n            bytes_encountered += 1\n%s        return number\n" % (test, tail))


_VELSE = "        else:\n            raise ValueError(\"Tried to read too long of a VarInt\")\n"
M('C03-twin-bound-as-loop-test', 'C03', BASIC, _VREAD_OLD,
  _vread('bytes_encountered <= cls.max_bytes', _VELSE), expect='silent')
M('C03-loop-test-no-else', 'C03', BASIC, _VREAD_OLD,
  _vread('bytes_encountered <= cls.max_bytes', ''), rule='R03.1')
M('C03-loop-test-one-more', 'C03', BASIC, _VREAD_OLD,
  _vread('bytes_encountered <= cls.max_bytes + 1', _VELSE), rule='R03.1')
M('C03-twin-varlong-twice-varint', 'C03', BASIC,
  "class VarLong(VarInt):\n    max_bytes = 10", "class VarLong(VarInt):\n    max_bytes = 2 * VarInt.max_bytes",
  expect='silent')
M('C03-varlong-thrice-varint', 'C03', BASIC,
  "class VarLong(VarInt):\n    max_bytes = 10", "class VarLong(VarInt):\n    max_bytes = 3 * VarInt.max_bytes",
  rule='R03.1')

# ---------------------------------------------------------------- C04
M('C04-send-swap-shifts', 'C04', BASIC,
  "value = ((x & 0x3FFFFFF) << 38 | (z & 0x3FFFFFF) << 12 | (y & 0xFFF)",
  "value = ((x & 0x3FFFFFF) << 38 | (z & 0x3FFFFFF) << 26 | (y & 0xFFF)")
M('C04-both-sides-yz-swapped-new', 'C04', BASIC,
  "value = ((x & 0x3FFFFFF) << 38 | (z & 0x3FFFFFF) << 12 | (y & 0xFFF)\n                 if context.protocol_later_eq(443) else",
  "value = ((x & 0x3FFFFFF) << 38 | (y & 0xFFF) << 26 | (z & 0x3FFFFFF)\n                 if context.protocol_later_eq(443) else",
  rule='R04.3')
M('C04-y-mask-7ff', 'C04', BASIC,
  "(z & 0x3FFFFFF) << 12 | (y & 0xFFF)", "(z & 0x3FFFFFF) << 12 | (y & 0x7FF)")
M('C04-sign-extend-x-24', 'C04', BASIC,
  "        if x >= pow(2, 25):\n            x -= pow(2, 26)", "        if x >= pow(2, 24):\n            x -= pow(2, 26)",
  rule='R04.2')
M('C04-sign-extend-y-dropped', 'C04', BASIC,
  "        if y >= pow(2, 11):\n            y -= pow(2, 12)\n", "", rule='R04.2')
M('C04-boundary-one-side', 'C04', BASIC,
  "        if context.protocol_later_eq(443):\n            z = int((location >> 12)",
  "        if context.protocol_later_eq(477):\n            z = int((location >> 12)", rule='R04.2')
M('C04-boundary-404-both', 'C04', BASIC, "context.protocol_later_eq(443)", "context.protocol_later_eq(404)",
  count=2, rule='R04.3')
M('C04-boundary-480-both', 'C04', BASIC, "context.protocol_later_eq(443)", "context.protocol_later_eq(480)",
  count=2, rule='R04.3')
M('C04-csp-z-shift', 'C04', BLOCK, "(z & 0x3FFFFF) << 20 | y & 0xFFFFF", "(z & 0x3FFFFF) << 22 | y & 0xFFFFF",
  rule='R04.4')
M('C04-csp-read-y-signbit', 'C04', BLOCK, "y = value | ~0xFFFFF if value & 0x80000 else value & 0xFFFFF",
  "y = value | ~0xFFFFF if value & 0x40000 else value & 0xFFFFF", rule='R04.4')
M('C04-csp-both-sides-xz-swapped', 'C04', BLOCK,
  "            x = value | ~0x3FFFFF if value & 0x200000 else value\n            return cls(x, y, z)\n\n        @classmethod\n        def send(cls, pos, socket):\n            x, y, z = pos\n            value = (x & 0x3FFFFF) << 42 | (z & 0x3FFFFF) << 20 | y & 0xFFFFF",
  "            x = value | ~0x3FFFFF if value & 0x200000 else value\n            return cls(z, y, x)\n\n        @classmethod\n        def send(cls, pos, socket):\n            x, y, z = pos\n            value = (z & 0x3FFFFF) << 42 | (x & 0x3FFFFF) << 20 | y & 0xFFFFF",
  rule='R04.4')
M('C04-record-shift', 'C04', BLOCK, "record.block_state_id = value >> 12", "record.block_state_id = value >> 8",
  rule='R04.5')
M('C04-record-old-xz', 'C04', BLOCK, "                record.x = h_position >> 4\n                record.z = h_position & 0xF",
  "                record.z = h_position >> 4\n                record.x = h_position & 0xF", rule='R04.5')
M('C04-record-carrier', 'C04', BLOCK, "                value = VarLong.read(file_object)",
  "                value = UnsignedLong.read(file_object)", rule='R04.5')
M('C04-record-boundary', 'C04', BLOCK,
  "            if context.protocol_later_eq(741):\n                value = VarLong.read(file_object)",
  "            if context.protocol_later_eq(748):\n                value = VarLong.read(file_object)", rule='R04.5')
M('C04-twin-shift-form', 'C04', BASIC, "        if x >= pow(2, 25):\n            x -= pow(2, 26)",
  "        if x >= 1 << 25:\n            x -= 1 << 26", expect='silent')
M('C04-twin-reorder-sign-blocks', 'C04', BASIC,
  "        if x >= pow(2, 25):\n            x -= pow(2, 26)\n\n        if y >= pow(2, 11):\n            y -= pow(2, 12)\n",
  "        if y >= pow(2, 11):\n            y -= pow(2, 12)\n\n        if x >= pow(2, 25):\n            x -= pow(2, 26)\n",
  expect='silent')
M('C04-twin-boundary-earlier-form', 'C04', BASIC,
  "        if context.protocol_later_eq(443):\n            z = int((location >> 12) & 0x3FFFFFF)  # 26 intermediate bits\n            y = int(location & 0xFFF)              # 12 least signficant bits\n        else:\n            y = int((location >> 26) & 0xFFF)      # 12 intermediate bits\n            z = int(location & 0x3FFFFFF)          # 26 least significant bits",
  "        if context.protocol_earlier(443):\n            y = int((location >> 26) & 0xFFF)      # 12 intermediate bits\n            z = int(location & 0x3FFFFFF)          # 26 least significant bits\n        else:\n            z = int((location >> 12) & 0x3FFFFFF)  # 26 intermediate bits\n            y = int(location & 0xFFF)              # 12 least signficant bits",
  expect='silent')
M('C04-twin-boundary-moved-within-snapshots', 'C04', BASIC, "context.protocol_later_eq(443)",
  "context.protocol_later_eq(441)", count=2, expect='silent')

# ---------------------------------------------------------------- C05
M('C05-faceplayer-drop-origin', 'C05', FACE,
  "            VarInt.send(self.origin, packet_buffer)\n", "", rule='R05.3')
M('C05-faceplayer-flag-inverted', 'C05', FACE,
  "            if self.entity_id is not None:\n                Boolean.send(True, packet_buffer)\n                VarInt.send(self.entity_id, packet_buffer)\n                VarInt.send(self.entity_origin, packet_buffer)\n            else:\n                Boolean.send(False, packet_buffer)",
  "            if self.entity_id is not None:\n                Boolean.send(False, packet_buffer)\n                VarInt.send(self.entity_id, packet_buffer)\n                VarInt.send(self.entity_origin, packet_buffer)\n            else:\n                Boolean.send(True, packet_buffer)",
  rule='R05.3')
M('C05-faceplayer-none-sent', 'C05', FACE,
  "        else:  # Protocol version 352\n            if self.entity_id is not None:\n                Boolean.send(True, packet_buffer)",
  "        else:  # Protocol version 352\n            if self.entity_id is None:\n                Boolean.send(True, packet_buffer)")
M('C05-spawnobject-pitch-yaw-swapped', 'C05', SPAWN,
  "        for coord in self.pitch, self.yaw:\n            Angle.send(coord, packet_buffer)",
  "        for coord in self.yaw, self.pitch:\n            Angle.send(coord, packet_buffer)", rule='R05.3')
M('C05-spawnobject-boundary-one-side', 'C05', SPAWN,
  "        if self.context.protocol_later_eq(458):\n            VarInt.send(self.type_id, packet_buffer)",
  "        if self.context.protocol_later_eq(459):\n            VarInt.send(self.type_id, packet_buffer)", rule='R05.3')
M('C05-playerproperty-omit-flag', 'C05', PLIST,
  "            else:\n                Boolean.send(False, packet_buffer)\n\n    class Action(MutableRecord):",
  "            else:\n                pass\n\n    class Action(MutableRecord):", rule='R05.3')
M('C05-addplayer-ping-gamemode-swapped', 'C05', PLIST,
  "            VarInt.send(self.gamemode, packet_buffer)\n            VarInt.send(self.ping, packet_buffer)\n            if self.display_name is not None:",
  "            VarInt.send(self.ping, packet_buffer)\n            VarInt.send(self.gamemode, packet_buffer)\n            if self.display_name is not None:",
  rule='R05.3')
M('C05-action-uuid-dropped', 'C05', PLIST,
  "            UUID.send(self.uuid, packet_buffer)\n            self._send(packet_buffer)",
  "            self._send(packet_buffer)", rule='R05.3')
M('C05-combat-enddata-order', 'C05', COMBAT,
  "            VarInt.send(self.duration, packet_buffer)\n            Integer.send(self.entity_id, packet_buffer)",
  "            Integer.send(self.entity_id, packet_buffer)\n            VarInt.send(self.duration, packet_buffer)", rule='R05.3')
M('C05-pluginresponse-flag', 'C05', SB_LOGIN,
  "        Boolean.send(successful, packet_buffer)\n        if successful:",
  "        Boolean.send(successful, packet_buffer)\n        if not successful:", rule='R05.3')
M('C05-duplicate-field-name', 'C05', CB_PLAY,
  "        {'velocity_y': Short},\n        {'velocity_z': Short}", "        {'velocity_y': Short},\n        {'velocity_y': Short}",
  rule='R05.2')
M('C05-trailing-not-last', 'C05', CB_LOGIN,
  "        {'message_id': VarInt},\n        {'channel': String},\n        {'data': TrailingByteArray}]",
  "        {'message_id': VarInt},\n        {'data': TrailingByteArray},\n        {'channel': String}]", rule='R05.2')
M('C05-definition-not-a-type', 'C05', CB_PLAY,
  "        {'health': Float},\n        {'food': VarInt},", "        {'health': Float},\n        {'food': int},", rule='R05.2')
M('C05-rebreak-D5-islocked', 'C05', MAP,
  "        if self.context.protocol_later_eq(452):\n            Boolean.send(self.is_locked, packet_buffer)\n\n", "",
  rule='R05.3')
M('C05-rebreak-D5-offset', 'C05', MAP, "            Byte.send(self.offset[0], packet_buffer)  # x",
  "            UnsignedByte.send(self.offset[0], packet_buffer)  # x", rule='R05.3')
M('C05-map-offsets-swapped', 'C05', MAP,
  "            Byte.send(self.offset[0], packet_buffer)  # x\n            Byte.send(self.offset[1], packet_buffer)  # z",
  "            Byte.send(self.offset[1], packet_buffer)  # x\n            Byte.send(self.offset[0], packet_buffer)  # z",
  rule='R05.3')
M('C05-map-icon-loop-dropped-name', 'C05', MAP,
  "                if icon.display_name is not None:\n                    String.send(icon.display_name, packet_buffer)\n", "",
  rule='R05.3')
M('C05-generic-write-wrong-attr', 'C05', PACKET,
  "                data = getattr(self, var_name)\n                data_type.send_with_context(data, packet_buffer, self.context)",
  "                data = getattr(self, 'id')\n                data_type.send_with_context(data, packet_buffer, self.context)",
  rule='R05.1')
M('C05-generic-read-no-context', 'C05', PACKET,
  "value = data_type.read_with_context(file_object, self.context)",
  "value = data_type.read_with_context(file_object, None)", rule='R05.1')
M('C05-write-id-after-fields', 'C05', PACKET,
  "        VarInt.send(self.id, packet_buffer)\n        # write every individual field\n        self.write_fields(packet_buffer)",
  "        # write every individual field\n        self.write_fields(packet_buffer)\n        VarInt.send(self.id, packet_buffer)",
  rule='R05.4')
M('C05-explosion-record-two-bytes', 'C05', EXPL,
  "return cls(*(Byte.read(file_object) for i in range(3)))", "return cls(*(Byte.read(file_object) for i in range(2)), 0)",
  rule='R05.3')
M('C05-pitch-boundary-one-side', 'C05', SOUND,
  "            if context.protocol_later_eq(201):\n                Float.send(value, socket)",
  "            if context.protocol_later_eq(204):\n                Float.send(value, socket)", rule='R05.3', tier='thorough')
M('C05-field-enum-signature', 'C05', SB_PLAY,
  "    field_enum = classmethod(\n        lambda cls, field, context: cls if field == 'action_id' else None)",
  "    field_enum = classmethod(\n        lambda cls, field: cls if field == 'action_id' else None)", rule='R05.5')
M('C05-twin-rename-loopvar', 'C05', SPAWN,
  "        for coord in self.pitch, self.yaw:\n            Angle.send(coord, packet_buffer)",
  "        for angle in self.pitch, self.yaw:\n            Angle.send(angle, packet_buffer)", expect='silent')
M('C05-twin-helper-method', 'C05', FACE,
  "            VarInt.send(self.origin, packet_buffer)\n            Double.send(self.x, packet_buffer)\n            Double.send(self.y, packet_buffer)\n            Double.send(self.z, packet_buffer)\n            if self.entity_id is not None:\n                Boolean.send(True, packet_buffer)\n                VarInt.send(self.entity_id, packet_buffer)\n                VarInt.send(self.entity_origin, packet_buffer)",
  "            VarInt.send(self.origin, packet_buffer)\n            self._write_target(packet_buffer)\n            if self.entity_id is not None:\n                Boolean.send(True, packet_buffer)\n                VarInt.send(self.entity_id, packet_buffer)\n                VarInt.send(self.entity_origin, packet_buffer)",
  expect='silent',
  edits=[dict(file=FACE, find="            VarInt.send(self.origin, packet_buffer)\n            Double.send(self.x, packet_buffer)\n            Double.send(self.y, packet_buffer)\n            Double.send(self.z, packet_buffer)\n            if self.entity_id is not None:\n                Boolean.send(True, packet_buffer)\n                VarInt.send(self.entity_id, packet_buffer)\n                VarInt.send(self.entity_origin, packet_buffer)",
               repl="            VarInt.send(self.origin, packet_buffer)\n            self._write_target(packet_buffer)\n            if self.entity_id is not None:\n                Boolean.send(True, packet_buffer)\n                VarInt.send(self.entity_id, packet_buffer)\n                VarInt.send(self.entity_origin, packet_buffer)"),
         dict(file=FACE, find="    # These aliases declare the Enum type corresponding to each field:\n    Origin = OriginPoint",
              repl="    def _write_target(self, packet_buffer):\n        Double.send(self.x, packet_buffer)\n        Double.send(self.y, packet_buffer)\n        Double.send(self.z, packet_buffer)\n\n    # These aliases declare the Enum type corresponding to each field:\n    Origin = OriginPoint")])
M('C05-twin-reader-accepts-more', 'C05', SB_LOGIN,
  "        if self.successful:\n            self.data = TrailingByteArray.read(file_object)\n        else:\n            self.data = None",
  "        self.data = TrailingByteArray.read(file_object)", expect='silent')

# ---------------------------------------------------------------- C07
M('C07-keepalive-long-341', 'C07', KEEP, "{'keep_alive_id': Long} if context.protocol_later_eq(339)",
  "{'keep_alive_id': Long} if context.protocol_later_eq(341)", rule='R07.3')
M('C07-teleport-id-before-flags', 'C07', PPL,
  "        {'flags': Byte},\n        {'teleport_id': VarInt} if context.protocol_later_eq(107) else {},",
  "        {'teleport_id': VarInt} if context.protocol_later_eq(107) else {},\n        {'flags': Byte},", rule='R07.3')
M('C07-login-uuid-736', 'C07', CB_LOGIN, "{'UUID': UUID if context.protocol_later_eq(707) else String}",
  "{'UUID': UUID if context.protocol_later_eq(736) else String}", rule='R07.3')
M('C07-chat-sender-736', 'C07', CB_PLAY, "{'sender': UUID} if context.protocol_later_eq(718) else {}",
  "{'sender': UUID} if context.protocol_later_eq(736) else {}", rule='R07.3')
M('C07-cb-keepalive-rung-756', 'C07', CB_PLAY,
  "        return 0x21 if context.protocol_later_eq(755) else \\\n               0x1F if context.protocol_later_eq(741) else \\\n               0x20 if context.protocol_later_eq(721)",
  "        return 0x21 if context.protocol_later_eq(756) else \\\n               0x1F if context.protocol_later_eq(741) else \\\n               0x20 if context.protocol_later_eq(721)",
  rule='R07.2')
M('C07-state-playing-3', 'C07', CONN, "STATE_PLAYING = 2", "STATE_PLAYING = 3", rule='R07.4')
M('C07-handshake-port-varint', 'C07', 'minecraft/networking/packets/serverbound/handshake/__init__.py',
  "{'server_port': UnsignedShort}", "{'server_port': VarInt}", rule='R07.3')
M('C07-joingame-seed-before-dimension', 'C07', JOIN,
  "        {'world_name': String} if context.protocol_later_eq(722) else {},\n        {'hashed_seed': Long} if context.protocol_later_eq(552) else {},\n        {'difficulty': UnsignedByte} if context.protocol_earlier(464) else {},\n        {'max_players':",
  "        {'hashed_seed': Long} if context.protocol_later_eq(552) else {},\n        {'world_name': String} if context.protocol_later_eq(722) else {},\n        {'difficulty': UnsignedByte} if context.protocol_earlier(464) else {},\n        {'max_players':",
  rule='R07.3')
M('C07-sb-chat-id-consistent-shift', 'C07', SB_PLAY,
  "        return 0x03 if context.protocol_later_eq(755) else \\\n               0x03 if context.protocol_later_eq(464) else \\\n               0x02 if context.protocol_later_eq(389)",
  "        return 0x03 if context.protocol_later_eq(755) else \\\n               0x03 if context.protocol_later_eq(480) else \\\n               0x02 if context.protocol_later_eq(389)",
  rule='R07.2')
M('C07-twin-boundary-between-snapshots', 'C07', CB_PLAY, "{'sender': UUID} if context.protocol_later_eq(718) else {}",
  "{'sender': UUID} if context.protocol_later_eq(719) else {}", expect='silent')
# (was a twin while the reference ignored signedness: a signed port cannot
# carry a port above 32767 -- struct.error -- so this breaks the handshake)
M('C07-port-signed-short', 'C07', 'minecraft/networking/packets/serverbound/handshake/__init__.py',
  "from minecraft.networking.types import (\n    VarInt, String, UnsignedShort\n)",
  "from minecraft.networking.types import (\n    VarInt, String, Short as UnsignedShort\n)", rule='R07.3')
M('C07-twin-gamemode-signed-byte', 'C07',
  'minecraft/networking/packets/clientbound/play/join_game_and_respawn_packets.py',
  "if context.protocol_later_eq(738) else {},\n        {'game_mode': UnsignedByte},\n        {'previous_game_mode': UnsignedByte}",
  "if context.protocol_later_eq(738) else {},\n        {'game_mode': UnsignedByte},\n        {'previous_game_mode': Byte}",
  expect='silent')

# ---------------------------------------------------------------- C12
M('C12-force-arm-no-lock', 'C12', CONN,
  "        if force:\n            with self._write_lock:\n                self._write_packet(packet)",
  "        if force:\n            self._write_packet(packet)", rule='R12.2')
M('C12-queue-arm-writes-directly', 'C12', CONN,
  "        else:\n            self._outgoing_packet_queue.append(packet)",
  "        else:\n            self._outgoing_packet_queue.append(packet)\n            if len(self._outgoing_packet_queue) > 500:\n                self._pop_packet()",
  rule='R12.2')
M('C12-popleft-to-pop', 'C12', CONN, "self._write_packet(self._outgoing_packet_queue.popleft())",
  "self._write_packet(self._outgoing_packet_queue.pop())", rule='R12.3')
M('C12-append-to-appendleft', 'C12', CONN, "            self._outgoing_packet_queue.append(packet)",
  "            self._outgoing_packet_queue.appendleft(packet)", rule='R12.3')
M('C12-flush-after-close', 'C12', CONN,
  "                        self.file_object.close()\n                        self.socket.close()\n                        self.socket = None",
  "                        self.file_object.close()\n                        self.socket.close()\n                        while self._pop_packet():\n                            pass\n                        self.socket = None",
  rule='R12.4')
M('C12-flush-on-immediate', 'C12', CONN, "            if not immediate and self.socket is not None:",
  "            if self.socket is not None:", rule='R12.4')
M('C12-flush-outside-lock', 'C12', CONN,
  "        with self._write_lock:  # pylint: disable=not-context-manager\n            self.connected = False\n\n            try:\n                if not immediate and self.socket is not None:\n                    # Flush any packets remaining in the queue.\n                    while self._pop_packet():\n                        pass\n            except IOError:",
  "        try:\n            if not immediate and self.socket is not None:\n                while self._pop_packet():\n                    pass\n        except IOError:\n            pass\n        with self._write_lock:  # pylint: disable=not-context-manager\n            self.connected = False\n\n            try:\n                pass\n            except IOError:",
  rule='R12.2')
M('C12-listener-between-sends', 'C12', PACKET,
  "        VarInt.send(len(packet_buffer.get_writable()), socket)  # Packet Size\n        socket.send(packet_buffer.get_writable())  # Packet Payload",
  "        VarInt.send(len(packet_buffer.get_writable()), socket)  # Packet Size\n        self.on_header_sent()\n        socket.send(packet_buffer.get_writable())  # Packet Payload",
  rule='R12.1')
M('C12-keepalive-direct-write', 'C12', CONN,
  "            keep_alive_packet.keep_alive_id = packet.keep_alive_id\n            self.connection.write_packet(keep_alive_packet)",
  "            keep_alive_packet.keep_alive_id = packet.keep_alive_id\n            keep_alive_packet.context = self.connection.context\n            keep_alive_packet.write(self.connection.socket)",
  rule='R12.1')
M('C12-lock-not-reentrant', 'C12', CONN, "        self._write_lock = RLock()",
  "        self._write_lock = threading.Lock()", rule='R12.2')
M('C12-socket-not-cleared', 'C12', CONN, "                        self.socket.close()\n                        self.socket = None",
  "                        self.socket.close()", rule='R12.4')
M('C12-run-pop-outside-lock', 'C12', CONN,
  "            with self.connection._write_lock:\n                try:\n                    while not self.interrupt and self.connection._pop_packet():\n                        num_packets += 1\n                        if num_packets >= 300:\n                            break\n                    exc_info = None\n                except IOError:\n                    exc_info = sys.exc_info()\n",
  "            try:\n                while not self.interrupt and self.connection._pop_packet():\n                    num_packets += 1\n                    if num_packets >= 300:\n                        break\n                exc_info = None\n            except IOError:\n                exc_info = sys.exc_info()\n            with self.connection._write_lock:\n",
  rule='R12.2')
M('C12-twin-rename-lock', 'C12', CONN, "_write_lock", "_wlock", count=10, expect='silent')
M('C12-twin-nested-with', 'C12', CONN,
  "        if force:\n            with self._write_lock:\n                self._write_packet(packet)",
  "        if force:\n            with self._write_lock:\n                with self._write_lock:\n                    self._write_packet(packet)",
  expect='silent')

# ---------------------------------------------------------------- C15
M('C15-rebreak-D7', 'C15', CONN,
  "                data = stream.read(length - len(packet_data.get_writable()))\n                if len(data) < 1:\n                    raise EOFError(\"Unexpected end of message.\")\n                packet_data.send(data)",
  "                packet_data.send(\n                    stream.read(length - len(packet_data.get_writable())))",
  rule='R15.1')
M('C15-emptiness-wrong-variable', 'C15', CONN,
  "                if len(data) < 1:\n                    raise EOFError(\"Unexpected end of message.\")\n                packet_data.send(data)",
  "                if length < 1:\n                    raise EOFError(\"Unexpected end of message.\")\n                packet_data.send(data)",
  rule='R15.1')
M('C15-break-on-empty', 'C15', CONN,
  "                if len(data) < 1:\n                    raise EOFError(\"Unexpected end of message.\")\n                packet_data.send(data)",
  "                if len(data) < 1:\n                    break\n                packet_data.send(data)", rule='R15.2')
M('C15-continue-on-empty', 'C15', CONN,
  "                if len(data) < 1:\n                    raise EOFError(\"Unexpected end of message.\")\n                packet_data.send(data)",
  "                if len(data) < 1:\n                    continue\n                packet_data.send(data)", rule='R15.1')
M('C15-varint-eof-ignored', 'C15', BASIC,
  "            if len(byte) < 1:\n                raise EOFError(\"Unexpected end of message.\")\n\n            byte = ord(byte)",
  "            if len(byte) < 1:\n                continue\n\n            byte = ord(byte)", rule='R15.1')
M('C15-fallback-any-exception', 'C15', CONN, "        if isinstance(exc, EOFError):", "        if isinstance(exc, Exception):",
  rule='R15.5')
M('C15-wrapper-buffers', 'C15', ENC,
  "    def read(self, length):\n        return self.decryptor.update(self.actual_file_object.read(length))",
  "    def read(self, length):\n        data = b''\n        while len(data) < length:\n            data += self.decryptor.update(self.actual_file_object.read(length - len(data)))\n        return data",
  rule='R15.4')
M('C15-react-on-partial', 'C15', CONN,
  "                packet = self.connection.reactor.read_packet(\n                    self.connection.file_object, timeout=read_timeout)\n                if not packet:\n                    break",
  "                packet = self.connection.reactor.read_packet(\n                    self.connection.file_object, timeout=read_timeout)\n                if not packet:\n                    packet = packets.Packet()",
  rule='R15.2')
M('C15-retry-loop-in-handler', 'C15', CONN,
  "    def handle_failure(self):\n        self.handle_proto_version(self.connection.default_proto_version)",
  "    def handle_failure(self):\n        while True:\n            data = self.connection.file_object.read(1)\n            if self.connection.connected:\n                break\n        self.handle_proto_version(self.connection.default_proto_version)",
  rule='R15.1')
M('C15-twin-not-chunk', 'C15', CONN, "                if len(data) < 1:\n                    raise EOFError(\"Unexpected end of message.\")",
  "                if not data:\n                    raise EOFError(\"Unexpected end of message.\")", expect='silent')
M('C15-twin-rename', 'C15', CONN,
  "                data = stream.read(length - len(packet_data.get_writable()))\n                if len(data) < 1:\n                    raise EOFError(\"Unexpected end of message.\")\n                packet_data.send(data)",
  "                chunk = stream.read(length - len(packet_data.get_writable()))\n                if len(chunk) == 0:\n                    raise EOFError(\"Unexpected end of message.\")\n                packet_data.send(chunk)",
  expect='silent')

# ---------------------------------------------------------------- C16
M('C16-thread-in-connect', 'C16', CONN,
  "                self.reactor = PlayingStatusReactor(self)\n            self._start_network_thread()",
  "                self.reactor = PlayingStatusReactor(self)\n            self.networking_thread = NetworkingThread(self)\n            self.networking_thread.start()",
  rule='R16.1')
M('C16-check-after-connect', 'C16', CONN,
  "            self._check_connection()\n\n            self._connect()\n            self._handshake(next_state=STATE_STATUS)",
  "            self._connect()\n            self._check_connection()\n            self._handshake(next_state=STATE_STATUS)",
  rule='R16.3')
M('C16-check-outside-lock', 'C16', CONN,
  "        with self._write_lock:  # pylint: disable=not-context-manager\n            self._check_connection()\n\n            # It is important",
  "        self._check_connection()\n        with self._write_lock:  # pylint: disable=not-context-manager\n\n            # It is important",
  rule='R16.3')
M('C16-join-removed', 'C16', CONN,
  "                if self.previous_thread.is_alive():\n                    self.previous_thread.join()\n", "",
  rule='R16.2')
M('C16-promotion-after-run', 'C16', CONN,
  "                with self.connection._write_lock:\n                    self.connection.networking_thread = self\n                    self.connection.new_networking_thread = None\n            self._run()",
  "            self._run()\n            if self.previous_thread is not None:\n                with self.connection._write_lock:\n                    self.connection.networking_thread = self\n                    self.connection.new_networking_thread = None",
  rule='R16.2')
M('C16-refusal-conditions-differ', 'C16', CONN,
  "        if self.networking_thread is not None and \\\n           not self.networking_thread.interrupt or \\\n           self.new_networking_thread is not None:\n            raise InvalidState('There is an existing connection.')",
  "        if self.networking_thread is not None and \\\n           not self.networking_thread.interrupt:\n            raise InvalidState('There is an existing connection.')",
  rule='R16.3')
M('C16-rebreak-D8-init', 'C16', CONN, "        self.socket = None\n        self.file_object = None\n", "", rule='R16.4')
M('C16-rebreak-D8-publication', 'C16', CONN,
  "        sock = socket.socket(ai_faml, ai_type, ai_prot)\n        try:\n            sock.connect(ai_addr)\n            file_object = sock.makefile(\"rb\", 0)\n        except Exception:\n            sock.close()\n            raise\n        self.socket = sock\n        self.file_object = file_object",
  "        self.socket = socket.socket(ai_faml, ai_type, ai_prot)\n        self.socket.connect(ai_addr)\n        self.file_object = self.socket.makefile(\"rb\", 0)",
  rule='R16.4')
M('C16-rebreak-D9', 'C16', CONN,
  "            except IOError:\n                # The connection is already broken: nothing more can be sent.\n                pass\n            finally:",
  "            finally:", rule='R16.5')
M('C16-inner-loop-ignores-interrupt', 'C16', CONN,
  "            while num_packets < 50 and not self.interrupt:", "            while num_packets < 50:", rule='R16.6')
M('C16-disconnect-interrupts-old-thread', 'C16', CONN,
  "                if self.new_networking_thread is not None:\n                    self.new_networking_thread.interrupt = True\n                elif self.networking_thread is not None:\n                    self.networking_thread.interrupt = True",
  "                if self.networking_thread is not None:\n                    self.networking_thread.interrupt = True\n                elif self.new_networking_thread is not None:\n                    self.new_networking_thread.interrupt = True",
  rule='R16.6')
M('C16-slot-not-cleared', 'C16', CONN,
  "        finally:\n            with self.connection._write_lock:\n                self.connection.networking_thread = None",
  "        finally:\n            pass", rule='R16.2')
M('C16-twin-reorder-init', 'C16', CONN, "        self.socket = None\n        self.file_object = None\n        self._outgoing_packet_queue = deque()\n",
  "        self._outgoing_packet_queue = deque()\n        self.file_object = None\n        self.socket = None\n", expect='silent')
M('C16-twin-demorgan', 'C16', CONN,
  "        if self.networking_thread is not None and \\\n           not self.networking_thread.interrupt or \\\n           self.new_networking_thread is not None:\n            raise InvalidState('There is an existing connection.')",
  "        if not ((self.networking_thread is None or\n                 self.networking_thread.interrupt) and\n                self.new_networking_thread is None):\n            raise InvalidState('There is an existing connection.')",
  expect='silent')

# ---------------------------------------------------------------- C13
M('C13-react-before-early', 'C13', CONN,
  "            for listener in self.early_packet_listeners:\n                listener.call_packet(packet)\n            self.reactor.react(packet)",
  "            self.reactor.react(packet)\n            for listener in self.early_packet_listeners:\n                listener.call_packet(packet)",
  rule='R13.2')
M('C13-ignore-around-early-only', 'C13', CONN,
  "        try:\n            for listener in self.early_packet_listeners:\n                listener.call_packet(packet)\n            self.reactor.react(packet)\n            for listener in self.packet_listeners:\n                listener.call_packet(packet)\n        except IgnorePacket:\n            pass",
  "        try:\n            for listener in self.early_packet_listeners:\n                listener.call_packet(packet)\n        except IgnorePacket:\n            pass\n        self.reactor.react(packet)\n        for listener in self.packet_listeners:\n            listener.call_packet(packet)",
  rule='R13.2')
M('C13-register-insert-front', 'C13', CONN,
  "        target.append(packets.PacketListener(method, *packet_types, **kwds))",
  "        target.insert(0, packets.PacketListener(method, *packet_types, **kwds))", rule='R13.1')
M('C13-selection-crossed', 'C13', CONN,
  "            else self.early_packet_listeners if early and not outgoing \\\n            else self.outgoing_packet_listeners if not early \\",
  "            else self.outgoing_packet_listeners if early and not outgoing \\\n            else self.early_packet_listeners if not early \\",
  rule='R13.1')
M('C13-call-packet-no-return', 'C13', LISTENER,
  "                self.callback(packet)\n                return True\n        return False",
  "                self.callback(packet)\n        return False", rule='R13.4')
M('C13-filter-exact-type', 'C13', LISTENER, "            if isinstance(packet, packet_type):",
  "            if type(packet) is packet_type:", rule='R13.4')
M('C13-outgoing-after-before-write', 'C13', CONN,
  "            for listener in self.outgoing_packet_listeners:\n                listener.call_packet(packet)\n        except IgnorePacket:",
  "        except IgnorePacket:", rule='R13.3',
  edits=[dict(file=CONN, find="            for listener in self.early_outgoing_packet_listeners:\n                listener.call_packet(packet)\n",
              repl="            for listener in self.early_outgoing_packet_listeners:\n                listener.call_packet(packet)\n            for listener in self.outgoing_packet_listeners:\n                listener.call_packet(packet)\n"),
         dict(file=CONN, find="            for listener in self.outgoing_packet_listeners:\n                listener.call_packet(packet)\n        except IgnorePacket:",
              repl="        except IgnorePacket:")])
M('C13-reversed-iteration', 'C13', CONN, "            for listener in self.packet_listeners:\n",
  "            for listener in reversed(self.packet_listeners):\n", rule='R13.2')
M('C13-broad-except', 'C13', CONN,
  "            for listener in self.packet_listeners:\n                listener.call_packet(packet)\n        except IgnorePacket:\n            pass",
  "            for listener in self.packet_listeners:\n                listener.call_packet(packet)\n        except Exception:\n            pass",
  rule='R13.2')
M('C13-twin-rename-lists', 'C13', CONN, "early_outgoing_packet_listeners", "pre_send_listeners", count=3, expect='silent')
M('C13-twin-if-chain', 'C13', CONN,
  "        target = self.packet_listeners if not early and not outgoing \\\n            else self.early_packet_listeners if early and not outgoing \\\n            else self.outgoing_packet_listeners if not early \\\n            else self.early_outgoing_packet_listeners\n",
  "        if outgoing:\n            target = self.early_outgoing_packet_listeners if early \\\n                else self.outgoing_packet_listeners\n        elif early:\n            target = self.early_packet_listeners\n        else:\n            target = self.packet_listeners\n",
  expect='silent')

# ---------------------------------------------------------------- C14
M('C14-remove-break', 'C14', CONN,
  "                    handler(exc, exc_info)\n                    caught = True\n                    break\n",
  "                    handler(exc, exc_info)\n                    caught = True\n", rule='R14.2')
M('C14-rebind-only-exc', 'C14', CONN,
  "                    caught = True\n                    break\n                except Exception as new_exc:\n                    exc, exc_info = new_exc, sys.exc_info()",
  "                    caught = True\n                    break\n                except Exception as new_exc:\n                    exc = new_exc",
  rule='R14.2')
M('C14-final-only-if-not-caught', 'C14', CONN, "        if final_handler not in (None, False):",
  "        if final_handler not in (None, False) and not caught:", rule='R14.3')
M('C14-record-before-final', 'C14', CONN,
  "        # Call the user-specified final exception handler.\n        if final_handler not in (None, False):",
  "        self.exception, self.exc_info = exc, exc_info\n        # Call the user-specified final exception handler.\n        if final_handler not in (None, False):",
  rule='R14.4', edits=[
      dict(file=CONN, find="        # Call the user-specified final exception handler.\n        if final_handler not in (None, False):",
           repl="        self.exception, self.exc_info = exc, exc_info\n        # Call the user-specified final exception handler.\n        if final_handler not in (None, False):"),
      dict(file=CONN, find="        # Record the exception.\n        self.exception, self.exc_info = exc, exc_info\n", repl="")])
M('C14-drop-interrupt-mark', 'C14', CONN,
  "        except Exception as e:\n            self.interrupt = True\n            self.connection._handle_exception(e, sys.exc_info())",
  "        except Exception as e:\n            self.connection._handle_exception(e, sys.exc_info())", rule='R14.1')
M('C14-reraise-when-final-false', 'C14', CONN, "        if final_handler is None and not caught:",
  "        if not final_handler and not caught:", rule='R14.6')
M('C14-reraise-always-when-none', 'C14', CONN, "        if final_handler is None and not caught:",
  "        if final_handler is None:", rule='R14.6')
M('C14-guard-isinstance-only', 'C14', CONN, "            if not exc_types or isinstance(exc, exc_types):",
  "            if exc_types and isinstance(exc, exc_types):", rule='R14.2')
M('C14-early-appends', 'C14', CONN, "            self._exception_handlers.insert(0, (handler_func, exc_types))",
  "            self._exception_handlers.append((handler_func, exc_types))", rule='R14.7')
M('C14-close-always', 'C14', CONN,
  "            if (self.new_networking_thread\n                    or self.networking_thread).interrupt:\n                self.disconnect(immediate=True)",
  "            self.disconnect(immediate=True)", rule='R14.5')
M('C14-close-old-slot', 'C14', CONN,
  "            if (self.new_networking_thread\n                    or self.networking_thread).interrupt:",
  "            if (self.networking_thread\n                    or self.new_networking_thread).interrupt:", rule='R14.5')
M('C14-run-outside-try', 'C14', CONN,
  "            self._run()\n            self.connection._handle_exit()\n        except Exception as e:",
  "            self._run()\n        except Exception as e:", rule='R14.1',
  edits=[dict(file=CONN, find="            self._run()\n            self.connection._handle_exit()\n        except Exception as e:",
              repl="            self._run()\n        except Exception as e:"),
         dict(file=CONN, find="        finally:\n            with self.connection._write_lock:\n                self.connection.networking_thread = None",
              repl="        finally:\n            with self.connection._write_lock:\n                self.connection.networking_thread = None\n        self.connection._handle_exit()")])
M('C14-final-exception-lost', 'C14', CONN,
  "            try:\n                final_handler(exc, exc_info)\n            except Exception as new_exc:\n                exc, exc_info = new_exc, sys.exc_info()",
  "            try:\n                final_handler(exc, exc_info)\n            except Exception as new_exc:\n                pass", rule='R14.4')
M('C14-twin-rename-caught', 'C14', CONN, "caught = ", "was_caught = ", count=2, expect='silent',
  edits=[dict(file=CONN, find="caught = ", repl="was_caught = ", count=2),
         dict(file=CONN, find="and not caught:", repl="and not was_caught:")])
M('C14-twin-is-not-form', 'C14', CONN, "        if final_handler not in (None, False):",
  "        if final_handler is not None and final_handler is not False:", expect='silent')
M('C14-twin-caught-init', 'C14', CONN,
  "        for handler, exc_types in self._exception_handlers:\n            if not exc_types or isinstance(exc, exc_types):\n                try:\n                    handler(exc, exc_info)\n                    caught = True\n                    break\n                except Exception as new_exc:\n                    exc, exc_info = new_exc, sys.exc_info()\n        else:\n            caught = False\n",
  "        caught = False\n        for handler, exc_types in self._exception_handlers:\n            if not exc_types or isinstance(exc, exc_types):\n                try:\n                    handler(exc, exc_info)\n                    caught = True\n                    break\n                except Exception as new_exc:\n                    exc, exc_info = new_exc, sys.exc_info()\n",
  expect='silent')

# ---------------------------------------------------------------- C17
M('C17-update-order', 'C17', ENC,
  "    verification_hash.update(shared_secret)\n    verification_hash.update(public_key)",
  "    verification_hash.update(public_key)\n    verification_hash.update(shared_secret)", rule='R17.1')
M('C17-unsigned', 'C17', ENC, "_number_from_bytes(sha1_hash.digest(), signed=True)",
  "_number_from_bytes(sha1_hash.digest(), signed=False)", rule='R17.2')
M('C17-upper-hex', 'C17', ENC, "return format(number_representation, 'x')",
  "return format(number_representation, 'X')", rule='R17.2')
M('C17-padded-hex', 'C17', ENC, "return format(number_representation, 'x')",
  "return format(number_representation, '040x')", rule='R17.2')
M('C17-little-endian', 'C17', ENC, "return int.from_bytes(b, byteorder='big', signed=signed)",
  "return int.from_bytes(b, byteorder='little', signed=signed)", rule='R17.2')
M('C17-latin1', 'C17', ENC, "verification_hash.update(server_id.encode('utf-8'))",
  "verification_hash.update(server_id.encode('latin-1'))", rule='R17.1')
M('C17-use-site-swapped', 'C17', CONN, "packet.server_id, secret, packet.public_key)",
  "packet.server_id, packet.public_key, secret)", rule='R17.3')
M('C17-sha256', 'C17', ENC, "from hashlib import sha1", "from hashlib import sha256 as sha1", rule='R17.1')
M('C17-hexdigest', 'C17', ENC,
  "    number_representation = _number_from_bytes(sha1_hash.digest(), signed=True)\n    return format(number_representation, 'x')",
  "    return sha1_hash.hexdigest()", expect='undecided')
M('C17-twin-single-update', 'C17', ENC,
  "    verification_hash = sha1()\n\n    verification_hash.update(server_id.encode('utf-8'))\n    verification_hash.update(shared_secret)\n    verification_hash.update(public_key)\n",
  "    verification_hash = sha1(server_id.encode('utf-8') + shared_secret + public_key)\n", expect='silent')
M('C17-twin-positional-big', 'C17', ENC, "return int.from_bytes(b, byteorder='big', signed=signed)",
  "return int.from_bytes(b, 'big', signed=signed)", expect='silent')

# ---------------------------------------------------------------- C10
M('C10-force-removed', 'C10', CONN, "self.connection.write_packet(encryption_response, force=True)",
  "self.connection.write_packet(encryption_response)", rule='R10.1')
M('C10-wrappers-before-response', 'C10', CONN,
  "            # Forced because we'll have encrypted the connection by the time\n            # it reaches the outgoing queue\n            self.connection.write_packet(encryption_response, force=True)\n\n            # Enable the encryption\n            cipher = encryption.create_AES_cipher(secret)\n            encryptor = cipher.encryptor()\n            decryptor = cipher.decryptor()\n            self.connection.socket = encryption.EncryptedSocketWrapper(\n                self.connection.socket, encryptor, decryptor)\n",
  "            # Enable the encryption\n            cipher = encryption.create_AES_cipher(secret)\n            encryptor = cipher.encryptor()\n            decryptor = cipher.decryptor()\n            self.connection.socket = encryption.EncryptedSocketWrapper(\n                self.connection.socket, encryptor, decryptor)\n            self.connection.write_packet(encryption_response, force=True)\n",
  rule='R10.1')
M('C10-only-socket-wrapped', 'C10', CONN,
  "            self.connection.file_object = \\\n                encryption.EncryptedFileObjectWrapper(\n                    self.connection.file_object, decryptor)\n",
  "", rule='R10.1')
M('C10-second-secret-for-cipher', 'C10', CONN, "            cipher = encryption.create_AES_cipher(secret)",
  "            cipher = encryption.create_AES_cipher(\n                encryption.generate_shared_secret())", rule='R10.1')
M('C10-response-slots-swapped', 'C10', CONN,
  "            encryption_response.shared_secret = encrypted_secret\n            encryption_response.verify_token = token",
  "            encryption_response.shared_secret = token\n            encryption_response.verify_token = encrypted_secret",
  rule='R10.1')
M('C10-unpack-order-swapped', 'C10', CONN, "            token, encrypted_secret = encryption.encrypt_token_and_secret(",
  "            encrypted_secret, token = encryption.encrypt_token_and_secret(", rule='R10.1')
M('C10-helper-return-swapped', 'C10', ENC, "    return encrypted_token, encrypted_secret",
  "    return encrypted_secret, encrypted_token", rule='R10.1')
M('C10-plugin-successful', 'C10', CONN, "message_id=packet.message_id, successful=False))",
  "message_id=packet.message_id, successful=True))", rule='R10.3')
M('C10-plugin-wrong-id', 'C10', CONN, "message_id=packet.message_id, successful=False))",
  "message_id=0, successful=False))", rule='R10.3')
M('C10-disconnect-returns-on-outdated', 'C10', CONN,
  "            if match:\n                ver = match.group('ver')\n                self.connection._version_mismatch(server_version=ver)\n            raise LoginDisconnect(",
  "            if match:\n                return\n            raise LoginDisconnect(", rule='R10.5')
M('C10-threshold-without-enable', 'C10', CONN,
  "class LoginReactor(PacketReactor):", "class LoginReactor(PacketReactor):", expect='violation', rule='R10.2',
  edits=[dict(file=CONN, find="        elif packet.packet_name == \"set compression\":\n            self.connection.options.compression_threshold = packet.threshold\n            self.connection.options.compression_enabled = True\n\n        elif packet.packet_name == \"login plugin request\":",
              repl="        elif packet.packet_name == \"set compression\":\n            self.connection.options.compression_threshold = packet.threshold\n\n        elif packet.packet_name == \"login plugin request\":")])
M('C10-join-offline-too', 'C10', CONN, "            if packet.server_id != '-':", "            if packet.server_id:",
  rule='R10.1')
M('C10-decryptor-twice', 'C10', CONN,
  "                encryption.EncryptedFileObjectWrapper(\n                    self.connection.file_object, decryptor)",
  "                encryption.EncryptedFileObjectWrapper(\n                    self.connection.file_object, cipher.decryptor())", rule='R10.1')
M('C10-pattern-unanchored', 'C10', CONN, "r\" I'm still on) (?P<ver>\\S+)$\", msg)", "r\" I'm still on) (?P<ver>\\S+)\", msg)",
  rule='R10.5')
M('C10-arm-name-typo', 'C10', CONN, "        elif packet.packet_name == \"login success\":",
  "        elif packet.packet_name == \"login sucess\":", rule='R10.7')
M('C10-success-keeps-login-reactor', 'C10', CONN,
  "            self.connection.reactor = PlayingReactor(self.connection)", "            pass", rule='R10.4')
M('C10-login-start-unnamed', 'C10', CONN,
  "                else:\n                    login_start_packet.name = self.username\n", "                else:\n                    pass\n",
  rule='R10.8')
M('C10-twin-rename-contexts', 'C10', CONN, "", "", expect='silent',
  edits=[dict(file=CONN, find="            decryptor = cipher.decryptor()", repl="            dec_ctx = cipher.decryptor()"),
         dict(file=CONN, find="self.connection.socket, encryptor, decryptor)", repl="self.connection.socket, encryptor, dec_ctx)"),
         dict(file=CONN, find="self.connection.file_object, decryptor)", repl="self.connection.file_object, dec_ctx)")])
M('C10-twin-kwargs-response', 'C10', CONN,
  "            encryption_response = serverbound.login.EncryptionResponsePacket()\n            encryption_response.shared_secret = encrypted_secret\n            encryption_response.verify_token = token\n",
  "            encryption_response = serverbound.login.EncryptionResponsePacket(\n                shared_secret=encrypted_secret, verify_token=token)\n",
  expect='silent')

# ---------------------------------------------------------------- C18
M('C18-cfb-not-cfb8', 'C18', ENC, "modes.CFB8(shared_secret)", "modes.CFB(shared_secret)", rule='R18.1')
M('C18-iv-zero', 'C18', ENC, "modes.CFB8(shared_secret)", "modes.CFB8(b'\\x00' * 16)", rule='R18.1')
M('C18-urandom-32', 'C18', ENC, "return os.urandom(16)", "return os.urandom(32)", rule='R18.2')
M('C18-oaep', 'C18', ENC, "from cryptography.hazmat.primitives.asymmetric.padding import PKCS1v15",
  "from cryptography.hazmat.primitives.asymmetric.padding import PKCS1v15 as _P, OAEP, MGF1\nfrom cryptography.hazmat.primitives import hashes\n\n\ndef PKCS1v15():\n    return OAEP(MGF1(hashes.SHA1()), hashes.SHA1(), None)",
  rule='R18.3')
M('C18-encryptor-inside-send', 'C18', ENC,
  "    def send(self, data):\n        self.actual_socket.send(self.encryptor.update(data))",
  "    def send(self, data):\n        self.actual_socket.send(self.encryptor.update(data) + self.encryptor.finalize())",
  rule='R18.5')
M('C18-secret-at-import', 'C18', ENC, "def generate_shared_secret():\n    return os.urandom(16)",
  "_SECRET = os.urandom(16)\n\n\ndef generate_shared_secret():\n    return _SECRET", rule='R18.2')
M('C18-wrong-direction', 'C18', ENC,
  "    def recv(self, length):\n        return self.decryptor.update(self.actual_socket.recv(length))",
  "    def recv(self, length):\n        return self.encryptor.update(self.actual_socket.recv(length))", rule='R18.5')
M('C18-wrapper-args-swapped', 'C18', CONN, "self.connection.socket, encryptor, decryptor)",
  "self.connection.socket, decryptor, encryptor)", rule='R18.4')
M('C18-token-encrypted-twice', 'C18', ENC, "    encrypted_secret = pubkey.encrypt(shared_secret, PKCS1v15())",
  "    encrypted_secret = pubkey.encrypt(verification_token, PKCS1v15())", rule='R18.3')
M('C18-key-reversed', 'C18', ENC, "algorithms.AES(shared_secret)", "algorithms.AES(shared_secret[::-1])", rule='R18.1')
M('C18-twin-kw', 'C18', ENC, "    cipher = Cipher(algorithms.AES(shared_secret), modes.CFB8(shared_secret),\n                    backend=default_backend())",
  "    key = shared_secret\n    cipher = Cipher(algorithm=algorithms.AES(key), mode=modes.CFB8(key),\n                    backend=default_backend())",
  expect='silent')

# ---------------------------------------------------------------- C11
M('C11-keepalive-omitted', 'C11', CONN,
  "            keep_alive_packet.keep_alive_id = packet.keep_alive_id\n            self.connection.write_packet(keep_alive_packet)",
  "            keep_alive_packet.keep_alive_id = packet.keep_alive_id", rule='R11.1')
M('C11-keepalive-twice', 'C11', CONN,
  "            keep_alive_packet.keep_alive_id = packet.keep_alive_id\n            self.connection.write_packet(keep_alive_packet)",
  "            keep_alive_packet.keep_alive_id = packet.keep_alive_id\n            self.connection.write_packet(keep_alive_packet)\n            self.connection.write_packet(keep_alive_packet)",
  rule='R11.1')
M('C11-keepalive-id-truncated', 'C11', CONN, "            keep_alive_packet.keep_alive_id = packet.keep_alive_id",
  "            keep_alive_packet.keep_alive_id = packet.keep_alive_id & 0x7FFFFFFF", rule='R11.1')
M('C11-keepalive-only-when-spawned', 'C11', CONN,
  "            keep_alive_packet.keep_alive_id = packet.keep_alive_id\n            self.connection.write_packet(keep_alive_packet)",
  "            keep_alive_packet.keep_alive_id = packet.keep_alive_id\n            if self.connection.spawned:\n                self.connection.write_packet(keep_alive_packet)",
  rule='R11.1')
M('C11-sb-keepalive-codec', 'C11', SB_PLAY, "class KeepAlivePacket(AbstractKeepAlivePacket):\n    @staticmethod",
  "class KeepAlivePacket(AbstractKeepAlivePacket):\n    get_definition = staticmethod(lambda context: [\n        {'keep_alive_id': Long} if context.protocol_later_eq(340)\n        else {'keep_alive_id': VarInt}])\n\n    @staticmethod",
  rule='R11.1', edits=[
      dict(file=SB_PLAY, find="class KeepAlivePacket(AbstractKeepAlivePacket):\n    @staticmethod",
           repl="class KeepAlivePacket(AbstractKeepAlivePacket):\n    get_definition = staticmethod(lambda context: [\n        {'keep_alive_id': Long} if context.protocol_later_eq(340)\n        else {'keep_alive_id': VarInt}])\n\n    @staticmethod"),
      dict(file=SB_PLAY, find="    Double, Float, Boolean, VarInt, String, Byte, Position, Enum,",
           repl="    Double, Float, Boolean, VarInt, String, Byte, Position, Enum, Long,")])
M('C11-teleport-id-constant', 'C11', CONN, "                teleport_confirm.teleport_id = packet.teleport_id",
  "                teleport_confirm.teleport_id = 0", rule='R11.2')
M('C11-branch-108', 'C11', CONN, "            if self.connection.context.protocol_later_eq(107):",
  "            if self.connection.context.protocol_later_eq(108):", rule='R11.2')
M('C11-spawned-one-arm', 'C11', CONN,
  "                self.connection.write_packet(position_response)\n            self.connection.spawned = True",
  "                self.connection.write_packet(position_response)\n                self.connection.spawned = True", rule='R11.2')
M('C11-echo-yaw-pitch-swapped', 'C11', CONN,
  "                position_response.yaw = packet.yaw\n                position_response.pitch = packet.pitch",
  "                position_response.yaw = packet.pitch\n                position_response.pitch = packet.yaw", rule='R11.2')
M('C11-handle-exit-from-disconnect', 'C11', CONN,
  "        elif packet.packet_name == \"disconnect\":\n            self.connection.disconnect()\n\n\nclass StatusReactor",
  "        elif packet.packet_name == \"disconnect\":\n            self.connection.disconnect()\n            self.connection._handle_exit()\n\n\nclass StatusReactor",
  rule='R11.4')
M('C11-exit-guard-dropped', 'C11', CONN, "        if not self.connected and self.handle_exit is not None:",
  "        if self.handle_exit is not None:", rule='R11.4')
M('C11-unknown-id-reads-stream', 'C11', CONN,
  "                packet = packets.Packet()\n                packet.context = self.connection.context\n                packet.id = packet_id",
  "                packet = packets.Packet()\n                packet.context = self.connection.context\n                packet.id = packet_id\n                packet.data = stream.read(1)",
  rule='R11.3')
M('C11-disconnect-ignored', 'C11', CONN,
  "        elif packet.packet_name == \"disconnect\":\n            self.connection.disconnect()\n\n\nclass StatusReactor",
  "        elif packet.packet_name == \"disconnect\":\n            pass\n\n\nclass StatusReactor", rule='R11.4')
M('C11-teleport-field-unset', 'C11', CONN, "                teleport_confirm.teleport_id = packet.teleport_id\n", "",
  rule='R11.8')
M('C11-twin-reorder-echo-fields', 'C11', CONN,
  "                position_response.x = packet.x\n                position_response.feet_y = packet.y\n                position_response.z = packet.z",
  "                position_response.z = packet.z\n                position_response.feet_y = packet.y\n                position_response.x = packet.x",
  expect='silent')
M('C11-twin-earlier-form', 'C11', CONN,
  "            if self.connection.context.protocol_later_eq(107):\n                teleport_confirm = serverbound.play.TeleportConfirmPacket()\n                teleport_confirm.teleport_id = packet.teleport_id\n                self.connection.write_packet(teleport_confirm)\n            else:\n",
  "            if not self.connection.context.protocol_earlier(107):\n                teleport_confirm = serverbound.play.TeleportConfirmPacket(\n                    teleport_id=packet.teleport_id)\n                self.connection.write_packet(teleport_confirm)\n            else:\n",
  expect='silent')

# ---------------------------------------------------------------- C09
M('C09-status-request-on-single', 'C09', CONN,
  "                self.write_packet(login_start_packet)\n                self.reactor = LoginReactor(self)",
  "                self.write_packet(serverbound.status.RequestPacket())\n                self.write_packet(login_start_packet)\n                self.reactor = LoginReactor(self)",
  rule='R09.2')
M('C09-next-state-unassigned', 'C09', CONN, "        handshake.next_state = next_state\n", "", rule='R09.3')
M('C09-handshake-default-version', 'C09', CONN, "        handshake.protocol_version = self.context.protocol_version",
  "        handshake.protocol_version = self.default_proto_version", rule='R09.3')
M('C09-mismatch-wording-swapped', 'C09', CONN,
  "        ss = 'supported, but not allowed for this connection' \\\n             if server_protocol in SUPPORTED_PROTOCOL_VERSIONS \\\n             else 'not supported'",
  "        ss = 'not supported' \\\n             if server_protocol in SUPPORTED_PROTOCOL_VERSIONS \\\n             else 'supported, but not allowed for this connection'",
  rule='R09.4m')
M('C09-empty-status-after-version-test', 'C09', CONN,
  "        if status == {}:\n            # This can occur when we connect to a Mojang server while it is\n            # still initialising, so it must not cause the client to connect\n            # with the default version.\n            raise IOError('Invalid server status.')\n        elif 'version' not in status or 'protocol' not in status['version']:\n            return self.handle_failure()",
  "        if 'version' not in status or 'protocol' not in status['version']:\n            return self.handle_failure()\n        elif status == {}:\n            raise IOError('Invalid server status.')",
  rule='R09.4')
M('C09-fallback-any-exception', 'C09', CONN, "        if isinstance(exc, EOFError):", "        if isinstance(exc, Exception):",
  rule='R09.5')
M('C09-handle-status-twice', 'C09', CONN,
  "            else:\n                self.connection.disconnect()\n            self.handle_status(status_dict)",
  "            else:\n                self.connection.disconnect()\n                self.handle_status(status_dict)\n            self.handle_status(status_dict)",
  rule='R09.6')
M('C09-ping-always', 'C09', CONN, "            if self.do_ping:\n                ping_packet = serverbound.status.PingPacket()",
  "            if True:\n                ping_packet = serverbound.status.PingPacket()", rule='R09.6')
M('C09-mismatch-unsupported-only', 'C09', CONN, "        if proto not in self.connection.allowed_proto_versions:",
  "        if proto not in SUPPORTED_PROTOCOL_VERSIONS:", rule='R09.4')
M('C09-not-narrowed', 'C09', CONN, "        self.connection.allowed_proto_versions = {proto_version}\n        self.connection.connect()",
  "        self.connection.connect()", rule='R09.4')
M('C09-helper-accepts-known', 'C09', CONN, "                proto_version = SUPPORTED_MINECRAFT_VERSIONS.get(version)",
  "                proto_version = KNOWN_MINECRAFT_VERSIONS.get(version)", rule='R09.1')
# (first catalogued as a twin: wrong -- 40 unsupported snapshot names share
# their protocol number with a supported release and are then accepted; seed
# C09-d demonstrates it)
M('C09-helper-no-membership-test', 'C09', CONN,
  "            if proto_version not in SUPPORTED_PROTOCOL_VERSIONS:\n                raise ValueError('Unsupported version number: %r.' % version)",
  "            if proto_version is None:\n                raise ValueError('Unsupported version number: %r.' % version)",
  rule='R09.1')
M('C09-latency-reversed', 'C09', CONN, "                self.handle_ping(now - packet.time)",
  "                self.handle_ping(packet.time - now)", rule='R09.6')
M('C09-login-name-always-username', 'C09', CONN,
  "                if self.auth_token:\n                    login_start_packet.name = self.auth_token.profile.name\n                else:\n                    login_start_packet.name = self.username",
  "                login_start_packet.name = self.username", rule='R09.2')
M('C09-version-store-after-handshake', 'C09', CONN,
  "            self.context.protocol_version \\\n                = max(self.allowed_proto_versions,\n                      key=PROTOCOL_VERSION_INDICES.get)\n\n            self.spawned = False\n            self._connect()",
  "            self.spawned = False\n            self._connect()", rule='R09.8')
M('C09-version-max-numeric', 'C09', CONN,
  "                = max(self.allowed_proto_versions,\n                      key=PROTOCOL_VERSION_INDICES.get)\n\n            self.spawned = False",
  "                = max(self.allowed_proto_versions)\n\n            self.spawned = False", rule='R09.8')
M('C09-status-false-keeps-printing', 'C09', CONN,
  "            if handle_status is False:\n                self.reactor.handle_status = lambda *args, **kwds: None\n            elif handle_status is not None:",
  "            if handle_status is not None:", rule='R09.6')
M('C09-mismatch-drops-name', 'C09', CONN, "                server_version=status['version'].get('name'))",
  "                server_version=None)", rule='R09.4')
M('C09-twin-reorder-handshake', 'C09', CONN,
  "        handshake.server_address = self.options.address\n        handshake.server_port = self.options.port",
  "        handshake.server_port = self.options.port\n        handshake.server_address = self.options.address", expect='silent')
M('C09-twin-in-form', 'C09', CONN,
  "        if proto not in self.connection.allowed_proto_versions:\n            self.connection._version_mismatch(\n                server_protocol=proto,\n                server_version=status['version'].get('name'))\n\n        self.handle_proto_version(proto)",
  "        if proto in self.connection.allowed_proto_versions:\n            self.handle_proto_version(proto)\n        else:\n            self.connection._version_mismatch(\n                server_protocol=proto,\n                server_version=status['version'].get('name'))",
  expect='silent')

# ---------------------------------------------------------------- C01
M('C01-length-of-wrong-buffer', 'C01', PACKET,
  "        VarInt.send(len(packet_buffer.get_writable()), socket)  # Packet Size",
  "        VarInt.send(len(packet_data), socket)  # Packet Size", expect='violation')
M('C01-data-length-of-compressed', 'C01', PACKET, "                VarInt.send(len(packet_data), packet_buffer)",
  "                VarInt.send(len(compressed_data), packet_buffer)", rule='R01.1')
M('C01-drop-reset', 'C01', PACKET,
  "                compressed_data = compress(packet_data)\n                packet_buffer.reset()",
  "                compressed_data = compress(packet_data)", rule='R01.1')
M('C01-reader-ge-zero', 'C01', CONN, "                if decompressed_size > 0:", "                if decompressed_size >= 0:",
  rule='R01.2')
M('C01-loop-overread', 'C01', CONN, "                data = stream.read(length - len(packet_data.get_writable()))",
  "                data = stream.read(length)", rule='R01.3')
M('C01-cache-compression-in-thread', 'C01', CONN,
  "            if self.options.compression_enabled:\n                packet.write(self.socket, self.options.compression_threshold)",
  "            if self._compress:\n                packet.write(self.socket, self.options.compression_threshold)",
  edits=[dict(file=CONN, find="            if self.options.compression_enabled:\n                packet.write(self.socket, self.options.compression_threshold)",
              repl="            if self._compress:\n                packet.write(self.socket, self.options.compression_threshold)"),
         dict(file=CONN, find="        self.options.compression_enabled = False\n        self.options.compression_threshold = -1\n        self.connected = True",
              repl="        self.options.compression_enabled = False\n        self.options.compression_threshold = -1\n        self._compress = self.options.compression_enabled\n        self.connected = True")])
M('C01-no-size-check', 'C01', CONN,
  "                    assert len(decompressed_packet) == decompressed_size, \\\n                        'decompressed length %d, but expected %d' % \\\n                        (len(decompressed_packet), decompressed_size)\n",
  "", rule='R01.2')
M('C01-no-rewind', 'C01', CONN,
  "                    packet_data.send(decompressed_packet)\n                    packet_data.reset_cursor()",
  "                    packet_data.send(decompressed_packet)", rule='R01.2')
M('C01-uncompressed-marker-one', 'C01', PACKET, "                VarInt.send(0, packet_buffer)",
  "                VarInt.send(1, packet_buffer)", rule='R01.1')
M('C01-decoder-reads-stream', 'C01', CONN, "                packet.read(packet_data)", "                packet.read(stream)",
  rule='R01.3')
M('C01-threshold-when-disabled', 'C01', CONN,
  "            else:\n                packet.write(self.socket)\n",
  "            else:\n                packet.write(self.socket, self.options.compression_threshold)\n", rule='R01.1')
M('C01-wrapper-drops-empty', 'C01', ENC,
  "    def read(self, length):\n        return self.decryptor.update(self.actual_file_object.read(length))",
  "    def read(self, length):\n        data = self.actual_file_object.read(length)\n        while not data:\n            data = self.actual_file_object.read(length)\n        return self.decryptor.update(data)",
  rule='R01.5')
M('C01-twin-ge-threshold', 'C01', PACKET,
  "            if len(packet_buffer.get_writable()) > compression_threshold != -1:",
  "            if len(packet_buffer.get_writable()) >= compression_threshold != -1:", expect='silent')
M('C01-twin-rename', 'C01', PACKET, "packet_data", "payload", count=5, expect='silent')
M('C01-twin-hoist-writable', 'C01', PACKET,
  "        VarInt.send(len(packet_buffer.get_writable()), socket)  # Packet Size\n        socket.send(packet_buffer.get_writable())  # Packet Payload",
  "        frame = packet_buffer.get_writable()\n        VarInt.send(len(frame), socket)  # Packet Size\n        socket.send(frame)  # Packet Payload",
  expect='silent')

# ---------------------------------------------------------------- C19
M('C19-store-before-check', 'C19', AUTH,
  "        res = _make_request(AUTH_SERVER, \"authenticate\", payload)\n\n        _raise_from_response(res)\n\n        json_resp = res.json()\n\n        self.username = username",
  "        res = _make_request(AUTH_SERVER, \"authenticate\", payload)\n        self.username = username\n\n        _raise_from_response(res)\n\n        json_resp = res.json()\n",
  rule='R19.3')
M('C19-validate-always-true', 'C19', AUTH, "        if res.status_code == 204:\n            return True",
  "        return True", rule='R19.5')
M('C19-endpoint-typo', 'C19', AUTH, "res = _make_request(AUTH_SERVER, \"signout\",", "res = _make_request(AUTH_SERVER, \"sign_out\",",
  rule='R19.2')
M('C19-payload-key-renamed', 'C19', AUTH,
  "                            \"refresh\", {\"accessToken\": self.access_token,\n                                        \"clientToken\": self.client_token})",
  "                            \"refresh\", {\"access_token\": self.access_token,\n                                        \"clientToken\": self.client_token})",
  rule='R19.2')
M('C19-join-before-guard', 'C19', AUTH,
  "        if not self.authenticated:\n            err = \"AuthenticationToken hasn't been authenticated yet!\"\n            raise YggdrasilError(err)\n\n        res = _make_request(SESSION_SERVER, \"join\",\n                            {\"accessToken\": self.access_token,\n                             \"selectedProfile\": self.profile.to_dict(),\n                             \"serverId\": server_id})\n",
  "        res = _make_request(SESSION_SERVER, \"join\",\n                            {\"accessToken\": self.access_token,\n                             \"selectedProfile\": self.profile.to_dict(),\n                             \"serverId\": server_id})\n        if not self.authenticated:\n            err = \"AuthenticationToken hasn't been authenticated yet!\"\n            raise YggdrasilError(err)\n",
  rule='R19.5')
M('C19-raise-from-response-204', 'C19', AUTH, "    if res.status_code == requests.codes['ok']:\n        return None",
  "    if res.status_code in (requests.codes['ok'], 204, 403):\n        return None", rule='R19.4')
M('C19-authenticated-ignores-profile', 'C19', AUTH, "        if not self.profile:\n            return False\n\n        return True",
  "        return True", rule='R19.1')
M('C19-profile-bool-or', 'C19', AUTH, "bool_state = self.id_ is not None and self.name is not None",
  "bool_state = self.id_ is not None or self.name is not None", rule='R19.1')
M('C19-refresh-swaps-tokens', 'C19', AUTH,
  "        self.access_token = json_resp[\"accessToken\"]\n        self.client_token = json_resp[\"clientToken\"]\n        self.profile.id_ = json_resp[\"selectedProfile\"][\"id\"]\n        self.profile.name = json_resp[\"selectedProfile\"][\"name\"]\n\n        return True\n\n    def validate(self):",
  "        self.access_token = json_resp[\"clientToken\"]\n        self.client_token = json_resp[\"accessToken\"]\n        self.profile.id_ = json_resp[\"selectedProfile\"][\"id\"]\n        self.profile.name = json_resp[\"selectedProfile\"][\"name\"]\n\n        return True\n\n    def validate(self):",
  rule='R19.3')
M('C19-invalidate-stores', 'C19', AUTH,
  "        if res.status_code != 204:\n            _raise_from_response(res)\n        return True\n\n    def join(self, server_id):",
  "        self.access_token = None\n        if res.status_code != 204:\n            _raise_from_response(res)\n        return True\n\n    def join(self, server_id):",
  rule='R19.3')
M('C19-status-code-not-stored', 'C19', AUTH, "    exception.status_code = res.status_code\n", "", rule='R19.4')
M('C19-cause-from-message', 'C19', AUTH, "        exception.yggdrasil_cause = json_resp.get(\"cause\")",
  "        exception.yggdrasil_cause = json_resp.get(\"errorMessage\")", rule='R19.4')
M('C19-session-server-url', 'C19', AUTH, "SESSION_SERVER = \"https://sessionserver.mojang.com/session/minecraft\"",
  "SESSION_SERVER = \"https://sessionserver.mojang.com/session\"", rule='R19.2')
M('C19-post-form-encoded', 'C19', AUTH, "data=json.dumps(data),", "data=data,", rule='R19.2')
M('C19-join-ignores-errors', 'C19', AUTH,
  "                             \"serverId\": server_id})\n\n        if res.status_code != 204:\n            _raise_from_response(res)\n        return True",
  "                             \"serverId\": server_id})\n\n        return True", rule='R19.5')
M('C19-twin-payload-two-steps', 'C19', AUTH,
  "        res = _make_request(AUTH_SERVER, \"validate\",\n                            {\"accessToken\": self.access_token})",
  "        payload = {\"accessToken\": self.access_token}\n        res = _make_request(AUTH_SERVER, \"validate\", payload)", expect='silent')
M('C19-twin-authenticated-oneliner', 'C19', AUTH,
  "        if not self.username:\n            return False\n\n        if not self.access_token:\n            return False\n\n        if not self.client_token:\n            return False\n\n        if not self.profile:\n            return False\n\n        return True",
  "        return bool(self.username and self.access_token and\n                    self.client_token and self.profile)", expect='silent')

# ---------------------------------------------------------------- C20
M('C20-update-raising-lookup', 'C20', PLIST,
  "        def apply(self, player_list):\n            player = player_list.players_by_uuid.get(self.uuid)\n            if player:\n                player.ping = self.ping",
  "        def apply(self, player_list):\n            player = player_list.players_by_uuid[self.uuid]\n            if player:\n                player.ping = self.ping",
  rule='R20.1')
M('C20-update-inserts', 'C20', PLIST,
  "            player = player_list.players_by_uuid.get(self.uuid)\n            if player:\n                player.gamemode = self.gamemode",
  "            player = player_list.players_by_uuid.get(self.uuid)\n            if player:\n                player.gamemode = self.gamemode\n            else:\n                player_list.players_by_uuid[self.uuid] = self",
  rule='R20.1')
M('C20-remove-unguarded', 'C20', PLIST,
  "            if self.uuid in player_list.players_by_uuid:\n                del player_list.players_by_uuid[self.uuid]",
  "            del player_list.players_by_uuid[self.uuid]", rule='R20.1')
M('C20-update-wrong-field', 'C20', PLIST,
  "            if player:\n                player.display_name = self.display_name",
  "            if player:\n                player.name = self.display_name", rule='R20.1')
M('C20-add-keeps-existing', 'C20', PLIST,
  "            player_list.players_by_uuid[self.uuid] = player",
  "            if self.uuid not in player_list.players_by_uuid:\n                player_list.players_by_uuid[self.uuid] = player", rule='R20.1')
M('C20-x-arms-swapped', 'C20', PPL,
  "        if self.flags & self.FLAG_REL_X:\n            target.x += self.x\n        else:\n            target.x = self.x",
  "        if self.flags & self.FLAG_REL_X:\n            target.x = self.x\n        else:\n            target.x += self.x", rule='R20.2')
M('C20-yaw-flag-0x10', 'C20', PPL, "    FLAG_REL_YAW = 0x08\n    FLAG_REL_PITCH = 0x10", "    FLAG_REL_YAW = 0x10\n    FLAG_REL_PITCH = 0x08",
  rule='R20.2')
M('C20-z-uses-y', 'C20', PPL, "            target.z += self.z", "            target.z += self.y", rule='R20.2')
M('C20-pitch-not-wrapped', 'C20', PPL, "        target.yaw %= 360\n        target.pitch %= 360", "        target.yaw %= 360",
  rule='R20.2')
M('C20-wrap-before-add', 'C20', PPL,
  "        if self.flags & self.FLAG_REL_YAW:\n            target.yaw += self.yaw\n        else:\n            target.yaw = self.yaw\n",
  "        target.yaw %= 360\n        if self.flags & self.FLAG_REL_YAW:\n            target.yaw += self.yaw\n        else:\n            target.yaw = self.yaw\n",
  rule='R20.2', edits=[
      dict(file=PPL, find="        if self.flags & self.FLAG_REL_YAW:\n            target.yaw += self.yaw\n        else:\n            target.yaw = self.yaw\n",
           repl="        target.yaw %= 360\n        if self.flags & self.FLAG_REL_YAW:\n            target.yaw += self.yaw\n        else:\n            target.yaw = self.yaw\n"),
      dict(file=PPL, find="        target.yaw %= 360\n        target.pitch %= 360", repl="        target.pitch %= 360")])
M('C20-map-mod-height', 'C20', MAP, "                x = self.offset[0] + i % self.width", "                x = self.offset[0] + i % self.height",
  rule='R20.3')
M('C20-map-stride-packet-width', 'C20', MAP, "                map.pixels[x + map.width * z] = self.pixels[i]",
  "                map.pixels[x + self.width * z] = self.pixels[i]", rule='R20.3')
M('C20-map-offsets-crossed', 'C20', MAP,
  "                x = self.offset[0] + i % self.width\n                z = self.offset[1] + i // self.width",
  "                x = self.offset[1] + i % self.width\n                z = self.offset[0] + i // self.width", rule='R20.3')
M('C20-alias-setter-other-name', 'C20', MUTIL,
  "        fget=(lambda self: getattr(self, name)),\n        fset=(lambda self, value: setattr(self, name, value)),\n        fdel=(lambda self: delattr(self, name)))",
  "        fget=(lambda self: getattr(self, name)),\n        fset=(lambda self, value: setattr(self, '_' + name, value)),\n        fdel=(lambda self: delattr(self, name)))",
  rule='R20.4')
M('C20-partial-alias-deletes-whole', 'C20', MUTIL, "        fdel=(lambda self: delattr(getattr(self, name), part)))",
  "        fdel=(lambda self: delattr(self, name)))", rule='R20.4')
M('C20-vector-sub-builds-vector', 'C20', TUTIL,
  "               type(self)(self.x - other.x, self.y - other.y, self.z - other.z)",
  "               Vector(self.x - other.x, self.y - other.y, self.z - other.z)", rule='R20.5')
M('C20-vector-sub-plus-z', 'C20', TUTIL,
  "               type(self)(self.x - other.x, self.y - other.y, self.z - other.z)",
  "               type(self)(self.x - other.x, self.y - other.y, self.z + other.z)", rule='R20.5')
M('C20-hash-ignores-type', 'C20', TUTIL, "        return hash((type(self), values))", "        return hash(values[:1])",
  rule='R20.5')
M('C20-eq-ignores-type', 'C20', TUTIL, "        return type(self) is type(other) and all(", "        return all(", rule='R20.5')
M('C20-actions-reversed', 'C20', PLIST, "        for action in self.actions:\n            action.apply(player_list)",
  "        for action in reversed(self.actions):\n            action.apply(player_list)", rule='R20.1')
M('C20-twin-rename-player', 'C20', PLIST,
  "            player = player_list.players_by_uuid.get(self.uuid)\n            if player:\n                player.ping = self.ping",
  "            entry = player_list.players_by_uuid.get(self.uuid)\n            if entry is not None:\n                entry.ping = self.ping",
  expect='silent')
M('C20-twin-reorder-flag-blocks', 'C20', PPL,
  "        if self.flags & self.FLAG_REL_X:\n            target.x += self.x\n        else:\n            target.x = self.x\n\n        if self.flags & self.FLAG_REL_Y:\n            target.y += self.y\n        else:\n            target.y = self.y\n",
  "        if self.flags & self.FLAG_REL_Y:\n            target.y += self.y\n        else:\n            target.y = self.y\n\n        if self.flags & self.FLAG_REL_X:\n            target.x += self.x\n        else:\n            target.x = self.x\n",
  expect='silent')

# ------------------------------------------------ twins added after seeding
_COUNTER_OLD = "            packet_data.send(stream.read(length))\n            # Ensure we read all the packet\n            while len(packet_data.get_writable()) < length:\n                data = stream.read(length - len(packet_data.get_writable()))\n                if len(data) < 1:\n                    raise EOFError(\"Unexpected end of message.\")\n                packet_data.send(data)"
_COUNTER_NEW = "            data = stream.read(length)\n            packet_data.send(data)\n            received = len(data)\n            while received < length:\n                data = stream.read(length - received)\n                if len(data) < 1:\n                    raise EOFError(\"Unexpected end of message.\")\n                received += len(data)\n                packet_data.send(data)"
M('C01-twin-running-counter', 'C01', CONN, _COUNTER_OLD, _COUNTER_NEW, expect='silent')
M('C15-twin-running-counter', 'C15', CONN, _COUNTER_OLD, _COUNTER_NEW, expect='silent')
M('C15-counter-tests-total', 'C15', CONN, _COUNTER_OLD,
  _COUNTER_NEW.replace("                if len(data) < 1:\n                    raise EOFError(\"Unexpected end of message.\")\n                received += len(data)",
                       "                received += len(data)\n                if received < 1:\n                    raise EOFError(\"Unexpected end of message.\")"),
  rule='R15.1')
M('C01-counter-not-incremented', 'C01', CONN, _COUNTER_OLD,
  _COUNTER_NEW.replace("                received += len(data)\n", ""), expect='violation')
M('C14-twin-snapshot-list', 'C14', CONN, "        for handler, exc_types in self._exception_handlers:",
  "        for handler, exc_types in list(self._exception_handlers):", expect='silent')
M('C20-twin-own-dict-cache', 'C20', TUTIL,
  "    def _all_slots(cls):\n        for supcls in reversed(cls.__mro__):",
  "    def _all_slots(cls):\n        cached = cls.__dict__.get('_slots_cache')\n        if cached is not None:\n            return iter(cached)\n        for supcls in reversed(cls.__mro__):",
  expect='silent')
M('C11-twin-limit-before-read', 'C11', CONN,
  "            while num_packets < 50 and not self.interrupt:\n                packet = self.connection.reactor.read_packet(",
  "            while not self.interrupt:\n                if num_packets >= 50:\n                    break\n                packet = self.connection.reactor.read_packet(",
  expect='silent')
M('C13-twin-dedupe-exact', 'C13', LISTENER,
  "            if issubclass(arg, Packet):\n                self.packets_to_listen.append(arg)",
  "            if issubclass(arg, Packet):\n                self.packets_to_listen.append(arg)\n        self.packets_to_listen = list(dict.fromkeys(self.packets_to_listen))",
  expect='silent')
M('C10-twin-str-message', 'C10', CONN, "                msg = json.loads(packet.json_data)['text']",
  "                msg = str(json.loads(packet.json_data)['text'])", expect='silent')

# ------------------------------------------------ twins added after seeding wave 2
M('C17-twin-manual-signed-correct', 'C17', ENC,
  "    try:\n        return int.from_bytes(b, byteorder='big', signed=signed)\n    except AttributeError:  # pragma: no cover\n        # py-2 compatibility\n        if len(b) == 0:\n            b = b'\\x00'\n        num = int(str(b).encode('hex'), 16)\n        if signed and (ord(b[0]) & 0x80):\n            num -= 2 ** (len(b) * 8)\n        return num",
  "    num = int(hexlify(b) or b'0', 16)\n    if signed and ord(b[:1] or b'\\x00') >= 0x80:\n        num -= 1 << (len(b) * 8)\n    return num",
  expect='silent', edits=[
      dict(file=ENC, find="    try:\n        return int.from_bytes(b, byteorder='big', signed=signed)\n    except AttributeError:  # pragma: no cover\n        # py-2 compatibility\n        if len(b) == 0:\n            b = b'\\x00'\n        num = int(str(b).encode('hex'), 16)\n        if signed and (ord(b[0]) & 0x80):\n            num -= 2 ** (len(b) * 8)\n        return num",
           repl="    num = int(hexlify(b) or b'0', 16)\n    if signed and ord(b[:1] or b'\\x00') >= 0x80:\n        num -= 1 << (len(b) * 8)\n    return num"),
      dict(file=ENC, find="import os\n", repl="import os\nfrom binascii import hexlify\n")])
M('C17-manual-signed-off-by-one', 'C17', ENC, "", "", rule='R17.2', edits=[
      dict(file=ENC, find="    try:\n        return int.from_bytes(b, byteorder='big', signed=signed)\n    except AttributeError:  # pragma: no cover\n        # py-2 compatibility\n        if len(b) == 0:\n            b = b'\\x00'\n        num = int(str(b).encode('hex'), 16)\n        if signed and (ord(b[0]) & 0x80):\n            num -= 2 ** (len(b) * 8)\n        return num",
           repl="    num = int(hexlify(b) or b'0', 16)\n    if signed and ord(b[:1] or b'\\x00') > 0x80:\n        num -= 1 << (len(b) * 8)\n    return num"),
      dict(file=ENC, find="import os\n", repl="import os\nfrom binascii import hexlify\n")])
M('C10-twin-stream-local-per-read', 'C10', CONN,
  "                packet = self.connection.reactor.read_packet(\n                    self.connection.file_object, timeout=read_timeout)",
  "                stream = self.connection.file_object\n                packet = self.connection.reactor.read_packet(\n                    stream, timeout=read_timeout)",
  expect='silent')
M('C10-stream-hoisted', 'C10', CONN,
  "            # Read and react to as many as 50 packets.\n            while num_packets < 50 and not self.interrupt:\n                packet = self.connection.reactor.read_packet(\n                    self.connection.file_object, timeout=read_timeout)",
  "            # Read and react to as many as 50 packets.\n            stream = self.connection.file_object\n            while num_packets < 50 and not self.interrupt:\n                packet = self.connection.reactor.read_packet(\n                    stream, timeout=read_timeout)",
  rule='R10.9')
M('C16-shutdown-write-only', 'C16', CONN, "self.socket.shutdown(socket.SHUT_RDWR)", "self.socket.shutdown(socket.SHUT_WR)",
  rule='R16.5')
M('C18-secret-cached-on-context', 'C18', CONN, "            secret = encryption.generate_shared_secret()\n",
  "            secret = getattr(self.connection, '_secret', None)\n            if secret is None:\n                secret = encryption.generate_shared_secret()\n                self.connection._secret = secret\n",
  rule='R18.4')
M('C08-context-caches-index', 'C08', CONN,
  "    def __init__(self, **kwds):\n        self.protocol_version = kwds.get('protocol_version')\n\n    def protocol_earlier(self, other_pv):\n        \"\"\"Returns True if the protocol version of this context was published\n           earlier than 'other_pv', or else False.\"\"\"\n        return utility.protocol_earlier(self.protocol_version, other_pv)",
  "    def __init__(self, **kwds):\n        self.protocol_version = kwds.get('protocol_version')\n        self._index = PROTOCOL_VERSION_INDICES.get(self.protocol_version)\n\n    def protocol_earlier(self, other_pv):\n        \"\"\"Returns True if the protocol version of this context was published\n           earlier than 'other_pv', or else False.\"\"\"\n        return self._index < PROTOCOL_VERSION_INDICES[other_pv]",
  rule='R08.4')

# ---------------------------------------------------------------- wave 8
# positive examples (and benign twins) for the rules added after wave 8
M('C06-module-level-base-set', 'C06', SB_PLAY,
  "def get_packets(context):\n    packets = {\n        KeepAlivePacket,",
  "_BASE = set()\n\n\ndef get_packets(context):\n    packets = _BASE\n    packets |= {\n        KeepAlivePacket,",
  rule='R06.7')
M('C06-twin-copy-of-module-set', 'C06', SB_PLAY,
  "def get_packets(context):\n    packets = {\n        KeepAlivePacket,",
  "_BASE = set()\n\n\ndef get_packets(context):\n    packets = set(_BASE)\n    packets |= {\n        KeepAlivePacket,",
  expect='silent')
M('C08-twin-numeric-guard-107', 'C08', CONN,
  "            if self.connection.context.protocol_later_eq(107):",
  "            if self.connection.context.protocol_version >= 107:",
  expect='silent')      # every snapshot number was published after 107
M('C11-twin-numeric-guard-107', 'C11', CONN,
  "            if self.connection.context.protocol_later_eq(107):",
  "            if self.connection.context.protocol_version >= 107:",
  expect='silent')
M('C08-numeric-keepalive-guard-755', 'C08', SB_PLAY,
  "        return 0x0F if context.protocol_later_eq(755) else \\\n               0x10 if context.protocol_later_eq(712)",
  "        return 0x0F if context.protocol_version >= 755 else \\\n               0x10 if context.protocol_later_eq(712)",
  rule='R08.6')
M('C11-numeric-keepalive-guard-755', 'C11', SB_PLAY,
  "        return 0x0F if context.protocol_later_eq(755) else \\\n               0x10 if context.protocol_later_eq(712)",
  "        return 0x0F if context.protocol_version >= 755 else \\\n               0x10 if context.protocol_later_eq(712)",
  rule='R11.9')
M('C08-twin-numeric-equality', 'C08', CONN,
  "            if self.connection.context.protocol_later_eq(107):",
  "            if self.connection.context.protocol_version != -1 and "
  "self.connection.context.protocol_later_eq(107):",
  expect='silent')
M('C12-compression-arm-flushes-first', 'C12', CONN,
  "        elif packet.packet_name == \"set compression\":\n            self.connection.options.compression_threshold = packet.threshold",
  "        elif packet.packet_name == \"set compression\":\n            self.connection._pop_packet()\n            self.connection.options.compression_threshold = packet.threshold",
  rule='R12.6')
M('C10-compression-arm-flushes-first', 'C10', CONN,
  "        elif packet.packet_name == \"set compression\":\n            self.connection.options.compression_threshold = packet.threshold",
  "        elif packet.packet_name == \"set compression\":\n            self.connection._pop_packet()\n            self.connection.options.compression_threshold = packet.threshold",
  rule='R10.2q')
M('C12-twin-compression-arm-flushes-after', 'C12', CONN,
  "        elif packet.packet_name == \"set compression\":\n            self.connection.options.compression_threshold = packet.threshold\n            self.connection.options.compression_enabled = True\n\n        elif packet.packet_name == \"login plugin request\"",
  "        elif packet.packet_name == \"set compression\":\n            self.connection.options.compression_threshold = packet.threshold\n            self.connection.options.compression_enabled = True\n            with self.connection._write_lock:\n                self.connection._pop_packet()\n\n        elif packet.packet_name == \"login plugin request\"",
  expect='silent')
M('C16-shutdown-guard-narrow', 'C16', CONN,
  "                    except socket.error:\n                        pass\n                    finally:\n                        self.file_object.close()",
  "                    except BrokenPipeError:\n                        pass\n                    finally:\n                        self.file_object.close()",
  rule='R16.5')
M('C16-twin-shutdown-guard-oserror', 'C16', CONN,
  "                    except socket.error:\n                        pass\n                    finally:\n                        self.file_object.close()",
  "                    except (OSError, ValueError):\n                        pass\n                    finally:\n                        self.file_object.close()",
  expect='silent')
M('C20-hash-of-str', 'C20', TUTIL,
  "        return hash((type(self), values))",
  "        return hash((type(self), str(values)))", rule='R20.5')
M('C03-varlong-read-through-varint', 'C03', BASIC,
  "class VarLong(VarInt):\n    max_bytes = 10\n",
  "class VarLong(VarInt):\n    max_bytes = 10\n\n    @classmethod\n    def read(cls, file_object):\n        return VarInt.read(file_object)\n",
  rule='R03.6')
M('C03-twin-varlong-read-through-super', 'C03', BASIC,
  "class VarLong(VarInt):\n    max_bytes = 10\n",
  "class VarLong(VarInt):\n    max_bytes = 10\n\n    @classmethod\n    def read(cls, file_object):\n        return super(VarLong, cls).read(file_object)\n",
  expect='silent')
M('C15-status-reactor-claims-eof', 'C15', CONN,
  "    def handle_ping(self, latency_ms):\n        print('Ping: %d ms' % latency_ms)\n",
  "    def handle_ping(self, latency_ms):\n        print('Ping: %d ms' % latency_ms)\n\n    def handle_exception(self, exc, exc_info):\n        return isinstance(exc, EOFError)\n",
  rule='R15.5')
M('C15-twin-status-reactor-declines', 'C15', CONN,
  "    def handle_ping(self, latency_ms):\n        print('Ping: %d ms' % latency_ms)\n",
  "    def handle_ping(self, latency_ms):\n        print('Ping: %d ms' % latency_ms)\n\n    def handle_exception(self, exc, exc_info):\n        return False\n",
  expect='silent')

# D10 re-break: the dispatch closes outside the lock again
M('C16-rebreak-close-race', 'C16', CONN,
  "        with self._write_lock:\n            if (self.new_networking_thread\n                    or self.networking_thread).interrupt:\n                self.disconnect(immediate=True)",
  "        if (self.new_networking_thread\n                or self.networking_thread).interrupt:\n            self.disconnect(immediate=True)",
  rule='R16.8')
M('C14-rebreak-close-race', 'C14', CONN,
  "        with self._write_lock:\n            if (self.new_networking_thread\n                    or self.networking_thread).interrupt:\n                self.disconnect(immediate=True)",
  "        if (self.new_networking_thread\n                or self.networking_thread).interrupt:\n            self.disconnect(immediate=True)",
  rule='R14.5r')
M('C16-close-race-two-sections', 'C16', CONN,
  "        with self._write_lock:\n            if (self.new_networking_thread\n                    or self.networking_thread).interrupt:\n                self.disconnect(immediate=True)",
  "        with self._write_lock:\n            stale = (self.new_networking_thread\n                     or self.networking_thread).interrupt\n        if stale:\n            with self._write_lock:\n                self.disconnect(immediate=True)",
  rule='R16.8')
M('C16-twin-close-under-acquire', 'C16', CONN,
  "        with self._write_lock:\n            if (self.new_networking_thread\n                    or self.networking_thread).interrupt:\n                self.disconnect(immediate=True)",
  "        self._write_lock.acquire()\n        try:\n            newest = self.new_networking_thread or self.networking_thread\n            if newest.interrupt:\n                self.disconnect(immediate=True)\n        finally:\n            self._write_lock.release()",
  expect='silent')

# ---------------------------------------------------------------- wave 9
M('C02-twin-denominator-shift', 'C02', BASIC,
  "        self.denominator = 2**fractional_bits",
  "        self.denominator = 1 << fractional_bits", expect='silent')
M('C02-fixedpoint-default-6', 'C02', BASIC,
  "    def __init__(self, integer_type, fractional_bits=5):",
  "    def __init__(self, integer_type, fractional_bits=6):", rule='R02.6')
M('C13-decorator-pops-options', 'C13', CONN,
  "            self.register_packet_listener(handler_func, *packet_types, **kwds)",
  "            self.register_packet_listener(\n                handler_func, *packet_types,\n                early=kwds.pop('early', False),\n                outgoing=kwds.pop('outgoing', False))",
  rule='R13.6')
M('C13-twin-decorator-gets-options', 'C13', CONN,
  "            self.register_packet_listener(handler_func, *packet_types, **kwds)",
  "            self.register_packet_listener(\n                handler_func, *packet_types,\n                early=kwds.get('early', False),\n                outgoing=kwds.get('outgoing', False))",
  expect='silent')
M('C13-decorator-swaps-options', 'C13', CONN,
  "            self.register_packet_listener(handler_func, *packet_types, **kwds)",
  "            self.register_packet_listener(\n                handler_func, *packet_types,\n                early=kwds.get('outgoing', False),\n                outgoing=kwds.get('early', False))",
  rule='R13.6')
M('C14-decorator-pops-options', 'C14', CONN,
  "            self.register_exception_handler(handler_func, *exc_types, **kwds)",
  "            self.register_exception_handler(\n                handler_func, *exc_types, early=kwds.pop('early', False))",
  rule='R14.7d')
M('C17-twin-lstrip-fast-path', 'C17', ENC,
  "    number_representation = _number_from_bytes(sha1_hash.digest(), signed=True)\n    return format(number_representation, 'x')",
  "    text = sha1_hash.hexdigest()\n    if text[0] < '8':\n        return text.lstrip('0') or '0'\n    number_representation = _number_from_bytes(sha1_hash.digest(), signed=True)\n    return format(number_representation, 'x')",
  expect='undecided')
M('C17-rstrip-fast-path', 'C17', ENC,
  "    number_representation = _number_from_bytes(sha1_hash.digest(), signed=True)\n    return format(number_representation, 'x')",
  "    text = sha1_hash.hexdigest()\n    if text[0] < '8':\n        return text.rstrip('0').lstrip('0') or '0'\n    number_representation = _number_from_bytes(sha1_hash.digest(), signed=True)\n    return format(number_representation, 'x')",
  rule='R17.2')
M('C05-twin-presence-is-not-none', 'C05', SB_LOGIN,
  "        successful = getattr(self, 'data', None) is not None\n        successful = getattr(self, 'successful', successful)",
  "        data = getattr(self, 'data', None)\n        successful = getattr(self, 'successful', data is not None)",
  expect='silent')
M('C08-context-default-via-or', 'C08', CONN,
  "        self.protocol_version = kwds.get('protocol_version')",
  "        self.protocol_version = kwds.get('protocol_version') or None",
  expect='violation', rule='R08.1')
M('C01-play-compression-arm-forgets-flag', 'C01', CONN,
  "        if packet.packet_name == \"set compression\":\n            self.connection.options.compression_threshold = packet.threshold\n            self.connection.options.compression_enabled = True",
  "        if packet.packet_name == \"set compression\":\n            self.connection.options.compression_threshold = packet.threshold",
  rule='R01.7')

# ---------------------------------------------------------------- survivors
# of the mechanical mutation run that turned out to be gaps (DESIGN 10.8)
M('C12-pop-returns-false', 'C12', CONN,
  "            self._write_packet(self._outgoing_packet_queue.popleft())\n            return True",
  "            self._write_packet(self._outgoing_packet_queue.popleft())\n            return False",
  rule='R12.3')
M('C10-match-read-before-bound', 'C10', CONN,
  "            match = re.match(r\"Outdated (client! Please use|server!\"\n                             r\" I'm still on) (?P<ver>\\S+)$\", msg)\n            if match:\n                ver = match.group('ver')\n                self.connection._version_mismatch(server_version=ver)",
  "            if match:\n                ver = match.group('ver')\n                self.connection._version_mismatch(server_version=ver)\n            match = re.match(r\"Outdated (client! Please use|server!\"\n                             r\" I'm still on) (?P<ver>\\S+)$\", msg)",
  rule='R10.5')
M('C02-angle-wrap-359', 'C02', BASIC,
  "UnsignedByte.send(round(256 * ((value % 360) / 360)) % 256, socket)",
  "UnsignedByte.send(round(256 * ((value % 359) / 360)) % 256, socket)", rule='R02.6')
M('C02-angle-wrap-255', 'C02', BASIC,
  "UnsignedByte.send(round(256 * ((value % 360) / 360)) % 256, socket)",
  "UnsignedByte.send(round(256 * ((value % 360) / 360)) % 255, socket)", rule='R02.6')
M('C05-fixedpoint-args-swapped', 'C05', CB_PLAY,
  "        delta_type = FixedPoint(Short, 12) \\", "        delta_type = FixedPoint(12, Short) \\", rule='R05.2')
M('C05-send-args-swapped', 'C05', MAP,
  "            Boolean.send(self.is_locked, packet_buffer)",
  "            Boolean.send(packet_buffer, self.is_locked)", rule='R05.9s')
M('C20-alias-args-swapped', 'C20', SB_PLAY,
  "    position_and_look = multi_attribute_alias(\n        PositionAndLook, 'x', 'feet_y', 'z', 'yaw', 'pitch')",
  "    position_and_look = multi_attribute_alias(\n        'x', PositionAndLook, 'feet_y', 'z', 'yaw', 'pitch')",
  rule='R20.6')
M('C02-pitch-return-before-scaling', 'C02', SOUND,
  "            if context.protocol_earlier(204):\n                value /= 63.5\n            return value",
  "            return value\n            if context.protocol_earlier(204):\n                value /= 63.5",
  rule='R02.6')

# wave 11: R20.8 (name_from_value folded over its finite domain)
ENUMS = 'minecraft/networking/types/enum.py'
M('C20-flag-name-uncovered-bits', 'C20', ENUMS,
  "        if ret_value == value:\n            return '|'.join(reversed(ret_names)) if ret_names else '0'",
  "        if ret_names:\n            return '|'.join(reversed(ret_names))\n        return '0' if value == 0 else None",
  rule='R20.8')
M('C20-flag-name-overlap-filter', 'C20', ENUMS,
  "if isinstance(v, int) and n.isupper() and v | value == value],",
  "if isinstance(v, int) and n.isupper() and v & value],", rule='R20.8')
M('C20-enum-name-first-member', 'C20', ENUMS,
  "            if name.isupper() and name_value == value:\n                return name",
  "            if name.isupper() and name_value != value:\n                return name", rule='R20.8')
M('C20-twin-flag-name-ascending', 'C20', ENUMS,
  "            reverse=True, key=lambda p: p[1]\n        ):",
  "            key=lambda p: p[1]\n        ):", expect='silent')

# wave 11: the default version without an initial_version (R09.1 / R15.8)
M('C09-default-latest-supported', 'C09', CONN,
  "            self.default_proto_version = latest_allowed_proto\n",
  "            self.default_proto_version = max(\n                SUPPORTED_PROTOCOL_VERSIONS, key=PROTOCOL_VERSION_INDICES.get)\n",
  rule='R09.1')
M('C15-default-latest-supported', 'C15', CONN,
  "            self.default_proto_version = latest_allowed_proto\n",
  "            self.default_proto_version = max(\n                SUPPORTED_PROTOCOL_VERSIONS, key=PROTOCOL_VERSION_INDICES.get)\n",
  rule='R15.8')
M('C09-twin-default-recomputed', 'C09', CONN,
  "            self.default_proto_version = latest_allowed_proto\n",
  "            self.default_proto_version = max(\n                self.allowed_proto_versions, key=PROTOCOL_VERSION_INDICES.get)\n",
  expect='silent')

# wave 11: R14.9 (a write-phase exception is never dropped)
M('C14-deferred-error-only-with-budget', 'C14', CONN,
  "            if exc_info is not None:\n                exc_value, exc_tb = exc_info[1:]",
  "            if exc_info is not None and num_packets < 50:\n                exc_value, exc_tb = exc_info[1:]",
  rule='R14.9')
M('C14-deferred-error-cleared-by-any-packet', 'C14', CONN,
  "                if exc_info is not None and packet.packet_name == \"disconnect\":\n                    exc_info = None",
  "                if exc_info is not None:\n                    exc_info = None",
  rule='R14.9')
M('C14-twin-deferred-error-test-reordered', 'C14', CONN,
  "                if exc_info is not None and packet.packet_name == \"disconnect\":\n                    exc_info = None",
  "                if packet.packet_name == \"disconnect\":\n                    exc_info = None",
  expect='silent')

# wave 11: R05.9r (a reader does not decide by the truth of a decoded number)
M('C05-face-player-read-by-truth', 'C05', FACE,
  "            if not is_entity:\n", "            if not self.entity_id:\n", rule='R05.9r')
M('C05-twin-face-player-read-by-none', 'C05', FACE,
  "            if not is_entity:\n", "            if self.entity_id is None:\n", expect='silent')

# wave 12: R12.9 (nothing is sent after a failed serialisation)
M('C12-write-flushes-in-finally', 'C12', PACKET,
  "        VarInt.send(self.id, packet_buffer)\n        # write every individual field\n        self.write_fields(packet_buffer)\n        self._write_buffer(socket, packet_buffer, compression_threshold)\n",
  "        try:\n            VarInt.send(self.id, packet_buffer)\n            # write every individual field\n            self.write_fields(packet_buffer)\n        finally:\n            self._write_buffer(socket, packet_buffer, compression_threshold)\n",
  rule='R12.9')
M('C12-twin-write-in-try-else', 'C12', PACKET,
  "        VarInt.send(self.id, packet_buffer)\n        # write every individual field\n        self.write_fields(packet_buffer)\n        self._write_buffer(socket, packet_buffer, compression_threshold)\n",
  "        try:\n            VarInt.send(self.id, packet_buffer)\n            # write every individual field\n            self.write_fields(packet_buffer)\n        except Exception:\n            raise\n        else:\n            self._write_buffer(socket, packet_buffer, compression_threshold)\n",
  expect='silent')

# wave 12: R14.1d (a decoder's exception is not taken inside read_packet)
_RP_OLD = ("            if packet_id in self.clientbound_packets:\n"
           "                packet = self.clientbound_packets[packet_id]()\n"
           "                packet.context = self.connection.context\n"
           "                packet.read(packet_data)\n"
           "            else:\n"
           "                packet = packets.Packet()\n"
           "                packet.context = self.connection.context\n"
           "                packet.id = packet_id\n")
M('C14-decoder-keyerror-swallowed', 'C14', CONN, _RP_OLD,
  "            try:\n"
  "                packet = self.clientbound_packets[packet_id]()\n"
  "                packet.context = self.connection.context\n"
  "                packet.read(packet_data)\n"
  "            except KeyError:\n"
  "                packet = packets.Packet()\n"
  "                packet.context = self.connection.context\n"
  "                packet.id = packet_id\n", rule='R14.1d')
M('C14-twin-lookup-eafp', 'C14', CONN, _RP_OLD,
  "            try:\n"
  "                packet = self.clientbound_packets[packet_id]()\n"
  "            except KeyError:\n"
  "                packet = packets.Packet()\n"
  "                packet.context = self.connection.context\n"
  "                packet.id = packet_id\n"
  "            else:\n"
  "                packet.context = self.connection.context\n"
  "                packet.read(packet_data)\n", expect='silent')
M('C11-twin-lookup-eafp', 'C11', CONN, _RP_OLD,
  "            try:\n"
  "                packet = self.clientbound_packets[packet_id]()\n"
  "            except KeyError:\n"
  "                packet = packets.Packet()\n"
  "                packet.context = self.connection.context\n"
  "                packet.id = packet_id\n"
  "            else:\n"
  "                packet.context = self.connection.context\n"
  "                packet.read(packet_data)\n", expect='silent')

# wave 12: R19.4 (the reply's text is never a format string)
M('C19-reply-text-as-format', 'C19', AUTH,
  "        message = \"[{status_code}] Malformed error message: '{response_text}'\"\n        message = message.format(status_code=str(res.status_code),\n                                 response_text=res.text)\n",
  "        message = (\"[%s] Malformed error message: '\" + res.text + \"'\") \\\n            % str(res.status_code)\n",
  rule='R19.4')
M('C19-twin-malformed-percent-format', 'C19', AUTH,
  "        message = \"[{status_code}] Malformed error message: '{response_text}'\"\n        message = message.format(status_code=str(res.status_code),\n                                 response_text=res.text)\n",
  "        message = \"[%s] Malformed error message: '%s'\" % (\n            str(res.status_code), res.text)\n",
  expect='silent')

# wave 13: R20.5 operand guard
M('C20-vector-add-guard-narrowed', 'C20', TUTIL,
  "    def __add__(self, other):\n        return NotImplemented if not isinstance(other, Vector) else \\",
  "    def __add__(self, other):\n        return NotImplemented if not isinstance(other, type(self)) else \\",
  rule='R20.5')

# R05.4 / R20.5 by evaluation (the text rules they replace alarmed on the twins)
M('C05-id-property-off-by-one', 'C05', 'minecraft/networking/packets/packet.py',
  "        return None if self.context is None else self.get_id(self.context)",
  "        return None if self.context is None else self.get_id(self.context) + 1",
  rule='R05.4')
M('C05-twin-id-property-local-context', 'C05', 'minecraft/networking/packets/packet.py',
  "        return None if self.context is None else self.get_id(self.context)",
  "        context = self.context\n        return None if context is None else self.get_id(context)",
  expect='silent')
M('C20-all-slots-derived-first', 'C20', TUTIL,
  "        for supcls in reversed(cls.__mro__):",
  "        for supcls in cls.__mro__:",
  rule='R20.5')
M('C20-twin-all-slots-respelt', 'C20', TUTIL,
  "        for supcls in reversed(cls.__mro__):\n            slots = supcls.__dict__.get('__slots__', ())",
  "        for supcls in cls.__mro__[::-1]:\n            slots = vars(supcls).get('__slots__', ())",
  expect='silent')
