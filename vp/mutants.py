"""Mutant / benign-twin catalogue for vp.selftest (DESIGN appendix B).
Each entry is one textual edit of /repo's package applied to a scratch copy.
expect: violation (default) | silent (benign twin) | undecided (exit 2)."""

CB_PLAY = 'minecraft/networking/packets/clientbound/play/__init__.py'
SB_PLAY = 'minecraft/networking/packets/serverbound/play/__init__.py'
CB_LOGIN = 'minecraft/networking/packets/clientbound/login/__init__.py'
SB_LOGIN = 'minecraft/networking/packets/serverbound/login/__init__.py'
CONN = 'minecraft/networking/connection.py'
BASIC = 'minecraft/networking/types/basic.py'
INIT = 'minecraft/__init__.py'
UTIL = 'minecraft/utility.py'
PACKET = 'minecraft/networking/packets/packet.py'
ENC = 'minecraft/networking/encryption.py'
AUTH = 'minecraft/authentication.py'
BLOCK = 'minecraft/networking/packets/clientbound/play/block_change_packet.py'
COMBAT = 'minecraft/networking/packets/clientbound/play/combat_event_packet.py'
MAP = 'minecraft/networking/packets/clientbound/play/map_packet.py'
PLIST = 'minecraft/networking/packets/clientbound/play/player_list_item_packet.py'
PPL = ('minecraft/networking/packets/clientbound/play/'
       'player_position_and_look_packet.py')
FACE = 'minecraft/networking/packets/clientbound/play/face_player_packet.py'
SPAWN = 'minecraft/networking/packets/clientbound/play/spawn_object_packet.py'
SOUND = 'minecraft/networking/packets/clientbound/play/sound_effect_packet.py'
EXPL = 'minecraft/networking/packets/clientbound/play/explosion_packet.py'
JOIN = ('minecraft/networking/packets/clientbound/play/'
        'join_game_and_respawn_packets.py')
KEEP = 'minecraft/networking/packets/keep_alive_packet.py'
LISTENER = 'minecraft/networking/packets/packet_listener.py'
TUTIL = 'minecraft/networking/types/utility.py'
MUTIL = 'minecraft/utility.py'

MUTANTS = []


def M(id, prop, file, find, repl, expect='violation', rule=None, **kw):
    MUTANTS.append(dict(id=id, prop=prop, file=file, find=find, repl=repl,
                        expect=expect, rule=rule, **kw))


# ---------------------------------------------------------------- C06
M('C06-chat-317', 'C06', CB_PLAY,
  "0x10 if context.protocol_later_eq(318) else \\\n               0x0F if context.protocol_later_eq(107) else \\\n               0x02",
  "0x10 if context.protocol_later_eq(317) else \\\n               0x0F if context.protocol_later_eq(107) else \\\n               0x02",
  rule='R06.2')
M('C06-joingame-nudge', 'C06', JOIN,
  "0x25 if context.protocol_later_eq(721) else \\\n               0x26 if context.protocol_later_eq(550) else \\\n               0x25 if context.protocol_later_eq(389)",
  "0x25 if context.protocol_later_eq(722) else \\\n               0x26 if context.protocol_later_eq(550) else \\\n               0x25 if context.protocol_later_eq(389)",
  rule='R06.2')
M('C06-sb-chat-nudge', 'C06', SB_PLAY,
  "0x02 if context.protocol_later_eq(389) else \\\n               0x01 if context.protocol_later_eq(343) else \\\n               0x02 if context.protocol_later_eq(336) else \\\n               0x03 if context.protocol_later_eq(318) else \\\n               0x02 if context.protocol_later_eq(107) else \\\n               0x01",
  "0x02 if context.protocol_later_eq(389) else \\\n               0x01 if context.protocol_later_eq(345) else \\\n               0x02 if context.protocol_later_eq(336) else \\\n               0x03 if context.protocol_later_eq(318) else \\\n               0x02 if context.protocol_later_eq(107) else \\\n               0x01",
  rule='R06.2')
M('C06-login-success-nudge', 'C06', CB_LOGIN,
  "return 0x02 if context.protocol_later_eq(391) else \\\n               0x03 if context.protocol_later_eq(385) else \\\n               0x02",
  "return 0x02 if context.protocol_later_eq(391) else \\\n               0x03 if context.protocol_later_eq(386) else \\\n               0x02",
  rule='R06.2')
M('C06-enter-combat-0x35', 'C06', COMBAT,
  "    packet_name = 'enter combat event'\n    id = 0x34",
  "    packet_name = 'enter combat event'\n    id = 0x35", rule='R06.2')
M('C06-getid-none', 'C06', CB_PLAY,
  "        return 0x03 if context.protocol_later_eq(755) else \\\n               0x46",
  "        return 0x03 if context.protocol_later_eq(755) else \\\n               None",
  rule='R06.1')
M('C06-unknown-constant', 'C06', CB_PLAY,
  "{'is_locked': Boolean} if context.protocol_later_eq(464) else {}",
  "{'is_locked': Boolean} if context.protocol_later_eq(465) else {}"
  if False else
  "{'is_locked': Boolean} if context.protocol_later_eq(99999) else {}",
  rule='R06.5')
M('C06-class-in-two-tables', 'C06', SB_LOGIN,
  "    packets = {\n        LoginStartPacket,\n        EncryptionResponsePacket\n    }",
  "    packets = {\n        LoginStartPacket,\n        EncryptionResponsePacket,\n        Packet\n    }",
  rule='R06.1')
M('C06-reactor-wrong-table', 'C06', CONN,
  "class LoginReactor(PacketReactor):\n    get_clientbound_packets = staticmethod(clientbound.login.get_packets)",
  "class LoginReactor(PacketReactor):\n    get_clientbound_packets = staticmethod(clientbound.status.get_packets)",
  rule='R06.3')
M('C06-twin-reorder-set', 'C06', SB_PLAY,
  "        KeepAlivePacket,\n        ChatPacket,\n        PositionAndLookPacket,",
  "        ChatPacket,\n        PositionAndLookPacket,\n        KeepAlivePacket,",
  expect='silent')
M('C06-twin-ladder-as-if', 'C06', SB_LOGIN,
  "        return 0x02 if context.protocol_later_eq(391) else \\\n               0x00\n",
  "        if context.protocol_later_eq(391):\n            return 0x02\n        else:\n            return 0x00\n",
  expect='silent')
M('C06-twin-earlier-form', 'C06', CB_LOGIN,
  "        return 0x04 if context.protocol_later_eq(391) else \\\n               0x00",
  "        return 0x00 if context.protocol_earlier(391) else \\\n               0x04",
  expect='silent')

# ---------------------------------------------------------------- C08
M('C08-earlier-le', 'C08', UTIL,
  "return PROTOCOL_VERSION_INDICES[pv1] < PROTOCOL_VERSION_INDICES[pv2]",
  "return PROTOCOL_VERSION_INDICES[pv1] <= PROTOCOL_VERSION_INDICES[pv2]",
  rule='R08.1')
M('C08-earlier-numeric', 'C08', UTIL,
  "return PROTOCOL_VERSION_INDICES[pv1] < PROTOCOL_VERSION_INDICES[pv2]",
  "return pv1 < pv2", rule='R08.1')
M('C08-later-swapped', 'C08', CONN,
  "return utility.protocol_earlier(other_pv, self.protocol_version)",
  "return utility.protocol_earlier(self.protocol_version, other_pv)",
  rule='R08.1')
M('C08-in-range-inclusive-end', 'C08', CONN,
  "return (utility.protocol_earlier(self.protocol_version, end_pv) and",
  "return (utility.protocol_earlier_eq(self.protocol_version, end_pv) and",
  rule='R08.1')
M('C08-drop-clear', 'C08', INIT,
  "        KNOWN_PROTOCOL_VERSIONS.clear()\n", "", rule='R08.4')
M('C08-drop-clear-supported', 'C08', INIT,
  "    SUPPORTED_PROTOCOL_VERSIONS.clear()\n", "", rule='R08.4')
M('C08-first-occurrence-guard-removed', 'C08', INIT,
  "            if version.protocol not in KNOWN_PROTOCOL_VERSIONS:\n                PROTOCOL_VERSION_INDICES[version.protocol] \\\n                    = len(KNOWN_PROTOCOL_VERSIONS)\n                KNOWN_PROTOCOL_VERSIONS.append(version.protocol)",
  "            if True:\n                PROTOCOL_VERSION_INDICES[version.protocol] \\\n                    = len(KNOWN_PROTOCOL_VERSIONS)\n                KNOWN_PROTOCOL_VERSIONS.append(version.protocol)",
  rule='R08.2')
M('C08-swap-records', 'C08', INIT,
  "    Version('1.17',                  755,      True),\n    Version('1.17.1',                756,      True),",
  "    Version('1.17.1',                756,      True),\n    Version('1.17',                  755,      True),",
  rule='R08.3')
M('C08-release-regex-unanchored', 'C08', INIT,
  "if re.match(r'\\d+(\\.\\d+)+$', version_id):",
  "if re.match(r'\\d+(\\.\\d+)+', version_id):", rule='R08.2')
M('C08-rebind-table', 'C08', INIT,
  "    SUPPORTED_PROTOCOL_VERSIONS.clear()\n",
  "    global SUPPORTED_PROTOCOL_VERSIONS\n    SUPPORTED_PROTOCOL_VERSIONS = []\n",
  expect='violation')
M('C08-readme-unsupported', 'C08', INIT,
  "    Version('1.12.2',                340,      True),",
  "    Version('1.12.2',                340,      False),", rule='R08.5')
M('C08-twin-index-after-append', 'C08', INIT,
  "                PROTOCOL_VERSION_INDICES[version.protocol] \\\n                    = len(KNOWN_PROTOCOL_VERSIONS)\n                KNOWN_PROTOCOL_VERSIONS.append(version.protocol)",
  "                KNOWN_PROTOCOL_VERSIONS.append(version.protocol)\n                PROTOCOL_VERSION_INDICES[version.protocol] \\\n                    = len(KNOWN_PROTOCOL_VERSIONS)",
  expect='silent')
M('C08-twin-rename-loopvar', 'C08', INIT,
  "    for (version_id, protocol) in SUPPORTED_MINECRAFT_VERSIONS.items():\n        if re.match(r'\\d+(\\.\\d+)+$', version_id):\n            RELEASE_MINECRAFT_VERSIONS[version_id] = protocol",
  "    for (vid, protocol) in SUPPORTED_MINECRAFT_VERSIONS.items():\n        version_id = vid\n        if re.match(r'\\d+(\\.\\d+)+$', vid):\n            RELEASE_MINECRAFT_VERSIONS[vid] = protocol",
  expect='silent')
M('C08-twin-gt-form', 'C08', UTIL,
  "return PROTOCOL_VERSION_INDICES[pv1] <= PROTOCOL_VERSION_INDICES[pv2]",
  "return not PROTOCOL_VERSION_INDICES[pv1] > PROTOCOL_VERSION_INDICES[pv2]",
  expect='silent')

# ---------------------------------------------------------------- C02
M('C02-short-send-little-endian', 'C02', BASIC,
  "socket.send(struct.pack('>h', value))", "socket.send(struct.pack('<h', value))",
  rule='R02.1')
M('C02-short-read-4', 'C02', BASIC,
  "return struct.unpack('>h', file_object.read(2))[0]",
  "return struct.unpack('>h', file_object.read(4))[0]", rule='R02.1')
M('C02-integer-read-unsigned', 'C02', BASIC,
  "return struct.unpack('>i', file_object.read(4))[0]",
  "return struct.unpack('>I', file_object.read(4))[0]", rule='R02.1')
M('C02-both-sides-unsigned-long', 'C02', BASIC,
  "return struct.unpack('>q', file_object.read(8))[0]\n\n    @staticmethod\n    def send(value, socket):\n        socket.send(struct.pack('>q', value))",
  "return struct.unpack('>Q', file_object.read(8))[0]\n\n    @staticmethod\n    def send(value, socket):\n        socket.send(struct.pack('>Q', value))",
  rule='R02.1')
M('C02-string-prefix-of-str', 'C02', BASIC,
  "        value = value.encode('utf-8')\n        VarInt.send(len(value), socket)\n        socket.send(value)",
  "        VarInt.send(len(value), socket)\n        socket.send(value.encode('utf-8'))",
  rule='R02.4')
M('C02-string-latin1', 'C02', BASIC,
  "        value = value.encode('utf-8')\n", "        value = value.encode('latin-1')\n",
  rule='R02.4')
M('C02-bytearray-prefix-short', 'C02', BASIC,
  "        VarInt.send(len(value), socket)\n        socket.send(struct.pack(str(len(value)) + \"s\", value))",
  "        Short.send(len(value), socket)\n        socket.send(struct.pack(str(len(value)) + \"s\", value))",
  rule='R02.4')
M('C02-prefixedarray-len-plus-one', 'C02', BASIC,
  "        self.length_type.send(len(value), socket)",
  "        self.length_type.send(len(value) + 1, socket)", rule='R02.4')
M('C02-fixedpoint-read-multiplies', 'C02', BASIC,
  "return self.integer_type.read(file_object) / self.denominator",
  "return self.integer_type.read(file_object) * self.denominator",
  rule='R02.6')
M('C02-angle-send-255', 'C02', BASIC,
  "round(256 * ((value % 360) / 360)) % 256", "round(255 * ((value % 360) / 360)) % 256",
  rule='R02.6')
M('C02-angle-drop-mod', 'C02', BASIC,
  "round(256 * ((value % 360) / 360)) % 256", "round(256 * ((value % 360) / 360))",
  rule='R02.5')
M('C02-rebreak-D1', 'C02', BASIC,
  "self.integer_type.send(int(value * self.denominator), socket)",
  "self.integer_type.send(int(value * self.denominator))", rule='R02.2')
M('C02-rebreak-D3', 'C02', BASIC,
  "        data = file_object.read(length)\n        if len(data) < length:\n            raise EOFError(\"Unexpected end of message.\")\n        return data.decode(\"utf-8\")",
  "        return file_object.read(length).decode(\"utf-8\")", rule='R02.3')
M('C02-uuid-bytes-le', 'C02', BASIC,
  "return str(uuid.UUID(bytes=file_object.read(16)))",
  "return str(uuid.UUID(bytes_le=file_object.read(16)))", rule='R02.8')
M('C02-dispatch-swapped', 'C02', BASIC,
  "return cls_or_self.send(value, socket)", "return cls_or_self.send(socket, value)",
  rule='R02.7')
M('C02-effectposition-scale', 'C02', SOUND,
  "Integer.send(int(coordinate * 8), socket)", "Integer.send(int(coordinate * 32), socket)",
  rule='R02.6')
M('C02-twin-format-constant', 'C02', BASIC,
  "class Short(Type):\n    @staticmethod\n    def read(file_object):\n        return struct.unpack('>h', file_object.read(2))[0]",
  "SHORT_FMT = '!h'\n\n\nclass Short(Type):\n    @staticmethod\n    def read(file_object):\n        return struct.unpack(SHORT_FMT, file_object.read(2))[0]",
  expect='silent')
M('C02-twin-local-data', 'C02', BASIC,
  "        return struct.unpack('>i', file_object.read(4))[0]",
  "        data = file_object.read(4)\n        return struct.unpack('>i', data)[0]",
  expect='silent')
M('C02-twin-not-data', 'C02', BASIC,
  "        if len(data) < length:\n            raise EOFError(\"Unexpected end of message.\")",
  "        if len(data) != length:\n            raise EOFError(\"Unexpected end of message.\")",
  expect='silent')

# ---------------------------------------------------------------- C03
M('C03-max-bytes-50', 'C03', BASIC, "class VarInt(Type):\n    max_bytes = 5",
  "class VarInt(Type):\n    max_bytes = 50", rule='R03.1')
M('C03-varlong-max-bytes-5', 'C03', BASIC, "class VarLong(VarInt):\n    max_bytes = 10",
  "class VarLong(VarInt):\n    max_bytes = 5", rule='R03.1')
M('C03-counter-increment-removed', 'C03', BASIC,
  "            bytes_encountered += 1\n            if bytes_encountered > cls.max_bytes:",
  "            if bytes_encountered > cls.max_bytes:", rule='R03.1')
M('C03-guard-removed', 'C03', BASIC,
  "            if bytes_encountered > cls.max_bytes:\n                raise ValueError(\"Tried to read too long of a VarInt\")\n",
  "", rule='R03.1')
M('C03-extra-read-after-break', 'C03', BASIC,
  "                raise ValueError(\"Tried to read too long of a VarInt\")\n        return number",
  "                raise ValueError(\"Tried to read too long of a VarInt\")\n        file_object.read(1)\n        return number",
  rule='R03.2')
M('C03-read-two-bytes', 'C03', BASIC, "            byte = file_object.read(1)\n            if len(byte) < 1:",
  "            byte = file_object.read(2)\n            if len(byte) < 1:", rule='R03.1')
M('C03-eof-test-removed', 'C03', BASIC,
  "            if len(byte) < 1:\n                raise EOFError(\"Unexpected end of message.\")\n\n            byte = ord(byte)",
  "            byte = ord(byte or b'\\x00')", rule='R03.1')
M('C03-send-mask-ff', 'C03', BASIC, "            byte = value & 0x7F\n", "            byte = value & 0xFF\n",
  rule='R03.5')
M('C03-read-shift-8', 'C03', BASIC, "number |= (byte & 0x7F) << 7 * bytes_encountered",
  "number |= (byte & 0x7F) << 8 * bytes_encountered", rule='R03.5')
M('C03-break-on-set-bit', 'C03', BASIC, "            if not byte & 0x80:\n                break",
  "            if byte & 0x80:\n                break", rule='R03.1')
M('C03-size-table-entry', 'C03', BASIC, "    2 ** 21: 3,", "    2 ** 21: 4,", rule='R03.5')
M('C03-size-table-order', 'C03', BASIC, "    2 ** 7: 1,\n    2 ** 14: 2,", "    2 ** 14: 2,\n    2 ** 7: 1,",
  rule='R03.5')
M('C03-size-le', 'C03', BASIC, "            if value < max_value:", "            if value <= max_value:",
  rule='R03.5')
M('C03-rebreak-D4', 'C03', BASIC,
  "        if value < 0:\n            raise ValueError(\"Cannot encode a negative number as a VarInt\")\n",
  "", rule='R03.4')
M('C03-send-flag-ge', 'C03', BASIC, "byte | (0x80 if value > 0 else 0)", "byte | (0x80 if value >= 0 else 0)",
  rule='R03.5')
M('C03-twin-counter-renamed', 'C03', BASIC, "bytes_encountered", "count", expect='silent', count=4)
M('C03-twin-guard-before-increment', 'C03', BASIC,
  "            bytes_encountered += 1\n            if bytes_encountered > cls.max_bytes:\n                raise ValueError(\"Tried to read too long of a VarInt\")",
  "            if bytes_encountered >= cls.max_bytes:\n                raise ValueError(\"Tried to read too long of a VarInt\")\n            bytes_encountered += 1",
  expect='silent')
M('C03-twin-mask-negative', 'C03', BASIC,
  "        if value < 0:\n            raise ValueError(\"Cannot encode a negative number as a VarInt\")\n",
  "        value &= 0xFFFFFFFFFFFFFFFF\n", expect='silent')

# ---------------------------------------------------------------- C04
M('C04-send-swap-shifts', 'C04', BASIC,
  "value = ((x & 0x3FFFFFF) << 38 | (z & 0x3FFFFFF) << 12 | (y & 0xFFF)",
  "value = ((x & 0x3FFFFFF) << 38 | (z & 0x3FFFFFF) << 26 | (y & 0xFFF)")
M('C04-both-sides-yz-swapped-new', 'C04', BASIC,
  "value = ((x & 0x3FFFFFF) << 38 | (z & 0x3FFFFFF) << 12 | (y & 0xFFF)\n                 if context.protocol_later_eq(443) else",
  "value = ((x & 0x3FFFFFF) << 38 | (y & 0xFFF) << 26 | (z & 0x3FFFFFF)\n                 if context.protocol_later_eq(443) else",
  rule='R04.3')
M('C04-y-mask-7ff', 'C04', BASIC,
  "(z & 0x3FFFFFF) << 12 | (y & 0xFFF)", "(z & 0x3FFFFFF) << 12 | (y & 0x7FF)")
M('C04-sign-extend-x-24', 'C04', BASIC,
  "        if x >= pow(2, 25):\n            x -= pow(2, 26)", "        if x >= pow(2, 24):\n            x -= pow(2, 26)",
  rule='R04.2')
M('C04-sign-extend-y-dropped', 'C04', BASIC,
  "        if y >= pow(2, 11):\n            y -= pow(2, 12)\n", "", rule='R04.2')
M('C04-boundary-one-side', 'C04', BASIC,
  "        if context.protocol_later_eq(443):\n            z = int((location >> 12)",
  "        if context.protocol_later_eq(477):\n            z = int((location >> 12)", rule='R04.2')
M('C04-boundary-404-both', 'C04', BASIC, "context.protocol_later_eq(443)", "context.protocol_later_eq(404)",
  count=2, rule='R04.3')
M('C04-boundary-480-both', 'C04', BASIC, "context.protocol_later_eq(443)", "context.protocol_later_eq(480)",
  count=2, rule='R04.3')
M('C04-csp-z-shift', 'C04', BLOCK, "(z & 0x3FFFFF) << 20 | y & 0xFFFFF", "(z & 0x3FFFFF) << 22 | y & 0xFFFFF",
  rule='R04.4')
M('C04-csp-read-y-signbit', 'C04', BLOCK, "y = value | ~0xFFFFF if value & 0x80000 else value & 0xFFFFF",
  "y = value | ~0xFFFFF if value & 0x40000 else value & 0xFFFFF", rule='R04.4')
M('C04-csp-both-sides-xz-swapped', 'C04', BLOCK,
  "            x = value | ~0x3FFFFF if value & 0x200000 else value\n            return cls(x, y, z)\n\n        @classmethod\n        def send(cls, pos, socket):\n            x, y, z = pos\n            value = (x & 0x3FFFFF) << 42 | (z & 0x3FFFFF) << 20 | y & 0xFFFFF",
  "            x = value | ~0x3FFFFF if value & 0x200000 else value\n            return cls(z, y, x)\n\n        @classmethod\n        def send(cls, pos, socket):\n            x, y, z = pos\n            value = (z & 0x3FFFFF) << 42 | (x & 0x3FFFFF) << 20 | y & 0xFFFFF",
  rule='R04.4')
M('C04-record-shift', 'C04', BLOCK, "record.block_state_id = value >> 12", "record.block_state_id = value >> 8",
  rule='R04.5')
M('C04-record-old-xz', 'C04', BLOCK, "                record.x = h_position >> 4\n                record.z = h_position & 0xF",
  "                record.z = h_position >> 4\n                record.x = h_position & 0xF", rule='R04.5')
M('C04-record-carrier', 'C04', BLOCK, "                value = VarLong.read(file_object)",
  "                value = UnsignedLong.read(file_object)", rule='R04.5')
M('C04-record-boundary', 'C04', BLOCK,
  "            if context.protocol_later_eq(741):\n                value = VarLong.read(file_object)",
  "            if context.protocol_later_eq(748):\n                value = VarLong.read(file_object)", rule='R04.5')
M('C04-twin-shift-form', 'C04', BASIC, "        if x >= pow(2, 25):\n            x -= pow(2, 26)",
  "        if x >= 1 << 25:\n            x -= 1 << 26", expect='silent')
M('C04-twin-reorder-sign-blocks', 'C04', BASIC,
  "        if x >= pow(2, 25):\n            x -= pow(2, 26)\n\n        if y >= pow(2, 11):\n            y -= pow(2, 12)\n",
  "        if y >= pow(2, 11):\n            y -= pow(2, 12)\n\n        if x >= pow(2, 25):\n            x -= pow(2, 26)\n",
  expect='silent')
M('C04-twin-boundary-earlier-form', 'C04', BASIC,
  "        if context.protocol_later_eq(443):\n            z = int((location >> 12) & 0x3FFFFFF)  # 26 intermediate bits\n            y = int(location & 0xFFF)              # 12 least signficant bits\n        else:\n            y = int((location >> 26) & 0xFFF)      # 12 intermediate bits\n            z = int(location & 0x3FFFFFF)          # 26 least significant bits",
  "        if context.protocol_earlier(443):\n            y = int((location >> 26) & 0xFFF)      # 12 intermediate bits\n            z = int(location & 0x3FFFFFF)          # 26 least significant bits\n        else:\n            z = int((location >> 12) & 0x3FFFFFF)  # 26 intermediate bits\n            y = int(location & 0xFFF)              # 12 least signficant bits",
  expect='silent')
M('C04-twin-boundary-moved-within-snapshots', 'C04', BASIC, "context.protocol_later_eq(443)",
  "context.protocol_later_eq(441)", count=2, expect='silent')
