"""E5 -- bit-provenance abstract interpretation of packing code.

A value is an infinite two's-complement bit vector: N explicit bit
descriptors plus one descriptor for all higher bits.  A descriptor is 0, 1,
a symbolic input bit ('x', i) or TOP.  Transfer functions for & | << >> ~
with constants, for the two sign-extension idioms of the package
(`if v >= 2**a: v -= 2**b` and `v | ~M if v & S else v & M`), tuple unpacking
and record attributes.  Running the unpacker on the packer's abstract output
and comparing with the inputs proves unpack(pack(v)) = v for every v in the
declared ranges."""
import ast

from .common import AnalysisError, rel
from .fold import FoldRaise, Opaque, Env, FuncVal, ClassVal

N = 96
TOP = 'T'


class BV(object):
    __slots__ = ('bits', 'hi', 'overlap')

    def __init__(self, bits, hi=0):
        self.bits = list(bits)
        self.hi = hi
        self.overlap = False

    @staticmethod
    def const(c):
        return BV([(c >> i) & 1 for i in range(N)], 1 if c < 0 else 0)

    @staticmethod
    def var(name, width, signed):
        if signed:
            return BV([(name, min(i, width - 1)) for i in range(N)],
                      (name, width - 1))
        return BV([(name, i) if i < width else 0 for i in range(N)], 0)

    @staticmethod
    def top():
        return BV([TOP] * N, TOP)

    def bit(self, i):
        return self.bits[i] if i < N else self.hi

    def is_const(self):
        return all(b in (0, 1) for b in self.bits) and self.hi in (0, 1)

    def const_value(self):
        if not self.is_const():
            return None
        v = 0
        for i, b in enumerate(self.bits):
            v |= b << i
        if self.hi == 1:
            v -= 1 << N
        return v

    def zero_from(self, k):
        """All bits at positions >= k are 0."""
        return self.hi == 0 and all(self.bits[i] == 0 for i in range(k, N))

    def same(self, o):
        return self.bits == o.bits and self.hi == o.hi

    def has_top(self):
        return self.hi == TOP or any(b == TOP for b in self.bits)

    def describe(self, upto=70):
        runs = []
        i = 0
        while i < upto:
            b = self.bits[i]
            j = i
            while j + 1 < upto and (_follows(self.bits[j], self.bits[j + 1])
                                    and not (j > i and self.bits[j] ==
                                             self.bits[j - 1])):
                j += 1
            k = j
            while k + 1 < upto and self.bits[k + 1] == self.bits[j]:
                k += 1
            runs.append((i, j, k, b, self.bits[j]))
            i = k + 1
        out = []
        for lo, hi, rep, b0, b1 in runs:
            if b0 == 0 and b1 == 0:
                continue
            if isinstance(b0, tuple):
                t = 'bits %d..%d = %s[%d..%d]' % (lo, hi, b0[0], b0[1], b1[1])
                if rep > hi:
                    t += ' (bit %d repeated up to %d)' % (b1[1], rep)
                out.append(t)
            else:
                out.append('bits %d..%d = %s' % (lo, rep, b0))
        return ', '.join(out) or '0'


def _follows(a, b):
    return isinstance(a, tuple) and isinstance(b, tuple) and a[0] == b[0] \
        and isinstance(a[1], int) and isinstance(b[1], int) \
        and b[1] == a[1] + 1


def _neg(a):
    if a in (0, 1):
        return 1 - a
    if a == TOP:
        return TOP
    if isinstance(a, tuple) and a[0] == 'not':
        return a[1]
    return ('not', a)


def bxor_const(x, c):
    """x ^ c for a constant c >= 0: the bits of x under the set bits of c
    are complemented"""
    return BV([_neg(b) if (c >> i) & 1 else b for i, b in enumerate(x.bits)],
              x.hi)


def _and(a, b):
    if a == 0 or b == 0:
        return 0
    if a == 1:
        return b
    if b == 1:
        return a
    if a == b:
        return a
    return TOP


def _or(a, b):
    if a == 1 or b == 1:
        return 1
    if a == 0:
        return b
    if b == 0:
        return a
    if a == b:
        return a
    return TOP


def band(x, y):
    return BV([_and(a, b) for a, b in zip(x.bits, y.bits)], _and(x.hi, y.hi))


def bor(x, y):
    r = BV([_or(a, b) for a, b in zip(x.bits, y.bits)], _or(x.hi, y.hi))
    for a, b in list(zip(x.bits, y.bits)) + [(x.hi, y.hi)]:
        if a not in (0, 1) and b not in (0, 1) and a != b:
            r.overlap = True
        if (a == 1 and b not in (0, 1)) or (b == 1 and a not in (0, 1)):
            pass
    r.overlap = r.overlap or x.overlap or y.overlap
    return r


def shl(x, k):
    dropped = x.bits[N - k:] if k else []
    hi = x.hi if all(b == x.hi for b in dropped) else TOP
    return BV([0] * k + x.bits[:N - k], hi)


def shr(x, k):
    return BV(x.bits[k:] + [x.hi] * k, x.hi)


def invert(x):
    if not x.is_const():
        return BV.top()
    return BV.const(~x.const_value())


def mux(d, t, e):
    """bit selected by condition bit d: t when d = 1, e when d = 0."""
    if d in (0, 1):
        return t if d else e
    t2 = 1 if t == d else t
    e2 = 0 if e == d else e
    if t2 == e2:
        return t2
    if t2 == 1 and e2 == 0:
        return d
    return TOP


def merge(d, x, y):
    if d == TOP:
        return BV([a if a == b else TOP for a, b in zip(x.bits, y.bits)],
                  x.hi if x.hi == y.hi else TOP)
    return BV([mux(d, a, b) for a, b in zip(x.bits, y.bits)],
              mux(d, x.hi, y.hi))


class Rec(object):
    """A record object under construction / inspection."""

    def __init__(self, attrs=None, name=None):
        self.attrs = dict(attrs or {})
        self.name = name


class Seq(object):
    """A tuple- or list-like value whose items are abstract values."""

    def __init__(self, items, fields=None):
        self.items = list(items)
        self.fields = fields        # a namedtuple: the names of the items


class PyDict(object):
    """A dict with concrete (string / int) keys and abstract values."""

    def __init__(self, items=None):
        self.items = dict(items or {})


def lift(v):
    """A folded Python value as an abstract value: ints become constant bit
    vectors, tuples / lists sequences, dicts PyDicts; the rest stays."""
    if isinstance(v, bool):
        return v
    if isinstance(v, int):
        return BV.const(v)
    if isinstance(v, (tuple, list)):
        ntc = getattr(v, 'ntc', None)
        return Seq([lift(x) for x in v],
                   fields=ntc.fields if ntc is not None else None)
    if isinstance(v, dict) and all(isinstance(k, (str, int))
                                   for k in v):
        return PyDict({k: lift(x) for k, x in v.items()})
    return v


def concrete_key(v):
    """the Python key an abstract value denotes, or None"""
    if isinstance(v, bool):
        return int(v)
    if isinstance(v, BV):
        return v.const_value()
    if isinstance(v, (str, int)):
        return v
    return None


class BitInterp(object):
    """Abstractly executes one packer or unpacker."""

    def __init__(self, folder, fi, ctx_val):
        self.F = folder
        self.fi = fi
        self.ctx = ctx_val
        self.out = []        # packer: [(codec text, BV)]
        self.inputs = []     # unpacker: words handed to successive reads
        self.read_log = []   # codec texts of reads, in order
        self.result = None
        self.ctx_names = set()
        self.version_tests = []

    def err(self, msg, node):
        return AnalysisError('bitprov: ' + msg, node, rel(self.fi.path))

    def fenv(self):
        """folding environment of the codec's own scope: module names, and
        the class itself under a classmethod's first parameter"""
        fe = Env(self.fi.module)
        if self.fi.cls is not None and self.fi.kind == 'class' and \
                self.fi.params:
            fe.vars[self.fi.params[0]] = ClassVal(self.fi.cls)
        return fe

    # -- expressions -------------------------------------------------------
    def ev(self, e, env):
        if isinstance(e, ast.Constant):
            if isinstance(e.value, bool):
                return e.value
            if isinstance(e.value, int):
                return BV.const(e.value)
            return e.value
        if isinstance(e, ast.Name):
            if e.id in env:
                return env[e.id]
            # module constant
            try:
                v = self.F.eval(e, Env(self.fi.module))
            except (AnalysisError, FoldRaise):
                raise self.err('unknown name %s' % e.id, e)
            return lift(v)
        if isinstance(e, ast.Attribute):
            # a constant of the codec's own class: cls.X / self.X / Class.X
            if isinstance(e.value, ast.Name) and env.get(e.value.id) in (
                    None, ('param', e.value.id)) and \
                    self.fi.cls is not None:
                own = None
                if self.fi.params and e.value.id == self.fi.params[0] and \
                        self.fi.kind in ('class', 'instance'):
                    own = ClassVal(self.fi.cls)
                if own is not None and self.F.db.find_attr(
                        self.fi.cls, e.attr) is not None:
                    try:
                        v = self.F.class_attr(own, e.attr, e, self.fi.module)
                    except (AnalysisError, FoldRaise):
                        v = None
                    if v is not None and not isinstance(v, (Opaque, FuncVal,
                                                            ClassVal)):
                        lv = lift(v)
                        if isinstance(lv, (BV, Seq, PyDict, str, bool)):
                            return lv
            # a constant of a class named in the module (Position._AXIS_BITS)
            if isinstance(e.value, ast.Name) and e.value.id not in env:
                try:
                    v = self.F.eval(e, self.fenv())
                except (AnalysisError, FoldRaise):
                    v = None
                if v is not None and not isinstance(v, (Opaque, FuncVal,
                                                        ClassVal)):
                    lv = lift(v)
                    if isinstance(lv, (BV, Seq, PyDict, str, bool)):
                        return lv
            base = self.ev(e.value, env)
            if isinstance(base, Seq) and base.fields and \
                    e.attr in base.fields:
                return base.items[base.fields.index(e.attr)]
            if isinstance(base, Rec):
                if e.attr not in base.attrs:
                    raise self.err('record attribute %s read before it is '
                                   'set' % e.attr, e)
                return base.attrs[e.attr]
            return ('attr', base, e.attr)
        if isinstance(e, ast.BinOp):
            a = self.ev(e.left, env)
            b = self.ev(e.right, env)
            return self.binop(e.op, a, b, e)
        if isinstance(e, ast.UnaryOp):
            v = self.ev(e.operand, env)
            if isinstance(e.op, ast.Invert) and isinstance(v, BV):
                return invert(v)
            if isinstance(e.op, ast.USub) and isinstance(v, BV) and \
                    v.is_const():
                return BV.const(-v.const_value())
            if isinstance(e.op, ast.Not):
                if isinstance(v, bool):
                    return not v
                if isinstance(v, tuple) and v[0] == 'cond':
                    return ('cond', v[1], not v[2])
            raise self.err('unsupported unary operation', e)
        if isinstance(e, ast.Call):
            return self.call(e, env)
        if isinstance(e, ast.IfExp):
            c = self.cond(e.test, env)
            if isinstance(c, bool):
                return self.ev(e.body if c else e.orelse, env)
            t = self.ev(e.body, env)
            f = self.ev(e.orelse, env)
            if isinstance(t, BV) and isinstance(f, BV):
                d, pos = c[1], c[2]
                return merge(d, t, f) if pos else merge(d, f, t)
            raise self.err('conditional over non-integers', e)
        if isinstance(e, ast.Compare):
            return self.cond(e, env)
        if isinstance(e, (ast.Tuple, ast.List)):
            return Seq([self.ev(x, env) for x in e.elts])
        if isinstance(e, (ast.ListComp, ast.GeneratorExp)) and \
                len(e.generators) == 1 and not e.generators[0].ifs:
            # a comprehension over a sequence of known length: that many
            # evaluations
            g = e.generators[0]
            src = self.ev(g.iter, env)
            if not isinstance(src, Seq):
                raise self.err('comprehension over a value of unknown '
                               'length', e)
            items = []
            for x in src.items:
                inner = dict(env)
                self.store(g.target, x, inner)
                items.append(self.ev(e.elt, inner))
            return Seq(items)
        if isinstance(e, ast.Dict) and all(k is not None for k in e.keys):
            out = PyDict()
            for k, v in zip(e.keys, e.values):
                kk = concrete_key(self.ev(k, env))
                if kk is None:
                    raise self.err('dict key is not a constant', k)
                out.items[kk] = self.ev(v, env)
            return out
        if isinstance(e, ast.Subscript):
            base = self.ev(e.value, env)
            if isinstance(e.slice, ast.Slice):
                raise self.err('slices are not interpreted', e)
            try:
                idx = self.ev(e.slice, env)
            except AnalysisError:
                idx = None
            if isinstance(idx, tuple) and idx and idx[0] == 'cond':
                idx = None
            k = concrete_key(idx) if idx is not None else None
            if k is None and isinstance(e.slice, (ast.Call, ast.Compare,
                                                  ast.BoolOp, ast.UnaryOp)):
                c = self.cond(e.slice, env)
                if isinstance(c, bool):
                    k = int(c)
            if isinstance(base, Seq) and isinstance(k, int) and \
                    -len(base.items) <= k < len(base.items):
                return base.items[k]
            if isinstance(base, PyDict) and k in base.items:
                return base.items[k]
            if isinstance(base, (str,)) and isinstance(k, int):
                return base[k]
        raise self.err('unsupported expression %s' % type(e).__name__, e)

    def binop(self, op, a, b, node):
        if not (isinstance(a, BV) and isinstance(b, BV)):
            raise self.err('arithmetic on non-integers', node)
        if isinstance(op, ast.BitAnd):
            return band(a, b)
        if isinstance(op, ast.BitOr):
            return bor(a, b)
        if isinstance(op, (ast.LShift, ast.RShift)):
            k = b.const_value()
            if k is None or k < 0 or k >= N:
                return BV.top()
            return shl(a, k) if isinstance(op, ast.LShift) else shr(a, k)
        if isinstance(op, ast.Pow) and a.is_const() and b.is_const():
            return BV.const(a.const_value() ** b.const_value())
        if isinstance(op, (ast.Add, ast.Sub, ast.Mult)) and a.is_const() \
                and b.is_const():
            f = {ast.Add: lambda p, q: p + q, ast.Sub: lambda p, q: p - q,
                 ast.Mult: lambda p, q: p * q}[type(op)]
            return BV.const(f(a.const_value(), b.const_value()))
        if isinstance(op, ast.BitXor) and (b.is_const() or a.is_const()):
            v, c = (a, b.const_value()) if b.is_const() else \
                (b, a.const_value())
            if c >= 0:
                return bxor_const(v, c)
            return BV.top()
        if isinstance(op, ast.Sub) and b.is_const():
            c = b.const_value()
            if c > 0 and c & (c - 1) == 0:
                k = c.bit_length() - 1
                if a.zero_from(k + 1) and isinstance(a.bits[k], tuple) and \
                        a.bits[k][0] == 'not':
                    # (v ^ 2**k) - 2**k with v < 2**(k+1): the sign extension
                    # of the (k+1)-bit field v -- its low bits kept, its top
                    # bit d at every position from k on
                    d = a.bits[k][1]
                    return BV(a.bits[:k] + [d] * (N - k), d)
                if a.zero_from(k):
                    # v - 2**k with v < 2**k: low bits kept, the rest all 1
                    return BV(a.bits[:k] + [1] * (N - k), 1)
            return BV.top()
        if isinstance(op, ast.Sub) and not b.is_const():
            # a - b where b is one (possibly set) bit d at position j and a
            # has no bits at or above j: a when d = 0, a - 2**j when d = 1,
            # i.e. the bits of a below j and d at every position from j on
            # (two's complement reading of a field whose top bit is d)
            nz = [i for i, x in enumerate(b.bits) if x != 0]
            if b.hi == 0 and len(nz) == 1 and a.zero_from(nz[0]) and \
                    b.bits[nz[0]] != TOP:
                j = nz[0]
                d = b.bits[j]
                return BV(a.bits[:j] + [d] * (N - j), d)
            return BV.top()
        if isinstance(op, ast.Add) and a.is_const() is False and \
                b.is_const() is False:
            # disjoint addition behaves like |
            r = bor(a, b)
            if not r.overlap and not r.has_top():
                return r
            return BV.top()
        return BV.top()

    def cond(self, t, env):
        """bool, or ('cond', bit descriptor, polarity)."""
        if isinstance(t, ast.Call) and isinstance(t.func, ast.Attribute) and \
                t.func.attr.startswith('protocol_'):
            recv = self.ev(t.func.value, env)
            if recv is self.ctx or recv == ('ctx',):
                args = [self.F.eval(a, self.fenv()) for a in t.args]
                fv = self.F.getattr(self.ctx, t.func.attr, t, self.fi.module)
                r = self.F.call(fv, args, {}, t, Env(self.fi.module))
                self.version_tests.append((t.func.attr, tuple(args), r))
                return bool(r)
        if isinstance(t, ast.BoolOp):
            vals = [self.cond(v, env) for v in t.values]
            if all(isinstance(v, bool) for v in vals):
                return all(vals) if isinstance(t.op, ast.And) else any(vals)
            raise self.err('boolean combination of data conditions', t)
        if isinstance(t, ast.UnaryOp) and isinstance(t.op, ast.Not):
            c = self.cond(t.operand, env)
            if isinstance(c, bool):
                return not c
            return ('cond', c[1], not c[2])
        if isinstance(t, ast.Compare) and len(t.ops) == 1:
            a = self.ev(t.left, env)
            b = self.ev(t.comparators[0], env)
            if isinstance(a, BV) and isinstance(b, BV) and a.is_const() \
                    and b.is_const():
                import operator as _o
                f = {ast.Lt: _o.lt, ast.LtE: _o.le, ast.Gt: _o.gt,
                     ast.GtE: _o.ge, ast.Eq: _o.eq, ast.NotEq: _o.ne}.get(
                         type(t.ops[0]))
                if f is not None:
                    return bool(f(a.const_value(), b.const_value()))
            if isinstance(a, BV) and isinstance(b, BV) and b.is_const():
                c = b.const_value()
                op0 = t.ops[0]
                if isinstance(op0, (ast.Gt, ast.LtE)) and c >= 0 and \
                        (c + 1) & c == 0:
                    # v > 2**k - 1  is  v >= 2**k ;  v <= 2**k - 1  is  v < 2**k
                    c += 1
                    op0 = ast.GtE() if isinstance(op0, ast.Gt) else ast.Lt()
                if isinstance(op0, (ast.GtE, ast.Lt)) and c > 0 and \
                        c & (c - 1) == 0:
                    k = c.bit_length() - 1
                    # v >= 2**k  <=>  bit k, provided v < 2**(k+1) and v >= 0
                    d = a.bit(k) if a.zero_from(k + 1) else TOP
                    return ('cond', d, isinstance(op0, ast.GtE))
                if isinstance(t.ops[0], (ast.NotEq, ast.Eq)) and c == 0:
                    nz = [x for x in a.bits + [a.hi] if x != 0]
                    d = nz[0] if len(nz) == 1 else TOP
                    return ('cond', d, isinstance(t.ops[0], ast.NotEq))
            return ('cond', TOP, True)
        v = self.ev(t, env)
        if isinstance(v, bool):
            return v
        if isinstance(v, BV) and v.is_const():
            return v.const_value() != 0
        if isinstance(v, BV):
            # truth of `v & single_bit`
            nz = [x for x in v.bits + [v.hi] if x != 0]
            d = nz[0] if len(nz) == 1 else TOP
            return ('cond', d, True)
        if isinstance(v, tuple) and v and v[0] == 'cond':
            return v
        if v is self.ctx:
            return True
        raise self.err('unsupported condition', t)

    REDUCE_OPS = {'or_': ast.BitOr, 'and_': ast.BitAnd, 'add': ast.Add,
                  'xor': ast.BitXor, '__or__': ast.BitOr}

    def _ext_name(self, f):
        """dotted external name of a callee expression (functools.reduce,
        operator.or_), or None"""
        try:
            ent = self.F.db.resolve_dotted(self.fi.module, f)
        except AnalysisError:
            return None
        from .srcdb import External
        return ent.dotted if isinstance(ent, External) else None

    def _own_function(self, f, env):
        """FuncInfo of a helper of the codec's own class / module the callee
        expression names (Position._layout, cls._signed, _helper), with the
        receiver value to bind (or None)"""
        db = self.F.db
        if isinstance(f, ast.Name) and f.id not in env:
            try:
                ent = db.resolve_dotted(self.fi.module, f)
            except AnalysisError:
                ent = None
            from .srcdb import FuncInfo
            if isinstance(ent, FuncInfo):
                return ent, None
            return None
        if isinstance(f, ast.Attribute) and isinstance(f.value, ast.Name):
            ci = None
            recv = env.get(f.value.id)
            if recv in (None, ('param', f.value.id)):
                if self.fi.cls is not None and self.fi.params and \
                        f.value.id == self.fi.params[0] and \
                        self.fi.kind in ('class', 'instance'):
                    ci = self.fi.cls
                elif recv is None:
                    try:
                        ent = db.deref(db.resolve_dotted(self.fi.module,
                                                         f.value))
                    except AnalysisError:
                        ent = None
                    from .srcdb import ClassInfo
                    if isinstance(ent, ClassInfo):
                        ci = ent
            if ci is not None:
                m = db.find_method(ci, f.attr)
                if m is not None and m.kind in ('static', 'class'):
                    return m, (ClassVal(ci) if m.kind == 'class' else None)
        return None

    def run_helper(self, m, recv, argvals, kwvals, node):
        if getattr(self, '_depth', 0) > 4:
            raise self.err('helper calls nested too deeply', node)
        params = list(m.params)
        inner = {}
        if m.kind == 'class':
            inner[params[0]] = ('param', params[0])
            params = params[1:]
        if len(argvals) > len(params):
            raise self.err('too many arguments for %s' % m.name, node)
        for pn, a in zip(params, argvals):
            inner[pn] = a
        for k, v in kwvals.items():
            if k not in params:
                raise self.err('unknown keyword %s for %s' % (k, m.name),
                               node)
            inner[k] = v
        missing = [p_ for p_ in params if p_ not in inner]
        if missing:
            args = m.node.args
            defaults = dict(zip([a.arg for a in args.args][::-1],
                                args.defaults[::-1]))
            for p_ in missing:
                if p_ not in defaults:
                    raise self.err('argument %s of %s not given' % (
                        p_, m.name), node)
                inner[p_] = self.ev(defaults[p_], {})
        is_gen = any(isinstance(x, (ast.Yield, ast.YieldFrom))
                     for x in ast.walk(m.node))
        outer_fi, self.fi = self.fi, m
        outer_y = getattr(self, '_yields', None)
        self._yields = [] if is_gen else None
        self._depth = getattr(self, '_depth', 0) + 1
        try:
            try:
                self.block(m.body, inner)
                res = None
            except _Ret as r:
                res = r.value
            if is_gen:
                return Seq(self._yields)
            return res
        finally:
            self.fi = outer_fi
            self._yields = outer_y
            self._depth -= 1

    def codec_text(self, node, env):
        """the wire type a receiver expression names: its text, or the class
        a local name is bound to (for type_ in (UnsignedByte, VarInt): ...)"""
        if isinstance(node, ast.Name) and isinstance(env.get(node.id),
                                                     ClassVal):
            return env[node.id].ci.name
        return ast.unparse(node)

    def call(self, e, env):
        f = e.func
        if isinstance(f, ast.Attribute) and f.attr.startswith('protocol_'):
            c = self.cond(e, env)
            if isinstance(c, bool):
                return c
        if isinstance(f, ast.Name) and f.id in ('int',) and len(e.args) == 1:
            return self.ev(e.args[0], env)
        if isinstance(f, ast.Name) and f.id in ('tuple', 'list') and \
                f.id not in env and len(e.args) <= 1 and not e.keywords:
            if not e.args:
                return Seq([])
            v = self.ev(e.args[0], env)
            if isinstance(v, Seq):
                return Seq(v.items)
            if isinstance(v, PyDict):
                return Seq(list(v.items))
            raise self.err('%s() of a value of unknown length' % f.id, e)
        if isinstance(f, ast.Name) and f.id == 'dict' and f.id not in env \
                and not e.args and all(k.arg for k in e.keywords):
            return PyDict({k.arg: self.ev(k.value, env) for k in e.keywords})
        if isinstance(f, ast.Name) and f.id == 'zip' and f.id not in env \
                and e.args and not e.keywords:
            seqs = [self.ev(a, env) for a in e.args]
            if not all(isinstance(q, Seq) for q in seqs):
                raise self.err('zip() of a value of unknown length', e)
            return Seq([Seq(list(t)) for t in zip(*[q.items for q in seqs])])
        if isinstance(f, ast.Name) and f.id == 'setattr' and \
                len(e.args) == 3 and f.id not in env:
            base = self.ev(e.args[0], env)
            nm = self.ev(e.args[1], env)
            if isinstance(base, Rec) and isinstance(nm, str):
                base.attrs[nm] = self.ev(e.args[2], env)
                return None
            raise self.err('setattr with an unknown object / name', e)
        if isinstance(f, ast.Name) and f.id == 'getattr' and \
                len(e.args) == 2 and f.id not in env:
            base = self.ev(e.args[0], env)
            nm = self.ev(e.args[1], env)
            if isinstance(base, Rec) and isinstance(nm, str):
                if nm not in base.attrs:
                    raise self.err('record attribute %s read before it is '
                                   'set' % nm, e)
                return base.attrs[nm]
            raise self.err('getattr with an unknown object / name', e)
        # a function value folded from a table: a lambda, an attrgetter
        fv = env.get(f.id) if isinstance(f, ast.Name) else None
        from .fold import LambdaVal, ExtInstance
        if isinstance(fv, LambdaVal) and not e.keywords and \
                len(e.args) == len(fv.node.args.args) and \
                not fv.node.args.vararg and not fv.node.args.kwarg:
            inner = {a.arg: self.ev(x, env)
                     for a, x in zip(fv.node.args.args, e.args)}
            return self.ev(fv.node.body, inner)
        if isinstance(fv, ExtInstance) and fv.callee == \
                'operator.attrgetter' and len(fv.args) == 1 and \
                isinstance(fv.args[0], str) and len(e.args) == 1:
            base = self.ev(e.args[0], env)
            if isinstance(base, Rec) and '.' not in fv.args[0]:
                if fv.args[0] not in base.attrs:
                    raise self.err('record attribute %s read before it is '
                                   'set' % fv.args[0], e)
                return base.attrs[fv.args[0]]
            raise self.err('attrgetter on an unknown object', e)
        held = env.get(f.id) if isinstance(f, ast.Name) else (
            self.ev(f, env) if isinstance(f, ast.Subscript) else None)
        if isinstance(held, tuple) and held[:1] == ('attr',) and \
                len(held) == 3 and held[1] in (
                    ('param', self.fi.params[0])
                    if self.fi.params else None,) and \
                self.fi.cls is not None:
            # a method of the codec's own class held in a local / a table
            m = self.F.db.find_method(self.fi.cls, held[2])
            if m is not None and m.kind in ('static', 'class'):
                return self.run_helper(
                    m, None, [self.ev(a, env) for a in e.args],
                    {k.arg: self.ev(k.value, env) for k in e.keywords}, e)
        if isinstance(f, ast.Name) and f.id == 'reversed' and \
                len(e.args) == 1 and f.id not in env:
            v = self.ev(e.args[0], env)
            if isinstance(v, Seq):
                return Seq(v.items[::-1])
            raise self.err('reversed() of a value of unknown length', e)
        if isinstance(f, ast.Name) and f.id == 'len' and len(e.args) == 1:
            v = self.ev(e.args[0], env)
            if isinstance(v, (Seq, PyDict)):
                return BV.const(len(v.items))
        if isinstance(f, ast.Name) and f.id == 'range' and e.args and \
                not e.keywords:
            vals = [concrete_key(self.ev(a, env)) for a in e.args]
            if all(isinstance(v, int) for v in vals):
                r = range(*vals)
                if len(r) <= 256:
                    return Seq([BV.const(i) for i in r])
        if isinstance(f, ast.Attribute) and f.attr == 'append' and \
                len(e.args) == 1 and isinstance(f.value, ast.Name) and \
                isinstance(env.get(f.value.id), Seq):
            env[f.value.id].items.append(self.ev(e.args[0], env))
            return None
        if isinstance(f, ast.Attribute) and f.attr in ('items', 'keys',
                                                       'values') and \
                not e.args and isinstance(f.value, ast.Name) and \
                isinstance(env.get(f.value.id), PyDict):
            d = env[f.value.id].items
            if f.attr == 'keys':
                return Seq(list(d))
            if f.attr == 'values':
                return Seq(list(d.values()))
            return Seq([Seq([k, v]) for k, v in d.items()])
        xn = self._ext_name(f) if isinstance(f, (ast.Name, ast.Attribute)) \
            else None
        if xn in ('functools.reduce', 'reduce') or (
                isinstance(f, ast.Name) and f.id == 'reduce'
                and f.id not in env and xn is None and False):
            if len(e.args) not in (2, 3):
                raise self.err('reduce() with %d arguments' % len(e.args), e)
            opn = self._ext_name(e.args[0])
            opk = (opn or '').split('.')[-1]
            if not (opn or '').startswith('operator.') or \
                    opk not in self.REDUCE_OPS:
                raise self.err('reduce() with an operator that is not '
                               'interpreted', e)
            seq = self.ev(e.args[1], env)
            if not isinstance(seq, Seq):
                raise self.err('reduce() over a value of unknown length', e)
            items = list(seq.items)
            if len(e.args) == 3:
                items.insert(0, self.ev(e.args[2], env))
            if not items:
                raise self.err('reduce() of an empty sequence', e)
            acc = items[0]
            for x in items[1:]:
                acc = self.binop(self.REDUCE_OPS[opk](), acc, x, e)
            return acc
        own = None
        if not (isinstance(f, ast.Attribute) and f.attr in (
                'read', 'send', 'read_with_context', 'send_with_context')):
            own = self._own_function(f, env)
        if own is not None and own[0] is not self.fi:
            m, recv = own
            if any(k.arg is None for k in e.keywords):
                raise self.err('**kwargs to a helper', e)
            return self.run_helper(
                m, recv, [self.ev(a, env) for a in e.args],
                {k.arg: self.ev(k.value, env) for k in e.keywords}, e)
        if isinstance(f, ast.Name) and f.id == 'pow' and len(e.args) == 2:
            a, b = self.ev(e.args[0], env), self.ev(e.args[1], env)
            if isinstance(a, BV) and isinstance(b, BV) and a.is_const() and \
                    b.is_const():
                return BV.const(a.const_value() ** b.const_value())
        if isinstance(f, ast.Attribute) and f.attr in (
                'read', 'read_with_context'):
            codec = self.codec_text(f.value, env)
            if not self.inputs:
                # more reads than the packer wrote words: reported by the
                # caller through the carrier comparison
                self.read_log.append((codec, None, e))
                return BV.top()
            c, v = self.inputs.pop(0)
            self.read_log.append((codec, c, e))
            return v
        if isinstance(f, ast.Attribute) and f.attr in (
                'send', 'send_with_context'):
            codec = self.codec_text(f.value, env)
            v = self.ev(e.args[0], env)
            if not isinstance(v, BV):
                raise self.err('packer sends a non-integer', e)
            self.out.append((codec, v, e))
            return None
        # a method of the record under construction: run it on the record
        if isinstance(f, ast.Attribute) and isinstance(f.value, ast.Name) \
                and isinstance(env.get(f.value.id), Rec):
            rec = env[f.value.id]
            m = None
            if self.fi.cls is not None and (
                    rec.name in (self.fi.cls.name, self.fi.cls.qualname)
                    or (self.fi.kind == 'class' and self.fi.params
                        and rec.name == self.fi.params[0])):
                m = self.F.db.find_method(self.fi.cls, f.attr)
            if m is None or m.kind != 'instance' or e.keywords or \
                    len(e.args) != len(m.params) - 1 or \
                    getattr(self, '_depth', 0) > 3:
                raise self.err('call of %s on the record is not followed'
                               % f.attr, e)
            inner = {m.params[0]: rec}
            for pn, a in zip(m.params[1:], e.args):
                inner[pn] = self.ev(a, env)
            outer_fi, self.fi = self.fi, m
            self._depth = getattr(self, '_depth', 0) + 1
            try:
                try:
                    self.block(m.body, inner)
                    res = None
                except _Ret as r:
                    res = r.value
            finally:
                self.fi = outer_fi
                self._depth -= 1
            return res
        # a namedtuple of the module: a sequence with named items
        if isinstance(f, ast.Name) and f.id not in env:
            from .fold import NTClass
            try:
                ntc = self.F.eval(f, Env(self.fi.module))
            except (AnalysisError, FoldRaise):
                ntc = None
            if isinstance(ntc, NTClass):
                if any(k.arg is None for k in e.keywords) or any(
                        isinstance(a, ast.Starred) for a in e.args):
                    raise self.err('*args / **kwargs to a namedtuple', e)
                vals = dict(zip(ntc.fields, [self.ev(a, env)
                                             for a in e.args]))
                if len(e.args) > len(ntc.fields):
                    raise self.err('too many fields for %s' % ntc.name, e)
                for k in e.keywords:
                    if k.arg not in ntc.fields or k.arg in vals:
                        raise self.err('bad field %s for %s' % (
                            k.arg, ntc.name), e)
                    vals[k.arg] = self.ev(k.value, env)
                if set(vals) != set(ntc.fields):
                    raise self.err('fields of %s not all given' % ntc.name,
                                   e)
                return Seq([vals[n] for n in ntc.fields], fields=ntc.fields)
        # constructor of the result: cls(...), Position(x=..), Name(...)
        args = [self.ev(a, env) for a in e.args]
        kws = {}
        for k in e.keywords:
            v = self.ev(k.value, env)
            if k.arg is None:
                if not isinstance(v, PyDict):
                    raise self.err('** of a value that is not a known dict',
                                   e)
                kws.update(v.items)
            else:
                kws[k.arg] = v
        if isinstance(f, ast.Name):
            return Rec(dict(kws, **{'#%d' % i: a for i, a in
                                    enumerate(args)}), name=f.id)
        if isinstance(f, ast.Call) or isinstance(f, ast.Attribute):
            return Rec(dict(kws, **{'#%d' % i: a for i, a in
                                    enumerate(args)}), name=ast.unparse(f))
        raise self.err('unsupported call %s' % ast.unparse(f), e)

    # -- statements --------------------------------------------------------
    def run(self, env):
        try:
            self.block(self.fi.body, env)
        except _Ret as r:
            self.result = r.value
        return self

    def block(self, stmts, env):
        for st in stmts:
            self.stmt(st, env)

    def stmt(self, st, env):
        if isinstance(st, ast.Expr):
            if isinstance(st.value, ast.Constant):
                return
            if isinstance(st.value, ast.Yield):
                if getattr(self, '_yields', None) is None:
                    raise self.err('yield outside a followed helper', st)
                self._yields.append(self.ev(st.value.value, env)
                                    if st.value.value is not None else None)
                return
            self.ev(st.value, env)
            return
        if isinstance(st, ast.Assign):
            v = self.ev(st.value, env)
            for t in st.targets:
                self.store(t, v, env)
            return
        if isinstance(st, ast.AugAssign):
            cur = self.ev(st.target, env)
            rhs = self.ev(st.value, env)
            self.store(st.target, self.binop(st.op, cur, rhs, st), env)
            return
        if isinstance(st, ast.If):
            c = self.cond(st.test, env)
            if isinstance(c, bool):
                self.block(st.body if c else st.orelse, env)
                return
            d, pos = c[1], c[2]
            e1 = self.copy_env(env)
            e2 = self.copy_env(env)
            self.block(st.body, e1)
            self.block(st.orelse, e2)
            if not pos:
                e1, e2 = e2, e1
            self.merge_env(env, d, e1, e2, st)
            return
        if isinstance(st, ast.Return):
            raise _Ret(self.ev(st.value, env) if st.value else None)
        if isinstance(st, ast.Pass):
            return
        if isinstance(st, ast.For) and not st.orelse:
            src = self.ev(st.iter, env)
            if isinstance(src, PyDict):
                src = Seq(list(src.items))
            if not isinstance(src, Seq) or len(src.items) > 256:
                raise self.err('loop over a value of unknown length', st)
            for x in list(src.items):
                self.store(st.target, x, env)
                for b in st.body:
                    if isinstance(b, (ast.Break, ast.Continue)):
                        raise self.err('break / continue in a layout loop', b)
                self.block(st.body, env)
            return
        raise self.err('unsupported statement %s' % type(st).__name__, st)

    def copy_env(self, env):
        out = {}
        for k, v in env.items():
            if isinstance(v, Rec):
                out[k] = Rec(v.attrs, v.name)
            elif isinstance(v, Seq):
                out[k] = Seq(v.items, v.fields)
            elif isinstance(v, PyDict):
                out[k] = PyDict(v.items)
            else:
                out[k] = v
        return out

    def merge_env(self, env, d, e1, e2, node):
        for k in set(e1) | set(e2):
            a, b = e1.get(k), e2.get(k)
            if isinstance(a, BV) and isinstance(b, BV):
                env[k] = merge(d, a, b)
            elif isinstance(a, Rec) and isinstance(b, Rec):
                r = Rec({}, a.name)
                for an in set(a.attrs) | set(b.attrs):
                    x, y = a.attrs.get(an), b.attrs.get(an)
                    if isinstance(x, BV) and isinstance(y, BV):
                        r.attrs[an] = merge(d, x, y)
                    else:
                        r.attrs[an] = x if x is y else BV.top()
                env[k] = r
            elif a is b:
                env[k] = a
            else:
                env[k] = BV.top()

    def store(self, t, v, env):
        if isinstance(t, ast.Name):
            env[t.id] = v
        elif isinstance(t, ast.Subscript):
            base = self.ev(t.value, env)
            k = concrete_key(self.ev(t.slice, env))
            if isinstance(base, PyDict) and k is not None:
                base.items[k] = v
            elif isinstance(base, Seq) and isinstance(k, int) and \
                    -len(base.items) <= k < len(base.items):
                base.items[k] = v
            else:
                raise self.err('item store on an unknown container / key', t)
        elif isinstance(t, (ast.Tuple, ast.List)):
            if not isinstance(v, Seq) or len(v.items) != len(t.elts):
                raise self.err('cannot unpack', t)
            for e, x in zip(t.elts, v.items):
                self.store(e, x, env)
        elif isinstance(t, ast.Attribute):
            base = self.ev(t.value, env)
            if not isinstance(base, Rec):
                raise self.err('attribute store on non-record', t)
            base.attrs[t.attr] = v
        else:
            raise self.err('unsupported store target', t)


class _Ret(Exception):
    def __init__(self, value):
        self.value = value


def field_layout(word, names):
    """{name: (offset, width)} for the symbolic fields inside a word;
    None for a field whose bits are not one contiguous ascending run."""
    out = {}
    for nm in names:
        pos = [(p, b[1]) for p, b in enumerate(word.bits)
               if isinstance(b, tuple) and b[0] == nm]
        if not pos:
            out[nm] = None
            continue
        off = pos[0][0] - pos[0][1]
        ok = all(p - i == off for p, i in pos) and \
            [i for _, i in pos] == list(range(pos[0][1], pos[0][1] + len(pos)))
        out[nm] = (pos[0][0], len(pos)) if ok and pos[0][1] == 0 else None
    return out
