#!/venv/bin/python
"""Intake of a seeded change produced by an independent sub-agent.

  tools/intake_seed.py <worktree> <PROPERTY> <name>

Confirms, in a fresh scratch worktree of /repo HEAD (removed afterwards):
  * the patch applies and every touched module compiles,
  * the pinned suite still gives the 87 baseline passes,
  * the demonstration exits 0 without the patch and 1 with it,
then runs every check of /verif against the patched copy and records which
rules fire.  Result is stored as /verif/seeded/<name>/{patch.diff, demo.py,
notes.md, meta.json}.  Nothing is ever applied to /repo itself."""
import json
import os
import shutil
import subprocess
import sys
import tempfile

VERIF = os.path.dirname(os.path.dirname(os.path.abspath(__file__)))
PY = '/venv/bin/python'
BASE = json.load(open('/root/.vp/BASELINE.json'))['stable_pass']


def sh(cmd, cwd=None, env=None, timeout=900):
    p = subprocess.run(cmd, cwd=cwd, env=env, capture_output=True, text=True,
                       timeout=timeout, shell=isinstance(cmd, str))
    return p.returncode, p.stdout + p.stderr


def suite(wt):
    xml = os.path.join(wt, '_junit.xml')
    sh([PY, '-m', 'pytest', '-q', '-p', 'no:cacheprovider', '--timeout=900',
        '--continue-on-collection-errors', '--junitxml=' + xml], cwd=wt)
    import xml.etree.ElementTree as ET
    passed = set()
    failed = set()
    for tc in ET.parse(xml).getroot().iter('testcase'):
        name = '%s::%s' % (tc.get('classname'), tc.get('name'))
        if any(c.tag in ('failure', 'error') for c in tc):
            failed.add(name)
        elif not any(c.tag == 'skipped' for c in tc):
            passed.add(name)
    os.remove(xml)
    return passed, failed


def main():
    args = [a for a in sys.argv[1:] if not a.startswith('--')]
    checks_only = '--checks-only' in sys.argv
    refactor = '--refactor' in sys.argv   # behaviour-preserving change
    src, prop, name = args[:3]
    seed = os.path.join(src, 'SEED')
    if not os.path.isdir(seed):
        seed = src              # re-check of a stored seed
    patch = os.path.join(seed, 'patch.diff')
    demo = os.path.join(seed, 'demo.py')
    for f in (patch, demo):
        if not os.path.exists(f) or os.path.getsize(f) == 0:
            sys.exit('missing or empty %s' % f)
    wt = tempfile.mkdtemp(prefix='intake-')
    os.rmdir(wt)
    rc, out = sh(['git', '-C', '/repo', 'worktree', 'add', '-q', wt, 'HEAD'])
    if rc:
        sys.exit(out)
    meta = dict(property=prop, name=name)
    try:
        os.makedirs(os.path.join(wt, 'SEED'))
        shutil.copy(demo, os.path.join(wt, 'SEED', 'demo.py'))
        for extra in os.listdir(seed):
            if extra not in ('patch.diff', 'demo.py') and os.path.isfile(
                    os.path.join(seed, extra)):
                shutil.copy(os.path.join(seed, extra),
                            os.path.join(wt, 'SEED', extra))
        old_meta = {}
        if checks_only and os.path.exists(os.path.join(seed, 'meta.json')):
            old_meta = json.load(open(os.path.join(seed, 'meta.json')))
        if checks_only:
            rc0, out0 = old_meta.get('demo_without'), ''
        else:
            rc0, out0 = sh([PY, 'SEED/demo.py'], cwd=wt, timeout=180)
        meta['demo_without'] = rc0
        rc, out = sh(['git', 'apply', '--whitespace=nowarn', patch], cwd=wt)
        if rc:
            sys.exit('patch does not apply: ' + out)
        touched = [l[6:].strip() for l in open(patch)
                   if l.startswith('+++ b/')]
        meta['files'] = touched
        for f in touched:
            rc, out = sh([PY, '-m', 'py_compile', f], cwd=wt)
            if rc:
                sys.exit('does not compile: ' + out)
        if checks_only:
            rc1 = old_meta.get('demo_with')
            meta['demo_output_with'] = old_meta.get('demo_output_with')
            meta['suite'] = old_meta.get('suite')
            missing = (meta['suite'] or {}).get('baseline_missing', [])
            passed = range((meta['suite'] or {}).get('passed', 0))
        else:
            rc1, out1 = sh([PY, 'SEED/demo.py'], cwd=wt, timeout=180)
            meta['demo_output_with'] = out1[-1500:]
            passed, failed = suite(wt)
            missing = sorted(set(BASE) - passed)
            meta['suite'] = dict(passed=len(passed), failed=len(failed),
                                 baseline_missing=missing)
        meta['demo_with'] = rc1
        # run every check against the patched copy
        fired = {}
        outdir = tempfile.mkdtemp(prefix='intake-out-')
        env = dict(os.environ, PYCRAFT_REPO=wt, VP_OUT=outdir)
        ids = [json.loads(l)['id'] for l in open(os.path.join(
            VERIF, 'properties.jsonl'))]
        for pid in ids:
            if not os.path.exists(os.path.join(VERIF, 'vp', 'props',
                                               pid.lower() + '.py')):
                continue
            rc, out = sh([PY, '-m', 'vp.check', pid], cwd=VERIF, env=env)
            if rc != 0:
                fired[pid] = dict(rc=rc, findings=[
                    l[:400] for l in out.splitlines()
                    if l.startswith(('FINDING', 'ANALYSIS-ERROR'))][:6])
        shutil.rmtree(outdir, ignore_errors=True)
        meta['checks_fired'] = fired
        meta['detected_by_checks_of'] = sorted(
            p for p, v in fired.items() if v['rc'] == 1)
        ok = (rc0 == 0 and rc1 == (0 if refactor else 1) and not missing)
        if refactor:
            meta['kind'] = 'behaviour-preserving refactoring'
            meta['false_alarms'] = sorted(
                p for p, v in fired.items() if v['rc'] == 1)
            meta['undecided'] = sorted(
                p for p, v in fired.items() if v['rc'] == 2)
        meta['confirmed'] = ok
        meta['what_ran'] = (
            'fresh worktree of /repo HEAD; demo without patch (exit %s), '
            'git apply, py_compile of touched files, demo with patch '
            '(exit %s), pinned suite (%d passed, baseline missing %d), all '
            '/verif quick checks with PYCRAFT_REPO pointing at the patched '
            'copy' % (rc0, rc1, len(passed), len(missing)))
        print(json.dumps(meta, indent=1)[:6000])
        if ok:
            dst = os.path.join(VERIF, 'seeded', name)
            os.makedirs(dst, exist_ok=True)
            if os.path.abspath(dst) != os.path.abspath(seed):
                shutil.copy(patch, os.path.join(dst, 'patch.diff'))
                shutil.copy(demo, os.path.join(dst, 'demo.py'))
            notes = os.path.join(seed, 'notes.md')
            if os.path.exists(notes):
                if os.path.abspath(dst) != os.path.abspath(seed):
                    shutil.copy(notes, os.path.join(dst, 'notes.md'))
                meta['needs_to_manifest'] = open(notes).read()[:1500]
            if checks_only and old_meta.get('what_ran'):
                meta['what_ran'] = old_meta['what_ran'] + \
                    ' [checks re-run later against the same patch]'
            meta['expect'] = 'silent' if refactor else (
                'violation' if meta['detected_by_checks_of'] else 'missed')
            json.dump(meta, open(os.path.join(dst, 'meta.json'), 'w'),
                      indent=1)
            print('STORED', dst)
        else:
            print('NOT CONFIRMED')
    finally:
        sh(['git', '-C', '/repo', 'worktree', 'remove', '--force', wt])
        sh(['git', '-C', '/repo', 'worktree', 'prune'])


if __name__ == '__main__':
    main()
