#!/venv/bin/python
"""Regenerates /verif/MANIFEST.json from the claims below; a property is
claimed only when its checker module exists under vp/props/."""
import json
import os

HERE = os.path.dirname(os.path.dirname(os.path.abspath(__file__)))

CLAIMS = {
 'C01': dict(cat='other', tech='path-sensitive effect summaries of the framing code: byte-string algebra over the writer\'s effects, reader mirror sequence, remaining-bytes requests by a linear loop invariant, single-update cipher wrappers',
   text='Decides the structural clauses of framing on all paths: length prefix = len of the very bytes sent next; compressed arm announces len(payload captured before reset) and sends compress(payload), other arm 0 + payload; reader inflates iff announced size > 0; every stream read asks for the remaining length only; per-packet mode lookup; the reading loop takes the stream from the connection for every frame; cipher wrappers are single pass-through updates. A packet reaches the wire whole or not at all (nothing is sent on a path on which its serialisation raised, also through a context manager that emits on exit). Not decided: that zlib/AES invert (library), concrete sizes.',
   note='Trusted: zlib/cryptography semantics, CPython ast. Holds for all thresholds/segmentations because the rules are path facts, not samples.', ref='3/C01'),
 'C02': dict(cat='other', tech='codec-table agreement, call-arity resolution, short-read dataflow on path summaries, interval analysis of derived values',
   text='Decides per wire type: send/read format strings agree with each other, with the reference table and with the byte count read (struct.calcsize); every codec call site passes the right number of arguments; every stream read in types/ flows into a consumer that fails on short input; prefix = len of the bytes sent; derived integer arguments stay in the codec range (interval analysis); scaling is inverse on both sides, FixedPoint(T, n) divides by 2**n for every n its constructor can be given (folded for 0..32, positional, keyword, default), and each modulus of Angle.send is the scaling constant next to it; an integer codec spelt with int.from_bytes / to_bytes has the prescribed width, byte order and signedness and refuses a short read on every returning path.',
   note='Trusted: struct/uuid/UTF-8 library semantics; numeric quantisation bounds not decided.', ref='3/C02'),
 'C03': dict(cat='other', tech='loop summaries of VarInt.read/send: counters linear in the iteration number, worst-case read bound, sign analysis and ranking function, sibling-constant agreement',
   text='Decides: every path round the read loop performs exactly one 1-byte read, bumps the counter and passes the max_bytes guard (bound = max_bytes+1 reads); no read after the terminating byte; result built only from non-negative pieces; send loop terminates (value >= 0 established before the loop, only update is >>= 7, exit on == 0); mask/shift/continuation constants and the size table agree on 7 bits per byte; a VarLong override may only pass the inherited codec through with cls preserved (a call through a named class re-binds max_bytes); when the bound is the loop test or a zip with a range, running out of iterations raises and the byte generator is not advanced once more.',
   note='Numerical round trip follows from the base-128 argument given the agreeing constants; not enumerated.', ref='3/C03'),
 'C04': dict(cat='proof', tech='bit-provenance abstract interpretation of packers/unpackers, version-boundary folding',
   text='Proof over code shape: packer fields are disjoint, cover the word, with the reference widths and order per version arm; unpacker extracts the same bit ranges and sign-extends at the field width (unpack o pack = id on the declared ranges); both sides switch on the same single boundary, which puts <=404 on the old and >=477 on the new layout; same for ChunkSectionPos and block records either side of 741.',
   note='Trusted: Python integer operator semantics, struct >Q; valid for every in-range value and all 369 versions.', ref='3/C04'),
 'C05': dict(cat='other', tech='wire-grammar extraction (regular expressions over codec tokens) and language inclusion writer <= reader, per version; definition folding',
   text='Decides: the generic definition-driven reader/writer are mirror images; every class x version definition is well-formed (types resolve, no duplicate field, trailing array last); for every hand-written read/write pair and custom Type, every token sequence the writer can emit is parsed by the reader with the same codecs and field bindings, in every version; the id written is the registered id; constructor arguments of wire types stand in the role of their parameter; hand-written writers decide the presence of an optional field by is-not-None and every codec call of a hand-written reader / writer is made on the function\'s own stream; a hand-written reader does not decide what to read next by the truth of a decoded number or string unless the writer sends that value and decides by its truth too; no list of records is one object multiplied.',
   note='Value equality per codec is delegated to C02/C04; bindings are compared only where syntactically evident.', ref='3/C05'),
 'C06': dict(cat='proof', tech='exhaustive constant folding of get_packets/get_id over all versions (finite enumeration)',
   text='Complete decision: get_packets(context) and get_id(context) are folded for every supported version x 8 tables (thorough: all 369 known); each id must be a non-negative int and ids pairwise distinct; the reactor dict keys on get_id(context) of its own state table; wire id = table id; every predicate constant is a known version; get_packets/get_id and their helpers change no module- or class-level object (may-alias dataflow), so a table is a function of the version alone.',
   note='Trusted: the fold evaluator for the Python subset the tables use (fails closed on anything else), CPython ast.', ref='3/C06'),
 'C07': dict(cat='other', tech='folded ids/layouts vs an independently authored reference table (wire shapes) for README releases',
   text='For each release the README lists (30 protocol numbers) and the core packet set, the folded id and field layout reduced to wire shapes equal reference/protocol_core.json, a table written from the protocol documentation sharing no code with pyCraft (signedness judged for 16- and 64-bit fields, not for bytes); no other registered class shares a core packet\'s id.',
   note='The reference table is authored from memory of wiki.vg (no network here); entries I could not vouch for are omitted and listed.', ref='3/C07'),
 'C08': dict(cat='proof', tech='constant folding of initglobals over the literal records vs a reference projection; order-type decision of the predicates; no-memoisation reachability over the call graph',
   text='The derived tables are folded from the literal record list through initglobals and equal an independently stated projection (order-preserving, duplicate-free, index strictly increasing); re-initialisation folds to the same tables, in place, also after extending the records; the two comparison functions and five context predicates are the chronological <, <=, >, >=, in-range (order types; thorough: all 136k pairs); nothing reachable from a predicate is memoised (decorator or self-filled cache), so a rebuilt table is seen at once; no function orders protocol numbers numerically where that differs from publication order on a supported version; ConnectionContext(protocol_version=v) is about v for every known v (0 included).',
   note='Trusted: fold evaluator; behaviour for ill-formed user records at run time is outside any static view.', ref='3/C08'),
 'C09': dict(cat='other', tech='path-sensitive effect summaries of connect/status/handle_status/StatusReactor.react compared with the negotiation decision table; field completeness of constructed packets; folding of the version helper',
   text='Decides branch structure and ordering: both constructor inputs flow through one validating function (found by data flow), which returns only members of the supported set and otherwise raises ValueError (its own path summaries); _version_mismatch raises VersionMismatch with the right text for every way its two arguments can be given; single-version arm = handshake(playing)+login start from token profile or username, no status request; other arm = handshake(status)+request; status evaluation order (empty -> raise, missing -> default path, not allowed -> mismatch, else narrow+reconnect); EOF-only fallback; plain status calls the handler once, pings only on request, always disconnects; without an initial_version the default (fallback) version is the latest of the allowed versions, by the publication order of tables that are the duplicate-free projection of the records.',
   note='Latency sign, JSON contents and server integers are run-time values: not decided.', ref='3/C09'),
 'C10': dict(cat='other', tech='path-sensitive effect summaries of LoginReactor.react grouped by packet name: per-arm dataflow and ordering obligations',
   text='Decides per arm, on all paths: one secret flows to RSA encryption, hash and cipher; response fields get encrypted secret/token in the right slots; forced write dominates both wrapper installations; both socket and file object wrapped from one cipher; compression arm sets threshold and flag; plugin arm writes exactly one unsuccessful response with the request id; success installs the play reactor; disconnect arm always raises and only the chat object text member or the raw data reach the string consumers, and the mismatch helper it calls raises VersionMismatch also for a version name the tables do not know; the secret is generated afresh on every path and kept only in a local; the transport (file object) is re-read from the connection for every packet so the cipher applies to the very next frame; the forced write writes only its own packet, and the compression / encryption arms put nothing else on the wire before the framing is switched; no two classes of a login table share an id in any supported version; the login reactor is built after the version in force is set.',
   note='Stateless dispatch makes every-order reduce to per-arm obligations; crypto numerics in C18.', ref='3/C10'),
 'C11': dict(cat='other', tech='path-sensitive effect summaries of PlayingReactor.react / read_packet / _run: per-arm obligations + three-way version-predicate agreement by folding',
   text='Decides: keep-alive arm queues exactly one reply carrying the incoming id, same codec both ways in every version; position arm sets spawned on all paths, its version test agrees with the presence of teleport_id and the registration of TeleportConfirm in every version, each sub-arm writes one fully populated packet; unknown ids never touch the stream; disconnect arm disconnects; disconnect() stores connected = False on every exit (also when the final flush fails), which is what the exit callback is guarded by; exit callback called at one guarded site; every packet read is handed to _react before the thread reads again or leaves the loop; no version guard orders protocol numbers numerically where that differs from publication order; the keep-alive id changes its wire type at the development version the changelog names (339); the play packets of this property carry the published ids in every README release.',
   note='Batch-limit behaviour over long histories is a run-time quantity: not decided.', ref='3/C11'),
 'C12': dict(cat='other', tech='lockset (must-hold) analysis over the resolved call graph, who-may-call, alias-aware socket and queue census, ownership of the frame buffer and of the popped packet on path summaries',
   text='Decides the discipline atomicity rests on: only Packet._write_buffer (and the cipher wrapper) send on the socket, two consecutive sends with no call between, from a buffer created by that very Packet.write call and held by nothing else; on every call path to _write_packet the write lock is held; the queue is only appended and popleft-ed (under the lock); disconnect flushes iff not immediate, inside the lock, before interrupt and close; the reactors write nothing between a set-compression packet and the switch of the threshold, so a queued packet is framed in the mode in force when it is written; _pop_packet reports whether it wrote a packet (what every draining loop relies on); wherever the queue is popped the popped packet goes to _write_packet exactly once and nowhere else, under the lock, and the queue is never iterated; in Packet.write nothing is sent on a path on which the serialisation raised; the cipher wrapper holds nothing back.',
   note='Schedules themselves are not explored; the lock discipline is a path fact that holds for all of them. OS partial sends not decided.', ref='3/C12'),
 'C13': dict(cat='other', tech='path-sensitive effect summaries of _react/_write_packet/register_packet_listener/PacketListener: stage order, exception scope per call site, list choice per flag combination',
   text='Decides: the list chosen by (early, outgoing) is the documented one for all four combinations and insertion is append; _react runs early loop, reaction, ordinary loop in that order inside one IgnorePacket-only handler; _write_packet runs early-outgoing loop, write, outgoing loop likewise; call_packet filters by isinstance and calls back at most once; the listener keeps every packet type it was registered with; the decorator form registers like the direct call however often the decorator is applied. (also when the factory is a functools.partial application: the registration gets its own copy of the captured options).',
   note='What user callbacks do is not decided.', ref='3/C13'),
 'C14': dict(cat='other', tech='path-sensitive effect summaries (exceptions followed into handlers, loop exits) of run and _handle_exception: ordering, guard and re-binding relations',
   text='Decides: _run and _handle_exit are contained by an Exception handler that, on every path that caught something, sets interrupt and dispatches it (nothing is dropped), and clears the slot in finally; first matching handler wins (break), a raising handler rebinds exc and exc_info and falls through; the final handler stage runs on both loop exits guarded only by not-in-(None, False); the record store follows it; close is guarded by the newest slot interrupt; re-raise iff final handler is None and nothing caught; early registration inserts at 0; the flag test and the close are one critical section of the write lock; the dispatcher\'s own disconnect cannot raise on a dead peer (guards take every OSError); no reactor but the status probe claims an exception; the decorator form of handler registration leaves its captured options intact; a handler can connect again because the activity check is the thread-slot condition; an exception the write phase of a networking cycle caught is re-raised at the end of that cycle on every path (only a disconnect packet clears it); no handler inside read_packet covers the packet decoder; a raising reactor handler does not end the dispatch.',
   note='Dynamic type match of a particular exception is not decided.', ref='3/C14'),
 'C15': dict(cat='other', tech='EOF-progress rule over the loop summaries of every stream-reading loop, frame-complete loop invariant (linear forms), loop-free error path (call graph)',
   text='Decides: every loop containing a stream read either tests that read for emptiness each iteration with the true arm leaving the loop, or is counter-bounded; _react is called only on packets returned past the reassembly condition and no break leaves that loop; the error path to thread exit contains no stream-reading loop; wrappers preserve empty reads; status-phase EOF fallback is EOFError-only, and no other reactor reports an exception as handled (the thread would end silently); the version the fallback logs in with is the latest allowed one when no initial version was given; when the fallback itself fails the new exception is dispatched.',
   note='A numeric bound on I/O steps and select() behaviour are not decided.', ref='3/C15'),
 'C16': dict(cat='other', tech='who-may-construct (call graph), three-valued activity predicate over path decisions, effects on every exit of the lifecycle methods (path summaries), definite assignment',
   text='Decides: threads are constructed and started only in _start_network_thread under the lock on valid-state paths, whose condition is the same boolean function as _check_connection; the successor joins its predecessor before running and has emptied the successor slot on every exit; the check dominates every state change in connect/status; every attribute disconnect reads is initialised in __init__ and socket/file_object are published together; teardown runs on every exit of disconnect; every polling or counted loop of _run and of the helpers it is split into leaves on the interrupt flag; shutdown covers the read direction so a blocked reader is woken and its guard takes every OSError; the exception dispatch tests the newest slot\'s interrupt flag and closes inside one critical section of the write lock, so a connection begun meanwhile by another thread is not the one closed.',
   note='Interleavings of two user threads beyond the lock discipline are not explored.', ref='3/C16'),
 'C17': dict(cat='other', tech='term extraction (path summaries, helpers inlined, hash updates in effect order) of generate_verification_hash vs reference term',
   text='Decides: the hash is format(int.from_bytes(sha1(utf8(server_id) || secret || key).digest(), big, signed=True), "x") - update order, encoding, byte order, signedness, lower-case hex - and the use site passes (server_id, secret, public_key) in order to join; a hand-written signed conversion is recognised and its sign test folded over all 256 first-byte values; a fast path that strips zeros on the right of the hex text is a violation (another fast path is undecided, not accepted); the server id is the String codec\'s plain UTF-8 decoding of the server\'s bytes.',
   note='Digest values are library numerics; Python format(n,"x") of a negative int equals BigInteger.toString(16).', ref='3/C17'),
 'C18': dict(cat='other', tech='term extraction of the cipher helpers (path summaries) + installation-site dataflow on the login arm\'s summaries',
   text='Decides: cipher = Cipher(AES(s), CFB8(s)) with the same parameter as key and IV; secret = os.urandom(16) generated per encryption request; token and secret RSA-encrypted with PKCS1v15 and returned in the order the caller unpacks; one encryptor/decryptor pair per login lives in the wrappers, whose methods are single pass-through updates; nothing calls recv on the connection socket; the reading loop takes the stream from the connection for every frame; the forced write writes only the encryption response. every path to the frame writer and the queue pop holds the write lock (also the flush of disconnect), so the one encryptor sees the frames one after the other.',
   note='Interoperation with an independent CFB8 and RSA recovery are library numerics: not applicable to this technique.', ref='3/C18'),
 'C19': dict(cat='other', tech='path-sensitive effect summaries of the token operations: request-shape table agreement, stores only after the error check returned, error-mapper classification; folding of the authenticated predicate',
   text='Decides: authenticated is the conjunction of its four inputs (16 combinations), Profile truth is id and name present; each operation posts the documented endpoint and payload keys from the documented sources; every store to token fields is dominated by the raise-on-error call; _raise_from_response returns only on OK and every other path raises with status_code set; validate true only on 204; join guarded by authenticated. Text taken from the reply is only ever a formatting argument, never part of a format string.',
   note='Real HTTP encoding and requests behaviour are not decided.', ref='3/C19'),
 'C20': dict(cat='other', tech='effect/guard relations on the path summaries of the tracker apply methods and record/vector helpers; alias descriptors applied symbolically (continuation summaries); exhaustive constant folding of name_from_value over the library\'s enums',
   text='Narrow claim: only AddPlayerAction inserts into the player table, updates use a non-raising lookup and store under a guard, removal is guarded; each position axis adds under its protocol flag bit and overwrites otherwise, angles wrap last; map patch indexes with packet width / map stride / offset x,z; the descriptor each alias factory returns, applied to self, reads / stores / deletes exactly the aliased attribute path (transforms in the right direction); eq and hash enumerate the same slots, which are a pure function of the own MRO of the class (no cache a subclass could inherit) and the hash never goes through the text or identity of a value, on any returning path; vector operators preserve type and pair components, and refuse an operand by isinstance against Vector itself, nothing narrower; every alias factory use site passes attribute names where names belong; name_from_value is folded over its whole finite domain (every enum class of the library; for flag enums every value 0..255): a printed name parses back to the value, a union of flags has a name, a plain member is named by a member holding it.',
   note='Tracker state after a history, enums generated at run time and numeric vector results are value-level: not applicable to static analysis.', ref='3/C20'),
}

ENGINES = [
 ('srcdb', 'vp/srcdb.py', 'resolved program index (imports, classes, MRO, wrappers)'),
 ('fold', 'vp/fold.py', 'constant-folding abstract interpreter over the version domain'),
 ('protocol', 'vp/protocol.py', 'folded per-version tables, ids, definitions'),
 ('wiregram', 'vp/wiregram.py', 'wire-grammar extraction and regular-language inclusion'),
 ('bitprov', 'vp/bitprov.py', 'bit-provenance analysis of packing code'),
 ('cfg', 'vp/cfg.py', 'control-flow graphs with exception edges, dominators'),
 ('callgraph', 'vp/callgraph.py', 'resolved call graph, lockset, who-may-call'),
 ('terms', 'vp/terms.py', 'value-graph extraction for straight-line helpers'),
 ('ranges', 'vp/ranges.py', 'interval and sign domains'),
 ('boolfn', 'vp/boolfn.py', 'propositional guard functions'),
 ('normalize', 'vp/normalize.py', 'behaviour-preserving normal form of the parsed program (helper inlining, constant and copy propagation)'),
 ('pathsum', 'vp/pathsum.py', 'path-sensitive effect summaries over a term domain (abstract interpretation, no solver)'),
 ('reassembly', 'vp/reassembly.py', 'linear loop invariants for byte accounting'),
 ('memo', 'vp/memo.py', 'memoisation census and key-coverage analysis (a remembered answer must be determined by its key)'),
]

USES = {
 'srcdb': 'ALL', 'fold': ['C04', 'C05', 'C06', 'C07', 'C08', 'C09', 'C11'],
 'protocol': ['C05', 'C06', 'C07', 'C09', 'C10', 'C11'],
 'wiregram': ['C05'], 'bitprov': ['C04'],
 'cfg': ['C10', 'C12', 'C15', 'C16'],
 'callgraph': 'ALL', 'terms': ['C02', 'C08'],
 'ranges': ['C02', 'C03'], 'boolfn': ['C12', 'C16'],
 'normalize': 'ALL',
 'pathsum': ['C01', 'C02', 'C03', 'C05', 'C06', 'C09', 'C10', 'C11', 'C13',
             'C14', 'C15', 'C16', 'C17', 'C18', 'C19', 'C20'],
 'reassembly': ['C01', 'C03', 'C15'],
 'memo': 'ALL',
}


def main():
    ids = [json.loads(l)['id'] for l in open(os.path.join(HERE,
                                                         'properties.jsonl'))]
    have = [i for i in ids if os.path.exists(
        os.path.join(HERE, 'vp', 'props', i.lower() + '.py'))]
    checks = []
    for i in have:
        c = CLAIMS[i]
        checks.append(dict(
            property_id=i,
            quick_cmd='/venv/bin/python -m vp.check %s --tier quick' % i,
            thorough_cmd='/venv/bin/python -m vp.check %s --tier thorough' % i,
            evidence_file='/verif/evidence/%s.json' % i,
            replay_cmd_template='/venv/bin/python -m vp.check %s --replay {path}' % i,
            engine='vp.check',
            level_claimed=dict(category=c['cat'], text=c['text'],
                               design_ref='DESIGN.md section ' + c['ref']),
            level_note=c['note'], technique='static analysis: ' + c['tech']))
    engines = []
    for name, path, kind in ENGINES:
        if not os.path.exists(os.path.join(HERE, path)):
            continue
        serves = have if USES[name] == 'ALL' else [x for x in USES[name]
                                                   if x in have]
        engines.append(dict(name=name, path=path, serves_properties=serves,
                            kind_free_text=kind))
    na = [dict(property_id=i, reason='checker not built yet (DESIGN.md '
               'section 3 describes the planned rules); no verdict is '
               'claimed until it is armed') for i in ids if i not in have]
    m = dict(
        version=1, setup_cmd='true',
        hooks=dict(guard='PYCRAFT_VERIF',
                   enable='none needed: checks parse /repo sources with ast '
                          'and never import or run them',
                   baseline_off_cmd='cd /repo && /venv/bin/python -m pytest '
                   '-ra -q -p no:cacheprovider --timeout=900 '
                   '--continue-on-collection-errors',
                   source_commits=[], add_only=True),
        engines=engines, checks=checks,
        notes='Static analysis only (stdlib ast under /venv/bin/python). '
              'Exit 0 held / 1 + VIOLATION / 2 + ANALYSIS-ERROR (analysis '
              'does not understand the tree; never a pass). Known findings: '
              'known_findings.json. Self-test of the checkers: python -m '
              'vp.selftest.',
        not_applicable=na)
    with open(os.path.join(HERE, 'MANIFEST.json'), 'w') as fh:
        json.dump(m, fh, indent=1)
    print('claimed: %s' % ' '.join(have))
    print('not yet: %s' % ' '.join(x['property_id'] for x in na))


if __name__ == '__main__':
    main()
