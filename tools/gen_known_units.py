#!/venv/bin/python
"""Freeze the units of the confirmed tree: the functions the rules were
written against (everything else that is defined in the repository and
called from them is inlined by vp.normalize) and the module-level names that
existed (newer literal constants are substituted).  Run on the confirmed
tree only:  VP_NO_NORMALIZE=1 tools/gen_known_units.py"""
import json
import os
import sys
sys.path.insert(0, os.path.dirname(os.path.dirname(os.path.abspath(__file__))))
os.environ['VP_NO_NORMALIZE'] = '1'
from vp import srcdb   # noqa
db = srcdb.SrcDB()
funcs = {}
for f in db.funcs:
    funcs.setdefault(f.module.name, set()).add(f.qualname)
globs = {m.name: sorted(n for n in m.bindings if n != '*')
         for m in db.modules.values()}
out = dict(functions={m: sorted(v) for m, v in sorted(funcs.items())},
           globals=dict(sorted(globs.items())))
p = os.path.join(os.path.dirname(os.path.dirname(os.path.abspath(__file__))),
                 'vp', 'known_units.json')
json.dump(out, open(p, 'w'), indent=0, sort_keys=True)
print(sum(len(v) for v in funcs.values()), 'functions,',
      sum(len(v) for v in globs.values()), 'globals ->', p)
