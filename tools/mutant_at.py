#!/venv/bin/python
"""tools/mutant_at.py <file> <kind> <code prefix> [checks...] -- re-create one
mechanical mutant of tools/automutate.py (matched by kind and the text of the
mutated node) in a scratch copy, show its diff and run the given checks."""
import ast, difflib, os, shutil, subprocess, sys, tempfile
sys.path.insert(0, os.path.dirname(os.path.abspath(__file__)))
import automutate as A
rel, kind, code = sys.argv[1:4]
ids = sys.argv[4:]
src = open(os.path.join('/repo', rel)).read()
tree = ast.parse(src)
hits = [(k, i) for k, i in A.sites(tree) if k.split(':')[0] == kind
        and A.describe(tree, k, i)[1].startswith(code)]
if not hits:
    sys.exit('no such site')
k, i = hits[int(os.environ.get('N', '0'))]
new = ast.unparse(A.apply(tree, k, i)) + '\n'
old = ast.unparse(tree) + '\n'
sys.stdout.writelines(difflib.unified_diff(old.splitlines(1), new.splitlines(1), rel, rel + ' (mutant)', n=2))
d = tempfile.mkdtemp(prefix='mut-')
try:
    shutil.copytree('/repo/minecraft', d + '/minecraft', ignore=shutil.ignore_patterns('__pycache__'))
    shutil.copy('/repo/README.rst', d)
    open(os.path.join(d, rel), 'w').write(new)
    for pid in ids:
        env = dict(os.environ, PYCRAFT_REPO=d, VP_OUT=d + '/_o')
        r = subprocess.run(['/venv/bin/python', '-m', 'vp.check', pid], cwd='/verif', env=env, capture_output=True, text=True)
        print(pid, 'rc=%d' % r.returncode)
        for l in (r.stdout + r.stderr).splitlines():
            if l.startswith(('FINDING', 'ANALYSIS')):
                print('   ', l[:300])
finally:
    shutil.rmtree(d, ignore_errors=True)
