#!/venv/bin/python
"""Show what vp.normalize changes: unified diff of ast.unparse before/after.
  tools/normdiff.py [repo]"""
import ast, difflib, os, sys
sys.path.insert(0, os.path.dirname(os.path.dirname(os.path.abspath(__file__))))
repo = sys.argv[1] if len(sys.argv) > 1 else '/repo'
os.environ['PYCRAFT_REPO'] = repo
from vp import srcdb, normalize
raw = srcdb.SrcDB(repo)
before = {n: ast.unparse(m.tree) for n, m in raw.modules.items()}
stats = normalize.run(raw)
for n, m in sorted(raw.modules.items()):
    after = ast.unparse(m.tree)
    if after != before[n]:
        sys.stdout.writelines(l + '\n' for l in difflib.unified_diff(
            before[n].splitlines(), after.splitlines(), n, n + ' (normal form)',
            lineterm='', n=1))
print(stats)
