#!/venv/bin/python
"""tools/recheck_survivors.py [report.json] -- re-create every survivor listed
in automutate_report.json and run the twenty quick checks on it again; prints
those a check reports now (rules added since the run) and a summary."""
import ast, json, os, shutil, subprocess, sys, tempfile
from concurrent.futures import ThreadPoolExecutor
sys.path.insert(0, os.path.dirname(os.path.abspath(__file__)))
import automutate as A
rep = json.load(open(sys.argv[1] if len(sys.argv) > 1 else
                     os.path.join(A.VERIF, 'automutate_report.json')))
trees = {}
def site(r):
    rel = r['file']
    if rel not in trees:
        t = ast.parse(open(os.path.join('/repo', rel)).read())
        trees[rel] = (t, [(k, i, A.describe(t, k, i)) for k, i in A.sites(t)])
    t, ss = trees[rel]
    for k, i, (line, txt) in ss:
        if k.split(':')[0] == r['kind'] and line == r['line'] and txt == r['code']:
            return t, k, i
    return None
def one(r):
    s = site(r)
    if s is None:
        return r, None
    t, k, i = s
    d = tempfile.mkdtemp(prefix='rsv-')
    try:
        shutil.copytree('/repo/minecraft', d + '/minecraft', ignore=shutil.ignore_patterns('__pycache__'))
        shutil.copy('/repo/README.rst', d)
        open(os.path.join(d, r['file']), 'w').write(ast.unparse(A.apply(t, k, i)) + '\n')
        return r, A.run_checks(d)
    finally:
        shutil.rmtree(d, ignore_errors=True)
with ThreadPoolExecutor(int(os.environ.get('JOBS', '12'))) as ex:
    res = list(ex.map(one, rep['survivors']))
det = [(r, f) for r, f in res if f and any(v == 1 for v in f.values())]
und = [(r, f) for r, f in res if f and not any(v == 1 for v in f.values())]
gone = [r for r, f in res if f is None]
for r, f in det:
    print('NOW-DETECTED %s:%s %s %s -> %s' % (r['file'], r['line'], r['kind'], r['code'][:60], [k for k, v in f.items() if v == 1]))
for r, f in und:
    print('UNDECIDED %s:%s %s %s -> %s' % (r['file'], r['line'], r['kind'], r['code'][:60], list(f)))
print('survivors %d: now detected %d, undecided %d, site not found %d, still silent %d' % (
    len(res), len(det), len(und), len(gone), len(res) - len(det) - len(und) - len(gone)))
