#!/venv/bin/python
"""Mechanised assessment of the checks (not part of any verdict).

Generates first-order mutants of /repo/minecraft with generic operators
(comparison swap, and/or swap, dropped `not`, boolean flip, integer +-1,
statement deletion, adjacent-statement swap, argument swap), and for each:
  1. runs all twenty quick checks against a scratch copy  -> detected?
  2. if undetected, runs the pinned test suite            -> survives tests?
Mutants that survive the tests and no check notices are written to
automutate_survivors.json for manual triage (equivalent mutant, outside
every property, or a gap).

  tools/automutate.py [--jobs 16] [--max N] [--seed S] [--files a.py,b.py]
"""
import argparse
import ast
import copy
import json
import os
import random
import shutil
import subprocess
import sys
import tempfile
from concurrent.futures import ThreadPoolExecutor

VERIF = os.path.dirname(os.path.dirname(os.path.abspath(__file__)))
REPO = '/repo'
PY = '/venv/bin/python'
BASE = set(json.load(open('/root/.vp/BASELINE.json'))['stable_pass'])
IDS = [json.loads(l)['id'] for l in open(os.path.join(VERIF,
                                                      'properties.jsonl'))]

CMP = {ast.Lt: ast.LtE, ast.LtE: ast.Lt, ast.Gt: ast.GtE, ast.GtE: ast.Gt,
       ast.Eq: ast.NotEq, ast.NotEq: ast.Eq, ast.Is: ast.IsNot,
       ast.IsNot: ast.Is, ast.In: ast.NotIn, ast.NotIn: ast.In}


def sites(tree):
    """(kind, node path) mutation sites; node identified by index in walk."""
    out = []
    nodes = list(ast.walk(tree))
    for i, n in enumerate(nodes):
        if isinstance(n, ast.Compare) and len(n.ops) == 1 and \
                type(n.ops[0]) in CMP:
            out.append(('cmp', i))
        elif isinstance(n, ast.BoolOp):
            out.append(('boolop', i))
        elif isinstance(n, ast.UnaryOp) and isinstance(n.op, ast.Not):
            out.append(('not', i))
        elif isinstance(n, ast.Constant) and isinstance(n.value, bool):
            out.append(('bool', i))
        elif isinstance(n, ast.Constant) and isinstance(n.value, int) and \
                not isinstance(n.value, bool):
            out.append(('int+', i))
            out.append(('int-', i))
        elif isinstance(n, ast.Call) and len(n.args) >= 2 and not any(
                isinstance(a, ast.Starred) for a in n.args):
            out.append(('argswap', i))
        for fld in ('body', 'orelse', 'finalbody'):
            b = getattr(n, fld, None)
            if isinstance(b, list) and b and isinstance(b[0], ast.stmt):
                for j, st in enumerate(b):
                    if isinstance(st, (ast.Expr, ast.Assign, ast.AugAssign)) \
                            and not (isinstance(st, ast.Expr) and isinstance(
                                st.value, ast.Constant)):
                        out.append(('del:%s:%d' % (fld, j), i))
                    if j + 1 < len(b) and not isinstance(
                            st, (ast.FunctionDef, ast.ClassDef, ast.Import,
                                 ast.ImportFrom)) and not isinstance(
                                     b[j + 1], (ast.FunctionDef,
                                                ast.ClassDef)):
                        out.append(('swap:%s:%d' % (fld, j), i))
    return out


def apply(tree, kind, idx):
    t = copy.deepcopy(tree)
    n = list(ast.walk(t))[idx]
    if kind == 'cmp':
        n.ops = [CMP[type(n.ops[0])]()]
    elif kind == 'boolop':
        n.op = ast.Or() if isinstance(n.op, ast.And) else ast.And()
    elif kind == 'not':
        # replace `not x` by `x`: done by turning the op into a no-op
        n.op = ast.UAdd()
        n.operand = ast.Call(func=ast.Name(id='bool', ctx=ast.Load()),
                             args=[n.operand], keywords=[])
    elif kind == 'bool':
        n.value = not n.value
    elif kind == 'int+':
        n.value = n.value + 1
    elif kind == 'int-':
        n.value = n.value - 1
    elif kind == 'argswap':
        n.args[0], n.args[1] = n.args[1], n.args[0]
    elif kind.startswith('del:'):
        _, fld, j = kind.split(':')
        getattr(n, fld)[int(j)] = ast.Pass()
    elif kind.startswith('swap:'):
        _, fld, j = kind.split(':')
        b = getattr(n, fld)
        j = int(j)
        b[j], b[j + 1] = b[j + 1], b[j]
    ast.fix_missing_locations(t)
    return t


def describe(tree, kind, idx):
    n = list(ast.walk(tree))[idx]
    line = getattr(n, 'lineno', None)
    try:
        if kind.startswith(('del:', 'swap:')):
            _, fld, j = kind.split(':')
            txt = ast.unparse(getattr(n, fld)[int(j)]).split('\n')[0]
        else:
            txt = ast.unparse(n).split('\n')[0]
    except Exception:
        txt = '?'
    if line is None and kind.startswith(('del:', 'swap:')):
        _, fld, j = kind.split(':')
        line = getattr(getattr(n, fld)[int(j)], 'lineno', None)
    return line, txt[:90]


def run_checks(d):
    env = dict(os.environ, PYCRAFT_REPO=d, VP_OUT=os.path.join(d, '_out'))
    fired = {}
    for pid in IDS:
        p = subprocess.run([PY, '-m', 'vp.check', pid], cwd=VERIF, env=env,
                           capture_output=True, text=True)
        if p.returncode != 0:
            fired[pid] = p.returncode
            if p.returncode == 1:
                break           # one alarm is enough
    return fired


def run_suite(d):
    for sub in ('tests', 'setup.py', 'tox.ini'):
        src = os.path.join(REPO, sub)
        dst = os.path.join(d, sub)
        if os.path.isdir(src):
            shutil.copytree(src, dst, ignore=shutil.ignore_patterns(
                '__pycache__'))
        elif os.path.exists(src):
            shutil.copy(src, dst)
    xml = os.path.join(d, '_junit.xml')
    try:
        subprocess.run([PY, '-m', 'pytest', '-q', '-p', 'no:cacheprovider',
                        '--timeout=120', '--continue-on-collection-errors',
                        '--junitxml=' + xml], cwd=d,
                       capture_output=True, text=True, timeout=600)
    except subprocess.TimeoutExpired:
        return False
    import xml.etree.ElementTree as ET
    try:
        passed = set()
        for tc in ET.parse(xml).getroot().iter('testcase'):
            if not any(c.tag in ('failure', 'error', 'skipped') for c in tc):
                passed.add('%s::%s' % (tc.get('classname'), tc.get('name')))
    except Exception:
        return False
    return BASE <= passed


def one(job):
    relpath, kind, idx, tree = job
    d = tempfile.mkdtemp(prefix='amut-')
    try:
        shutil.copytree(os.path.join(REPO, 'minecraft'),
                        os.path.join(d, 'minecraft'),
                        ignore=shutil.ignore_patterns('__pycache__'))
        shutil.copy(os.path.join(REPO, 'README.rst'), d)
        try:
            src = ast.unparse(apply(tree, kind, idx)) + '\n'
            compile(src, relpath, 'exec')
        except Exception as e:
            return dict(file=relpath, kind=kind, status='invalid')
        open(os.path.join(d, relpath), 'w').write(src)
        line, txt = describe(tree, kind, idx)
        fired = run_checks(d)
        res = dict(file=relpath, kind=kind.split(':')[0], line=line,
                   code=txt, fired=fired)
        if any(v == 1 for v in fired.values()):
            res['status'] = 'detected'
        else:
            res['status'] = 'survivor' if run_suite(d) else 'killed-by-tests'
            if fired:
                res['status'] += '+undecided'
        return res
    finally:
        shutil.rmtree(d, ignore_errors=True)


def main():
    ap = argparse.ArgumentParser()
    ap.add_argument('--jobs', type=int, default=16)
    ap.add_argument('--max', type=int, default=400)
    ap.add_argument('--seed', type=int, default=1)
    ap.add_argument('--files', default=None)
    ap.add_argument('--out', default=os.path.join(
        VERIF, 'automutate_report.json'))
    a = ap.parse_args()
    rnd = random.Random(a.seed)
    jobs = []
    for dp, dn, fn in os.walk(os.path.join(REPO, 'minecraft')):
        for f in sorted(fn):
            if not f.endswith('.py'):
                continue
            p = os.path.join(dp, f)
            relp = os.path.relpath(p, REPO)
            if a.files and relp not in a.files.split(','):
                continue
            tree = ast.parse(open(p).read())
            for kind, idx in sites(tree):
                jobs.append((relp, kind, idx, tree))
    rnd.shuffle(jobs)
    jobs = jobs[:a.max]
    print('%d mutants' % len(jobs))
    with ThreadPoolExecutor(max_workers=a.jobs) as ex:
        results = list(ex.map(one, jobs))
    summary = {}
    for r in results:
        summary[r['status']] = summary.get(r['status'], 0) + 1
    print(summary)
    json.dump(dict(summary=summary, results=results), open(a.out, 'w'),
              indent=1)
    surv = [r for r in results if r['status'].startswith('survivor')]
    for r in surv:
        print('SURVIVOR %s:%s %s  %s' % (r['file'], r['line'], r['kind'],
                                         r['code']))


if __name__ == '__main__':
    main()
