#!/bin/bash
# tools/runall.sh [tier]  -- run all twenty checks in parallel against $PYCRAFT_REPO (/repo), summarise
cd /verif
tier=${1:-quick}
for i in $(seq -w 1 20); do
  ( /venv/bin/python -m vp.check C$i --tier $tier > /tmp/runall.C$i.out 2>&1; echo "C$i rc=$? $(grep -c '^FINDING' /tmp/runall.C$i.out) findings $(grep -m1 '^ANALYSIS' /tmp/runall.C$i.out | cut -c1-200)" ) &
done | sort
wait
