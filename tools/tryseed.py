#!/venv/bin/python
"""tools/tryseed.py <seed-name> [C01 C02 ...]  -- run checks against a stored
seeded change (scratch copy under mktemp, removed afterwards)."""
import os, shutil, subprocess, sys, tempfile, json
from concurrent.futures import ThreadPoolExecutor
VERIF = os.path.dirname(os.path.dirname(os.path.abspath(__file__)))
sd = os.path.join(VERIF, 'seeded', sys.argv[1])
ids = sys.argv[2:] or [json.loads(l)['id'] for l in open(os.path.join(VERIF, 'properties.jsonl'))]
d = tempfile.mkdtemp(prefix='tryseed-')
try:
    shutil.copytree('/repo/minecraft', os.path.join(d, 'minecraft'), ignore=shutil.ignore_patterns('__pycache__'))
    shutil.copy('/repo/README.rst', d)
    p = subprocess.run(['patch', '-p1', '-s', '-i', os.path.join(sd, 'patch.diff')], cwd=d, capture_output=True, text=True)
    if p.returncode:
        sys.exit(p.stdout + p.stderr)
    def one(pid):
        env = dict(os.environ, PYCRAFT_REPO=d, VP_OUT=os.path.join(d, '_out', pid))
        r = subprocess.run(['/venv/bin/python', '-m', 'vp.check', pid], cwd=VERIF, env=env, capture_output=True, text=True)
        return pid, r.returncode, [l for l in (r.stdout + r.stderr).splitlines() if l.startswith(('FINDING', 'ANALYSIS'))]
    with ThreadPoolExecutor(16) as ex:
        for pid, rc, lines in ex.map(one, ids):
            if rc or len(ids) < 4:
                print(pid, 'rc=%d' % rc)
                for l in lines[:8]:
                    print('    ' + l[:int(os.environ.get('W', '330'))])
finally:
    shutil.rmtree(d, ignore_errors=True)
