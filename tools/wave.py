#!/venv/bin/python
"""tools/wave.py <suffix> [-v]  -- run every check against every stored seed
whose name ends in <suffix> (e.g. -r2); print the non-silent cells."""
import os, re, shutil, subprocess, sys, tempfile, json
from concurrent.futures import ThreadPoolExecutor
VERIF = os.path.dirname(os.path.dirname(os.path.abspath(__file__)))
suffix = sys.argv[1]
verbose = '-v' in sys.argv
ids = [json.loads(l)['id'] for l in open(os.path.join(VERIF, 'properties.jsonl'))]
seeds = sorted(s for s in os.listdir(os.path.join(VERIF, 'seeded')) if s.endswith(suffix))
dirs = {}
for s in seeds:
    d = tempfile.mkdtemp(prefix='wave-')
    shutil.copytree('/repo/minecraft', os.path.join(d, 'minecraft'), ignore=shutil.ignore_patterns('__pycache__'))
    shutil.copy('/repo/README.rst', d)
    p = subprocess.run(['patch', '-p1', '-s', '-i', os.path.join(VERIF, 'seeded', s, 'patch.diff')], cwd=d, capture_output=True, text=True)
    if p.returncode:
        sys.exit(s + p.stdout + p.stderr)
    dirs[s] = d
def one(job):
    s, pid = job
    d = dirs[s]
    env = dict(os.environ, PYCRAFT_REPO=d, VP_OUT=os.path.join(d, '_out', pid))
    r = subprocess.run(['/venv/bin/python', '-m', 'vp.check', pid], cwd=VERIF, env=env, capture_output=True, text=True)
    return s, pid, r.returncode, [l for l in (r.stdout + r.stderr).splitlines() if l.startswith(('FINDING', 'ANALYSIS'))]
try:
    fa = un = 0
    with ThreadPoolExecutor(16) as ex:
        for s, pid, rc, lines in ex.map(one, [(s, p) for s in seeds for p in ids]):
            if not rc:
                continue
            fa += rc == 1
            un += rc != 1
            rules = sorted(set(re.findall(r'\[(R[0-9.]+)\]', ' '.join(lines))))
            first = next((l for l in lines if l.startswith('ANALYSIS')), '')
            print('%-8s %s %s %s %s' % (s, pid, 'FA' if rc == 1 else 'U ', ','.join(rules), first[:170] if rc != 1 or verbose else ''))
    print('false alarms %d, undecided %d' % (fa, un))
finally:
    for d in dirs.values():
        shutil.rmtree(d, ignore_errors=True)
